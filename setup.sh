#!/bin/sh
# Build the framework offline from files on disk: regenerate the extracted Lean from /repo, build library + driver.
set -e
cd "$(dirname "$0")"
/venv/bin/python tools/extract.py --repo "${VERIF_REPO:-/repo}" || true
/venv/bin/python tools/mkdrivers.py > /dev/null
cd lean && lake build
