#!/bin/sh
# Build the framework offline from files on disk: regenerate the extracted Lean from /repo, generate the per-property model
# drivers, build library + drivers.  A target that does not build does not abort the setup: every check rebuilds the modules of
# its own property and reports a failure there as a broken proof obligation of that property only.
cd "$(dirname "$0")" || exit 1
/venv/bin/python tools/extract.py --repo "${VERIF_REPO:-/repo}" || true
/venv/bin/python tools/mkdrivers.py > /dev/null || exit 1
cd lean || exit 1
lake build || echo "setup: some Lean targets did not build (reported by the check of the property they belong to)"
exit 0
