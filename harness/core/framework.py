"""Common machinery of ./check: Lean build + audit, driver access, verdict, evidence, known findings.

Terminology (DESIGN.md 3.5):
  * disagreement  – model (Lean, via hcdriver) and implementation differ on the same input.  Not a violation by
                    itself; it means the theorems no longer speak about this code → escalate the search.
  * violation     – a monitor (the property's executable predicate) is false on an observation of the
                    *implementation*.  Has a concrete replay.
  * tie broken    – extractor / Lean build / audit failure: a proof obligation no longer checks.
"""
from __future__ import annotations

import fcntl
import hashlib
import json
import os
import random
import re
import subprocess
import sys
import time
from pathlib import Path
from typing import Any, Callable, Dict, List, Optional

VERIF = Path(__file__).resolve().parents[2]
LEAN = VERIF / "lean"
REPO = Path(os.environ.get("VERIF_REPO", "/repo"))
RUN = VERIF / ".run"
REPLAYS = VERIF / "replays"
EVIDENCE = Path(os.environ["VERIF_EVIDENCE_DIR"]) if os.environ.get("VERIF_EVIDENCE_DIR") else VERIF / "evidence"   # the override is for development tools (tools/coverage_map.py) only
ALLOWED_AXIOMS = {"propext", "Classical.choice", "Quot.sound"}
FORBIDDEN = re.compile(r"\b(sorry|admit|native_decide|bv_decide|implemented_by|unsafe)\b|^\s*axiom\s|maxHeartbeats\s+0")

TRUSTED_BASE_COMMON = [
    "Lean 4.33.0 kernel (leanchecker re-check in the thorough tier); axioms allowed: propext, Classical.choice, Quot.sound",
    "tools/extract.py: the AST translator that regenerates lean/HC/Extracted/*.lean from /repo on every run",
    "hand-written Lean models of hypercorn's glue (lean/HC/**), tied to the code only by this run's correspondence",
    "third-party libraries (h11, h2, hpack, priority, wsproto), CPython, asyncio and trio: modelled, not verified",
    "the harness's own generators, in-memory transports, independent client parsers and monitors (harness/**)",
]


def jdump(o: Any) -> str:
    return json.dumps(o, sort_keys=True, default=_default)


def _default(o: Any) -> Any:
    if isinstance(o, (bytes, bytearray)):
        return {"$b": bytes(o).decode("latin1")}
    if isinstance(o, (set, frozenset)):
        return sorted(o, key=repr)
    if isinstance(o, tuple):
        return list(o)
    return repr(o)


def b2s(b: bytes) -> str:
    """bytes → JSON transport string (latin-1)."""
    return bytes(b).decode("latin1")


def s2b(s: str) -> bytes:
    return s.encode("latin1")


class DriverError(Exception):
    pass


class Driver:
    """Batch access to the compiled Lean model driver."""

    def __init__(self, exe: Path) -> None:
        self.exe = exe
        self.calls = 0

    def batch(self, reqs: List[dict]) -> List[Any]:
        if not reqs:
            return []
        data = "\n".join(json.dumps(r) for r in reqs) + "\n"
        p = subprocess.run([str(self.exe)], input=data.encode(), stdout=subprocess.PIPE, stderr=subprocess.PIPE, timeout=600)
        if p.returncode != 0:
            raise DriverError(f"hcdriver exit {p.returncode}: {p.stderr.decode()[:500]}")
        lines = [l for l in p.stdout.decode().split("\n") if l]
        if len(lines) != len(reqs):
            raise DriverError(f"hcdriver answered {len(lines)} lines for {len(reqs)} requests")
        out = []
        for ln in lines:
            j = json.loads(ln)
            out.append(j)
        self.calls += len(reqs)
        return out

    def one(self, req: dict) -> Any:
        return self.batch([req])[0]


class Ctx:
    def __init__(self, pid: str, tier: str, seed: int) -> None:
        self.pid = pid
        self.tier = tier
        self.seed = seed
        self.rng = random.Random(seed * 1000003 + int(pid[1:]))
        self.t0 = time.time()
        self.evaluations = 0
        self.nontrivial: set = set()
        self.distribution: Dict[str, Dict[str, int]] = {}
        self.samples: List[Any] = []
        self.disagreements: List[dict] = []
        self.violations: List[dict] = []
        self.tie_broken: List[dict] = []
        self.theorems: List[dict] = []
        self.obligations = 0
        self.discharged = 0
        self.traces_validated = 0
        self.disagreements_checked = 0
        self.exhaustive: Optional[bool] = None
        self.notes: List[str] = []
        self.extra: Dict[str, Any] = {}
        self.driver: Optional[Driver] = None
        self.lean_ok = False
        self.escalated = False

    # ---- bookkeeping used by the per-property generators ----
    @property
    def thorough(self) -> bool:
        return self.tier == "thorough" or self.escalated

    def budget(self, quick: int, thorough: int) -> int:
        if self.tier == "thorough":
            return thorough
        if self.escalated:      # quick tier, tie broken: search harder, but stay within minutes
            return min(thorough, 4 * quick)
        return quick

    def count(self, family: str, key: Any, n: int = 1) -> None:
        d = self.distribution.setdefault(family, {})
        k = str(key)
        d[k] = d.get(k, 0) + n

    def distinct(self, key: Any) -> None:
        self.nontrivial.add(jdump(key))

    def sample(self, case: Any, cap: int = 3) -> None:
        if len(self.samples) < cap:
            self.samples.append(json.loads(jdump(case)))

    def disagree(self, what: str, case: Any, model: Any, impl: Any) -> None:
        self.disagreements.append({"what": what, "case": json.loads(jdump(case)), "model": json.loads(jdump(model)), "impl": json.loads(jdump(impl))})

    def violation(self, clause: str, case: Any, detail: Any, signature: Optional[dict] = None) -> None:
        sig = {"clause": clause}
        if signature:
            sig.update(signature)
        self.violations.append({"clause": clause, "case": json.loads(jdump(case)), "detail": json.loads(jdump(detail)), "signature": sig})

    def model(self, reqs: List[dict]) -> Optional[List[Any]]:
        """Ask the Lean model; None when the driver is unavailable (tie already broken)."""
        if self.driver is None:
            return None
        return self.driver.batch(reqs)


# --------------------------------------------------------------------------------------------------------------
# Lean: extract, build, audit
# --------------------------------------------------------------------------------------------------------------
class LeanLock:
    def __enter__(self):
        LEAN.mkdir(exist_ok=True)
        self.f = open(VERIF / ".lean.lock", "w")
        fcntl.flock(self.f, fcntl.LOCK_EX)
        return self

    def __exit__(self, *a):
        fcntl.flock(self.f, fcntl.LOCK_UN)
        self.f.close()


# Extractor items that assert a *shape* of the source (they emit no Lean definition that a theorem could depend on): the
# properties whose models rely on that shape.  An item that is not listed here and whose name is no Lean identifier either is
# attributed conservatively to every property that lists its file.
SHAPE_OWNERS = {
    "sendDataChunk": ["C08", "C09"], "bufferPopLength": ["C08", "C09"], "bufferComplete/sendDataEnds": ["C08", "C09"],
    "exitPath": ["C14", "C15", "C18"], "asyncioExitPath": ["C14", "C15", "C18"], "trioExitPath": ["C14", "C15", "C18"],
    # HC/Pure/Config.lean is in many import closures (response headers); these items concern the loaders / bind parsing only
    "fromMappingGuards": ["C19"], "readableKeys/unreadableKeys": ["C19"], "inetIsV6": ["C19"], "createSocketsCarried": ["C19"],
}


def _lean_closure(modules: List[str]) -> Dict[str, str]:
    """module name -> source, for the import closure of `modules` inside lean/HC and lean/Driver"""
    out: Dict[str, str] = {}
    todo = list(modules)
    while todo:
        m = todo.pop()
        if m in out:
            continue
        f = LEAN / (m.replace(".", "/") + ".lean")
        if not f.exists():
            continue
        src = f.read_text()
        out[m] = src
        todo += re.findall(r"^import (\S+)", src, re.M)
    return out


def _all_lean_sources() -> Dict[str, str]:
    return {str(f.relative_to(LEAN))[:-5].replace("/", "."): f.read_text() for d in ("HC", "Driver") for f in (LEAN / d).rglob("*.lean")}


def extractor_item_relevant(pid: str, item: str, closure: Dict[str, str], everything: Dict[str, str]) -> bool:
    """does a failed extractor item concern this property?  Yes when a model / theorem in the property's import closure uses
    the definition the item would have produced, or when the item is a shape assertion this property's model relies on."""
    key = item.strip()
    if key in SHAPE_OWNERS:
        return pid in SHAPE_OWNERS[key]
    names = [n for n in re.split(r"[/\s]+", key) if re.fullmatch(r"[A-Za-z_][A-Za-z0-9_']*", n) and n not in ("except", "runtime", "atomic")]
    if not names:
        return True

    def used_in(srcs: Dict[str, str]) -> bool:
        return any(not m.startswith("HC.Extracted") and re.search(r"\b" + re.escape(n) + r"\b", src) for n in names for m, src in srcs.items())
    if used_in(closure):
        return True
    if used_in(everything):
        return False           # the definition exists for other properties' models only
    return True                # nobody refers to it by name: a shape assertion without a registered owner - be conservative


def run_extractor(ctx: Ctx, wanted: Optional[List[str]] = None, modules: Optional[List[str]] = None) -> None:
    p = subprocess.run([sys.executable, str(VERIF / "tools" / "extract.py"), "--repo", str(REPO)],
                       stdout=subprocess.PIPE, stderr=subprocess.STDOUT, timeout=120)
    out = p.stdout.decode()
    if p.returncode != 0:
        fails = [l for l in out.splitlines() if l.startswith("EXTRACT-FAIL")]
        closure = _lean_closure(list(modules or []) + [f"Driver.Main_{ctx.pid}"])
        everything = _all_lean_sources()
        ignored = []
        for line in fails:
            m = re.match(r"EXTRACT-FAIL \[(\w+)\]\s*([^:]*):", line)
            tag, item = (m.group(1), m.group(2)) if m else (None, "")
            if wanted is not None and tag is not None and tag not in wanted:
                continue
            if m is not None and modules is not None and not extractor_item_relevant(ctx.pid, item, closure, everything):
                ignored.append(line[:200])
                continue
            ctx.tie_broken.append({"kind": "extractor", "what": line})
        if ignored:
            ctx.extra["extractor_failures_of_other_properties"] = ignored[:10]
        if not fails:
            ctx.tie_broken.append({"kind": "extractor", "what": out[-800:]})
    ctx.extra["extractor"] = [l for l in out.splitlines() if l.startswith("EXTRACT")][:40]


def theorem_names(props_file: Path, namespace: str) -> List[str]:
    names = []
    if not props_file.exists():
        return names
    for m in re.finditer(r"^(?:private\s+)?theorem\s+([A-Za-z0-9_'.]+)", props_file.read_text(), re.M):
        full = m.group(0)
        if full.startswith("private"):
            continue
        names.append(f"{namespace}.{m.group(1)}")
    return names


def _strip_comments(src: str) -> str:
    src = re.sub(r"/-.*?-/", "", src, flags=re.S)
    src = re.sub(r"--.*", "", src)
    return src


def grep_forbidden() -> List[str]:
    hits = []
    for f in list((LEAN / "HC").rglob("*.lean")) + list((LEAN / "Driver").rglob("*.lean")):
        for i, line in enumerate(_strip_comments(f.read_text()).splitlines(), 1):
            if FORBIDDEN.search(line):
                hits.append(f"{f.relative_to(LEAN)}:{i}: {line.strip()[:120]}")
    return hits


def lean_build_and_audit(ctx: Ctx, modules: List[str], extracted: Optional[List[str]] = None) -> None:
    """Build the property's theorem modules and the driver; audit axioms of every public theorem."""
    with LeanLock():
        run_extractor(ctx, extracted, modules)
        drv = f"hcdriver_{ctx.pid}" if (LEAN / "Driver" / f"Main_{ctx.pid}.lean").exists() else "hcdriver"
        targets = modules + [drv]
        t = time.time()
        p = subprocess.run(["lake", "build"] + targets, cwd=LEAN, stdout=subprocess.PIPE, stderr=subprocess.STDOUT, timeout=3000)
        out = p.stdout.decode()
        ctx.extra["lake_build_s"] = round(time.time() - t, 1)
        exe = LEAN / ".lake" / "build" / "bin" / drv
        if p.returncode != 0:
            failed = sorted(set(re.findall(r"^- (\S+)$", out, re.M)))
            errs = re.findall(r"^error: (HC/\S+?\.lean):(\d+):\d+: (.*)$", out, re.M)
            for mod in failed or ["?"]:
                where = [f"{f}:{ln}: {msg[:160]}" for f, ln, msg in errs if f[:-5].replace("/", ".") == mod][:5]
                ctx.tie_broken.append({"kind": "lean-build", "module": mod, "errors": where or [out[-600:]],
                                       "theorem": _enclosing_theorem(errs, mod)})
            # is the driver still usable?  only if it was (re)built successfully
            drv_ok = not any(m.startswith("Driver") or m == drv for m in failed) and exe.exists()
            # a driver built from a model whose theorems fail is still the *model*; keep it for the search
            if drv_ok:
                p2 = subprocess.run(["lake", "build", drv], cwd=LEAN, stdout=subprocess.PIPE, stderr=subprocess.STDOUT, timeout=3000)
                drv_ok = p2.returncode == 0
            ctx.driver = Driver(exe) if drv_ok else None
        else:
            ctx.driver = Driver(exe)
        if ctx.driver is not None:
            ctx.driver = Driver(_private_copy(exe))
        # obligations
        names: List[str] = []
        for mod in modules:
            if mod.startswith("HC.Props."):
                names += theorem_names(LEAN / (mod.replace(".", "/") + ".lean"), mod)
        ctx.obligations = len(names)
        if p.returncode == 0 and names:
            RUN.mkdir(exist_ok=True)
            audit = RUN / f"Audit_{ctx.pid}_{os.getpid()}.lean"
            audit.write_text("".join(f"import {m}\n" for m in modules) + "".join(f"#print axioms {n}\n" for n in names))
            try:
                pa = subprocess.run(["lake", "env", "lean", str(audit)], cwd=LEAN, stdout=subprocess.PIPE, stderr=subprocess.STDOUT, timeout=600)
                aout = pa.stdout.decode()
            finally:
                audit.unlink(missing_ok=True)
            seen = {}
            for m in re.finditer(r"'([^']+)' depends on axioms: \[([^\]]*)\]", aout, re.S):
                seen[m.group(1)] = [a.strip() for a in m.group(2).replace("\n", " ").split(",") if a.strip()]
            for m in re.finditer(r"'([^']+)' does not depend on any axioms", aout):
                seen[m.group(1)] = []
            for n in names:
                if n not in seen:
                    ctx.tie_broken.append({"kind": "audit", "theorem": n, "what": "not accepted / not found by #print axioms"})
                    continue
                bad = [a for a in seen[n] if a not in ALLOWED_AXIOMS]
                ctx.theorems.append({"name": n, "axioms": seen[n]})
                if bad:
                    ctx.tie_broken.append({"kind": "audit", "theorem": n, "what": f"disallowed axioms {bad}"})
                else:
                    ctx.discharged += 1
        hits = grep_forbidden()
        if hits:
            ctx.tie_broken.append({"kind": "audit", "what": "forbidden token in Lean sources", "hits": hits[:10]})
        ctx.lean_ok = not ctx.tie_broken


def _private_copy(exe: Path) -> Path:
    """this run's own copy of the driver (taken under the Lean lock), so that a concurrent rebuild cannot swap the
    model under a running check"""
    import atexit
    import shutil
    RUN.mkdir(exist_ok=True)
    dst = RUN / f"hcdriver_{os.getpid()}"
    shutil.copy2(exe, dst)
    owner = os.getpid()
    atexit.register(lambda: dst.unlink(missing_ok=True) if os.getpid() == owner else None)
    return dst


def _enclosing_theorem(errs, mod) -> Optional[str]:
    for f, ln, _ in errs:
        if f[:-5].replace("/", ".") != mod:
            continue
        try:
            lines = (LEAN / f).read_text().splitlines()
        except OSError:
            return None
        for i in range(int(ln) - 1, -1, -1):
            m = re.match(r"^(?:private\s+)?(?:theorem|def|example|lemma)\s*([A-Za-z0-9_'.]*)", lines[i]) if i < len(lines) else None
            if m:
                return m.group(1) or "example"
    return None


def leanchecker(ctx: Ctx, modules: List[str]) -> None:
    with LeanLock():
        t = time.time()
        p = subprocess.run(["lake", "env", "leanchecker"] + modules, cwd=LEAN, stdout=subprocess.PIPE, stderr=subprocess.STDOUT, timeout=3000)
        ctx.extra["leanchecker"] = {"modules": modules, "exit": p.returncode, "wall_s": round(time.time() - t, 1)}
        if p.returncode != 0:
            ctx.tie_broken.append({"kind": "leanchecker", "what": p.stdout.decode()[-600:]})


# --------------------------------------------------------------------------------------------------------------
# known findings, replay files, verdict, evidence
# --------------------------------------------------------------------------------------------------------------
def load_known() -> List[dict]:
    f = VERIF / "known_findings.json"
    return json.loads(f.read_text()) if f.exists() else []


def match_known(pid: str, sig: dict, known: List[dict]) -> Optional[dict]:
    for e in known:
        if e.get("status") != "known" or pid not in e.get("properties", []):
            continue
        if all(sig.get(k) == v for k, v in e["signature"].items()):
            return e
    return None


def write_replay(pid: str, payload: dict) -> Path:
    REPLAYS.mkdir(exist_ok=True)
    h = hashlib.sha1(jdump(payload).encode()).hexdigest()[:12]
    path = REPLAYS / f"{pid}-{h}.json"
    path.write_text(json.dumps(payload, indent=1, sort_keys=True, default=_default))
    return path


def finish(ctx: Ctx, spec: dict) -> int:
    """Decide the verdict, write evidence, print the lines of the interface, return the exit code."""
    known = load_known()
    new_violations, known_seen = [], {}
    for v in ctx.violations:
        e = match_known(ctx.pid, v["signature"], known)
        if e is not None:
            known_seen.setdefault(e["key"], (e, v))
        else:
            new_violations.append(v)
    lines, code = [], 0
    for key, (e, v) in sorted(known_seen.items()):
        lines.append(f"KNOWN-FINDING: property={ctx.pid} {key}: {e['what']}")
    reported = set()
    for v in new_violations:
        k = jdump(v["signature"])
        if k in reported:
            continue
        reported.add(k)
        path = write_replay(ctx.pid, {"property": ctx.pid, "kind": "monitor", **v, "seed": ctx.seed, "tier": ctx.tier})
        lines.append(f"VIOLATION property={ctx.pid} replay={path}")
        code = 1
        if len(reported) >= 5:
            break
    if code == 0 and (ctx.tie_broken or ctx.disagreements):
        # a proof obligation or the correspondence no longer checks and the search found no failing input
        payload = {"property": ctx.pid, "kind": "tie-broken", "tie_broken": ctx.tie_broken,
                   "disagreements": ctx.disagreements[:5], "searched": {"evaluations": ctx.evaluations, "escalated": ctx.escalated},
                   "seed": ctx.seed, "tier": ctx.tier}
        path = write_replay(ctx.pid, payload)
        lines.append(f"VIOLATION property={ctx.pid} replay={path} no-failing-input-found")
        code = 1
    write_evidence(ctx, spec, known_seen, len(reported) + (1 if code and not reported else 0))
    for ln in lines:
        print(ln)
    status = "PASS" if code == 0 else "FAIL"
    print(f"{status} {ctx.pid} tier={ctx.tier} seed={ctx.seed} theorems={ctx.discharged}/{ctx.obligations} "
          f"evaluations={ctx.evaluations} distinct_nontrivial={len(ctx.nontrivial)} disagreements={len(ctx.disagreements)} "
          f"violations={len(new_violations)} known={len(known_seen)} wall={time.time() - ctx.t0:.1f}s")
    return code


def write_evidence(ctx: Ctx, spec: dict, known_seen: dict, nviol: int) -> None:
    EVIDENCE.mkdir(exist_ok=True)
    cov: Dict[str, Any] = {
        "obligations": ctx.obligations,
        "discharged": ctx.discharged,
        "checker_cmd": f"cd {LEAN} && lake build {' '.join(spec['modules'])} hcdriver_{ctx.pid} && lake env lean <generated #print axioms file>",
        "trusted_base": TRUSTED_BASE_COMMON + spec.get("trusted", []),
        "theorems": ctx.theorems,
        "partial": spec.get("partial", []),
        "evaluations": ctx.evaluations,
        "distinct_nontrivial": len(ctx.nontrivial),
        "rule": spec.get("rule", ""),
        "samples": ctx.samples or [{"note": "no case generated (tie broken before the correspondence run)"}],
        "traces_validated_against_impl": ctx.traces_validated,
        "disagreements_checked": ctx.disagreements_checked,
        "disagreements_found": len(ctx.disagreements),
        "disagreement_samples": ctx.disagreements[:3],
        "distribution": ctx.distribution,
        "known_findings_seen": sorted(known_seen),
        "tie_broken": ctx.tie_broken,
        "escalated_search": ctx.escalated,
        "driver_calls": ctx.driver.calls if ctx.driver else 0,
    }
    hist: Dict[str, int] = {}
    for v in ctx.violations:
        k = jdump(v["signature"])
        hist[k] = hist.get(k, 0) + 1
    cov["violation_signatures"] = dict(sorted(hist.items(), key=lambda kv: -kv[1])[:60])
    if ctx.exhaustive is not None:
        cov["exhaustive"] = ctx.exhaustive
    cov.update(ctx.extra)
    ev = {
        "property_id": ctx.pid, "tier": ctx.tier, "seed": ctx.seed, "level": "proof", "coverage": cov,
        "assumptions": spec.get("assumptions", []) + ctx.notes,
        "wall_s": round(time.time() - ctx.t0, 2), "violations": nviol,
    }
    tmp = EVIDENCE / f".{ctx.pid}.json.tmp{os.getpid()}"
    tmp.write_text(json.dumps(ev, indent=1, sort_keys=True, default=_default))
    os.replace(tmp, EVIDENCE / f"{ctx.pid}.json")
