"""An HTTP/2 client that ignores whatever the server tells it (C18: limits must hold against *any* client).

Outgoing bytes are serialised by an `h2` client connection that is **never fed** the server's bytes: it never learns of
the server's SETTINGS (MAX_CONCURRENT_STREAMS, MAX_HEADER_LIST_SIZE), of GOAWAY or of resets, so it keeps opening
streams and sending header blocks of any size.  Incoming bytes are parsed independently at frame level with
`hyperframe` + an `hpack` decoder of its own: SETTINGS values, response HEADERS (`:status`), DATA, END_STREAM,
RST_STREAM codes and every GOAWAY (last_stream_id, error code, position in the frame sequence) are recorded.
"""
from __future__ import annotations

from typing import Dict, List, Optional, Tuple

import h2.config
import h2.connection
import h2.settings
import hpack
import hyperframe.frame as F

HPACK_OVERHEAD = 32


def header_list_size(headers: List[Tuple[bytes, bytes]]) -> int:
    """h2 / RFC 7541 accounting: name + value + 32 per field"""
    return sum(len(n) + len(v) + HPACK_OVERHEAD for n, v in headers)


def padded_headers(base: List[Tuple[bytes, bytes]], target: int, name: bytes = b"x-pad") -> Optional[List[Tuple[bytes, bytes]]]:
    """`base` plus one padding field so that the list size is exactly `target` (None when `base` is already too large)"""
    pad = target - header_list_size(base) - HPACK_OVERHEAD - len(name)
    if pad < 0:
        return None
    hs = list(base) + [(name, b"a" * pad)]
    assert header_list_size(hs) == target
    return hs


class RogueH2:
    def __init__(self, ack_settings: bool = False, upgrade: bool = False, enable_push: Optional[bool] = None) -> None:
        self.tx = h2.connection.H2Connection(config=h2.config.H2Configuration(
            client_side=True, header_encoding=None, validate_outbound_headers=False, normalize_outbound_headers=False))
        self.tx.local_settings.update({h2.settings.SettingCodes.ENABLE_PUSH: 0})
        if upgrade:      # the connection was opened by an HTTP/1.1 `Upgrade: h2c` request (stream 1 is the server's to answer)
            self.tx.initiate_upgrade_connection()
        else:
            self.tx.initiate_connection()
        # what this client tells the server about server push (a second SETTINGS frame; `None`: h2's client default, i.e.
        # ENABLE_PUSH = 1 - the `local_settings.update` above is never acknowledged and so never sent)
        if enable_push is not None:
            self.tx.update_settings({h2.settings.SettingCodes.ENABLE_PUSH: int(enable_push)})
        self.promises: List[dict] = []               # every PUSH_PROMISE: parent stream, promised stream, request header list
        self.heads: Dict[int, List[list]] = {}       # per stream: every HEADERS block as [END_STREAM, header list]
        self.ack_settings = ack_settings
        self._extra = b""
        self.buf = b""
        self.dec = hpack.Decoder()
        self.dec.max_header_list_size = 1 << 26
        self.frames: List[list] = []                 # [type name, stream id]
        self.streams: Dict[int, dict] = {}
        self.goaways: List[dict] = []
        self.settings: Dict[int, int] = {}
        self.settings_frames = 0
        self._hdr: Optional[list] = None
        self.parse_error: Optional[str] = None

    # ---- sending ----
    def out(self) -> bytes:
        data = self.tx.data_to_send() + self._extra
        self._extra = b""
        return data

    def request(self, headers: List[Tuple[bytes, bytes]], end: bool = True) -> int:
        sid = self.tx.get_next_available_stream_id()
        self.tx.send_headers(sid, headers, end_stream=end)
        return sid

    # ---- receiving ----
    def feed(self, data: bytes) -> None:
        if self.parse_error:
            return
        self.buf += data
        try:
            while len(self.buf) >= 9:
                f, length = F.Frame.parse_frame_header(memoryview(self.buf[:9]))
                if len(self.buf) < 9 + length:
                    break
                f.parse_body(memoryview(self.buf[9:9 + length]))
                self.buf = self.buf[9 + length:]
                self._on(f)
        except Exception as e:  # noqa - an unparseable server stream is an observation, not a harness failure
            self.parse_error = f"{type(e).__name__}: {e}"

    def _st(self, sid: int) -> dict:
        return self.streams.setdefault(sid, {"status": None, "data": 0, "ended": False, "reset": None})

    def _on(self, f) -> None:
        if isinstance(f, F.SettingsFrame):
            if "ACK" not in f.flags:
                self.settings_frames += 1
                self.settings.update({int(k): int(v) for k, v in f.settings.items()})
                if self.ack_settings:
                    ack = F.SettingsFrame(0)
                    ack.flags.add("ACK")
                    self._extra += ack.serialize()
        elif isinstance(f, (F.HeadersFrame, F.ContinuationFrame, F.PushPromiseFrame)):
            if isinstance(f, F.HeadersFrame):
                self._hdr = [f.stream_id, b"", "END_STREAM" in f.flags]
            elif isinstance(f, F.PushPromiseFrame):
                self._hdr = [f.stream_id, b"", False, int(f.promised_stream_id)]
            if self._hdr is not None:
                self._hdr[1] += f.data
                if "END_HEADERS" in f.flags and len(self._hdr) > 3:
                    # the header block of a PUSH_PROMISE is the promised REQUEST (it goes through the same HPACK state)
                    hs = self.dec.decode(self._hdr[1], raw=True)
                    self.promises.append({"parent": int(self._hdr[0]), "promised": self._hdr[3], "headers": [[bytes(n), bytes(v)] for n, v in hs],
                                          "at_frame": len(self.frames)})
                    self._hdr = None
                elif "END_HEADERS" in f.flags:
                    hs = self.dec.decode(self._hdr[1], raw=True)
                    s = self._st(self._hdr[0])
                    self.heads.setdefault(int(self._hdr[0]), []).append([bool(self._hdr[2]), [[bytes(n), bytes(v)] for n, v in hs]])
                    for n, v in hs:
                        if n == b":status":
                            s["status"] = int(v)
                    if self._hdr[2]:
                        s["ended"] = True
                    self._hdr = None
        elif isinstance(f, F.DataFrame):
            s = self._st(f.stream_id)
            s["data"] += len(f.data)
            if "END_STREAM" in f.flags:
                s["ended"] = True
        elif isinstance(f, F.RstStreamFrame):
            self._st(f.stream_id)["reset"] = int(f.error_code)
        elif isinstance(f, F.GoAwayFrame):
            self.goaways.append({"last": int(f.last_stream_id), "code": int(f.error_code), "at_frame": len(self.frames)})
        self.frames.append([type(f).__name__, int(f.stream_id)])

    def summary(self) -> dict:
        return {"streams": {str(k): v for k, v in self.streams.items()}, "goaways": self.goaways, "settings": {str(k): v for k, v in self.settings.items()},
                "parse_error": self.parse_error,
                "promises": [{"parent": p["parent"], "promised": p["promised"], "headers": [[n.decode("latin1"), v.decode("latin1")] for n, v in p["headers"]]}
                             for p in self.promises]}
