"""In-memory runners: hypercorn's real `TCPServer` (asyncio and trio) on harness-owned transports under virtual time.

A *session* is (config, alpn, client coroutine, application scripts).  The client coroutine gets a `ClientIO`
through which it feeds reads to the server (one `send` = one `read()` result, so segmentation is controlled exactly),
inspects what the server wrote, advances virtual time, half-closes, resets, pauses or fails the transport.
Everything observable is recorded into one ordered label list plus per-application records (DESIGN.md 3.4b).
"""
from __future__ import annotations

import asyncio
import heapq
import selectors
from socket import AF_INET
from typing import Any, Awaitable, Callable, Dict, List, Optional, Tuple

from .framework import b2s


# --------------------------------------------------------------------------------------------------------------
# recording
# --------------------------------------------------------------------------------------------------------------
class Rec:
    def __init__(self) -> None:
        self.labels: List[list] = []          # [t_ms, kind, ...]
        self.apps: List[dict] = []
        self.access: List[list] = []
        self.exceptions: List[str] = []
        self.now: Callable[[], float] = lambda: 0.0
        self.t0 = 0.0

    def t(self) -> int:
        return int(round((self.now() - self.t0) * 1000))

    def label(self, kind: str, *a: Any) -> None:
        self.labels.append([self.t(), kind, *a])


class RecLogger:
    def __init__(self, rec: Rec) -> None:
        self.rec = rec

    async def access(self, scope, response, request_time) -> None:
        st = None if response is None else int(response["status"])
        self.rec.access.append([self.rec.t(), scope.get("path"), st])
        self.rec.label("logAccess", scope.get("path"), st)

    async def exception(self, message, *a, **k) -> None:
        import sys
        e = sys.exc_info()[1]
        self.rec.exceptions.append(f"{message} :: {type(e).__name__ if e else None}")
        self.rec.label("logException", type(e).__name__ if e else None)

    async def warning(self, *a, **k) -> None:
        pass

    info = error = debug = critical = warning


class MockSocket:
    family = AF_INET

    def getsockname(self):
        return ("162.1.1.1", 80)

    def getpeername(self):
        return ("127.0.0.1", 4242)


def scope_proj(scope: dict) -> dict:
    out = {}
    for k in ("type", "http_version", "method", "scheme", "path", "root_path"):
        if k in scope:
            out[k] = scope[k]
    for k in ("raw_path", "query_string"):
        if k in scope:
            out[k] = b2s(scope[k])
    out["headers"] = [[b2s(n), b2s(v)] for n, v in scope.get("headers", [])]
    out["client"] = list(scope["client"]) if scope.get("client") else None
    out["server"] = list(scope["server"]) if scope.get("server") else None
    if "subprotocols" in scope:
        out["subprotocols"] = list(scope["subprotocols"])
    out["extensions"] = sorted(scope.get("extensions", {}))
    return out


def msg_proj(m: dict) -> list:
    t = m.get("type")
    if t == "http.request":
        return [t, b2s(m.get("body", b"")), bool(m.get("more_body", False))]
    if t == "websocket.receive":
        return [t, {"text": m["text"]} if m.get("text") is not None else {"bytes": b2s(m["bytes"])}]
    if t == "websocket.disconnect":
        return [t, m.get("code")]
    return [t]


def make_app(scripts: List[list], rec: Rec, sleep: Callable[[float], Awaitable[None]]):
    """instance i runs scripts[i % len].  Steps: ["recv"], ["recv_body"], ["recv_until_disconnect"], ["send", msg],
    ["sleep", s], ["raise"], ["return"], ["state", key, value]."""
    counter = {"n": 0}

    async def app(scope, receive, send):
        if scope["type"] == "lifespan":
            return
        idx = counter["n"]
        counter["n"] += 1
        me = {"id": idx, "scope": scope_proj(scope), "recv": [], "send": [], "exit": None, "t_start": rec.t()}
        # the (per-connection copy of the) lifespan state this instance sees; every instance leaves a mark in it, which the next
        # instance on the same connection sees and the worker's own dict (`WORKER_STATE`, read back in `_finish`) must never show
        if isinstance(scope.get("state"), dict):
            me["state_seen"] = sorted([str(k), str(v)] for k, v in scope["state"].items())
            scope["state"]["seen_by"] = idx
        rec.apps.append(me)
        rec.label("appStart", idx, scope["type"])
        steps = scripts[idx % len(scripts)]

        async def do_recv():
            m = await receive()
            me["recv"].append([rec.t()] + msg_proj(m))
            rec.label("appRecv", idx, m["type"])
            return m

        try:
            for st in steps:
                op = st[0]
                if op == "recv":
                    await do_recv()
                elif op == "recv_body":
                    while True:
                        m = await do_recv()
                        if m["type"] != "http.request" or not m.get("more_body"):
                            break
                elif op == "recv_until_disconnect":
                    while True:
                        m = await do_recv()
                        if m["type"].endswith("disconnect"):
                            break
                elif op == "send":
                    rec.label("appSendCall", idx, st[1].get("type"))
                    try:
                        await send(dict(st[1]))
                        me["send"].append([rec.t(), st[1].get("type"), "ok"])
                        rec.label("appSendRet", idx, "ok")
                    except Exception as e:  # noqa
                        me["send"].append([rec.t(), st[1].get("type"), type(e).__name__])
                        rec.label("appSendRet", idx, type(e).__name__)
                elif op == "send!":
                    # like "send", but the application does not catch what the server raises into it: it dies with it
                    rec.label("appSendCall", idx, st[1].get("type"))
                    try:
                        await send(dict(st[1]))
                    except BaseException as e:  # noqa
                        me["send"].append([rec.t(), st[1].get("type"), type(e).__name__])
                        rec.label("appSendRet", idx, type(e).__name__)
                        raise
                    me["send"].append([rec.t(), st[1].get("type"), "ok"])
                    rec.label("appSendRet", idx, "ok")
                elif op == "cancel":
                    # cancellation reaches the application at this await point (the connection itself stays up)
                    await _cancel_here(sleep, st[1] if len(st) > 1 else "inner")
                    break
                elif op == "raise_group":
                    raise ExceptionGroup("scripted group", [RuntimeError("scripted")])
                elif op == "sleep":
                    await sleep(st[1])
                elif op == "raise":
                    raise RuntimeError("scripted")
                elif op == "return":
                    break
                elif op == "state":
                    scope["state"][st[1]] = st[2]
            me["exit"] = "ok"
            rec.label("appExit", idx, "ok")
        except RuntimeError:
            me["exit"] = "raise"
            rec.label("appExit", idx, "raise")
            raise
        except BaseException as e:
            me["exit"] = type(e).__name__
            rec.label("appExit", idx, type(e).__name__)
            raise
        finally:
            me["t_exit"] = rec.t()

    return app


async def _cancel_here(sleep: Callable[[float], Awaitable[None]], how: str) -> None:
    """The ways a cancellation can reach application code without the server having asked for it.
    asyncio "inner": the application awaits something of its own that was cancelled - CancelledError propagates out of the
    application although its task was never cancelled; asyncio "self": the application's own task is cancelled (a framework
    timeout / disconnect handler calling `task.cancel()`) and the CancelledError is delivered at the next await.
    trio: a cancel scope opened by the application is cancelled; `Cancelled` is raised at the checkpoint and absorbed by the
    scope (trio never lets it travel further than the scope that owns it), after which the application ends."""
    if sleep is asyncio.sleep:
        if how == "self":
            asyncio.current_task().cancel()
            await asyncio.sleep(0)
        else:
            fut = asyncio.get_running_loop().create_future()
            fut.cancel()
            await fut
    else:
        import trio
        with trio.CancelScope() as scope:
            scope.cancel()
            await trio.sleep(1)


def mkconfig(cfg: dict, rec: Rec):
    import hypercorn.config as _hc
    from hypercorn.config import Config
    # the `date` response header is wall-clock time (it is not part of any compared observation; on HTTP/2 it is HPACK
    # encoded and cannot be masked in raw bytes): freeze it so that two runs of one session write identical bytes
    if hasattr(_hc, "time"):
        _hc.time = lambda: 1600000000.0  # type: ignore
    config = Config()
    for k, v in cfg.items():
        setattr(config, k, v)
    config._log = RecLogger(rec)  # type: ignore
    return config


class ClientIO:
    """What the client script sees.  Implemented by both runners."""
    out: bytearray                     # everything the server wrote so far
    taken: int = 0
    closed_at: Optional[int] = None    # virtual ms when the server closed the transport
    close_begin_at: Optional[int] = None   # … when the server began to close it (first write_eof / send_eof / close / aclose call)
    eof_at: Optional[int] = None       # … when the server half-closed (write_eof)

    def take(self) -> bytes:
        data = bytes(self.out[self.taken:])
        self.taken = len(self.out)
        return data

    async def send(self, data: bytes) -> None: ...
    async def sleep(self, seconds: float) -> None: ...
    async def settle(self) -> None: ...
    async def eof(self) -> None: ...
    async def send_eof(self, data: bytes) -> None: ...
    async def reset(self) -> None: ...
    def fail_writes(self) -> None: ...
    def pause_writes(self) -> None: ...
    async def resume_writes(self) -> None: ...


# --------------------------------------------------------------------------------------------------------------
# asyncio
# --------------------------------------------------------------------------------------------------------------
class VLoop(asyncio.SelectorEventLoop):
    """Virtual-time loop: when nothing is ready, jump the clock to the next timer."""

    def __init__(self) -> None:
        super().__init__(selectors.DefaultSelector())
        self._vt = 0.0
        self.turns = 0

    def time(self) -> float:
        return self._vt

    def _run_once(self) -> None:
        self.turns += 1
        while self._scheduled and self._scheduled[0]._cancelled:
            h = heapq.heappop(self._scheduled)
            h._scheduled = False
            if self._timer_cancelled_count > 0:
                self._timer_cancelled_count -= 1
        if not self._ready and self._scheduled:
            when = self._scheduled[0]._when
            if when > self._vt:
                self._vt = when
        # the base loop runs the timers due before `time() + _clock_resolution`: far into virtual time (weeks) a nanosecond is
        # below the spacing of floats, the sum would round back to `time()` and a timer that is due would never run
        self._clock_resolution = max(1e-9, self._vt * 2.0 ** -50)
        super()._run_once()


class _AReader:
    def __init__(self, rec: Rec) -> None:
        self.q: asyncio.Queue = asyncio.Queue()
        self.eof = False
        self.rec = rec

    async def read(self, n: int) -> bytes:
        # like asyncio.StreamReader.read(n): at most n bytes of what has arrived; the rest stays buffered for the next read
        pend = getattr(self, "_pend", b"")
        if pend:
            item, self._pend = pend[:n], pend[n:]
            self.rec.label("srvRead", len(item))
            return item
        if self.eof and self.q.empty():
            # like asyncio.StreamReader: at end of stream read() returns b"" at once
            self.rec.label("srvRead", 0)
            return b""
        item = await self.q.get()
        if isinstance(item, BaseException):
            self.rec.label("srvRead", "reset")
            raise item
        if n is not None and 0 <= n < len(item):
            item, self._pend = item[:n], item[n:]
        self.rec.label("srvRead", len(item))
        return item

    def at_eof(self) -> bool:
        return self.eof and self.q.empty() and not getattr(self, "_pend", b"")


class _AWriter:
    def __init__(self, io: "AsyncioIO", http2: bool) -> None:
        self.io = io
        self.http2 = http2
        self.is_closed = False

    def get_extra_info(self, name: str):
        if name == "socket":
            return MockSocket()
        if name == "ssl_object" and self.http2:
            class S:
                def selected_alpn_protocol(s):
                    return "h2"
            return S()
        return None

    def write_eof(self) -> None:
        # (asyncio raises nothing when a drain() is pending: the flag is set and the FIN follows the buffered data)
        if self.io.close_begin_at is None:
            self.io.close_begin_at = self.io.rec.t()
            self.io.rec.label("srvCloseBegin")
        self.eof_written = True
        if self.io.eof_at is None:
            self.io.eof_at = self.io.rec.t()
            self.io.rec.label("srvWriteEof")

    def write(self, data: bytes) -> None:
        if getattr(self, "eof_written", False):
            # what a real asyncio transport does: RuntimeError('Cannot call write() after write_eof()')
            self.io.rec.label("srvWriteFail", len(data))
            raise RuntimeError("Cannot call write() after write_eof()")
        if self.is_closed or self.io._fail:
            self.io.rec.label("srvWriteFail", len(data))
            raise ConnectionResetError()
        self.io.out += data
        self.io.writes.append([self.io.rec.t(), len(data)])
        self.io.rec.label("srvWrite", len(data))

    async def drain(self) -> None:
        # a transport that is closing keeps what it has buffered until the peer has read it: `close()` does not release a
        # task waiting here (only the peer reading again or the loss of the connection does)
        if self.io._paused and not self.io._fail:
            self.io.rec.label("srvWriteBlocked")
            while self.io._paused and not self.io._fail:
                self.io._resume = asyncio.Event()
                await self.io._resume.wait()
            self.io.rec.label("srvWriteUnblocked")
        if self.io._fail:
            raise ConnectionResetError()

    def close(self) -> None:
        if self.io.close_begin_at is None:
            self.io.close_begin_at = self.io.rec.t()
            self.io.rec.label("srvCloseBegin")
        if not self.is_closed:
            self.is_closed = True
            self.io.closed_at = self.io.rec.t()
            self.io.rec.label("srvClose")
            # a closed transport wakes the reader with EOF
            if not self.io.reader.eof:
                self.io.reader.eof = True
                self.io.reader.q.put_nowait(b"")

    async def wait_closed(self) -> None:
        pass


class AsyncioIO(ClientIO):
    def __init__(self, rec: Rec, loop: VLoop, http2: bool) -> None:
        self.rec, self.loop = rec, loop
        self.out = bytearray()
        self.writes: List[list] = []
        self.reader = _AReader(rec)
        self.writer = _AWriter(self, http2)
        self._fail = False
        self._paused = False
        self._resume: Optional[asyncio.Event] = None

    async def send(self, data: bytes) -> None:
        if data and not self.reader.eof:
            self.reader.q.put_nowait(bytes(data))
        await self.settle()

    async def sleep(self, seconds: float) -> None:
        await asyncio.sleep(seconds)
        await self.settle()

    async def settle(self) -> None:
        quiet = 0
        for _ in range(400):
            await asyncio.sleep(0)
            if len(self.loop._ready) == 0:
                quiet += 1
                if quiet >= 3:
                    return
            else:
                quiet = 0

    async def eof(self) -> None:
        if not self.reader.eof:
            self.reader.eof = True
            self.reader.q.put_nowait(b"")
        await self.settle()

    async def send_eof(self, data: bytes) -> None:
        """the last bytes and the end of the stream arrive together (data and FIN in one segment): what
        `StreamReader.feed_data(data); feed_eof()` before the server's next read gives - `at_eof()` is true as soon as
        the data has been read"""
        if not self.reader.eof:
            if data:
                self.reader.q.put_nowait(bytes(data))
            self.reader.eof = True
            if not data:
                self.reader.q.put_nowait(b"")
        await self.settle()

    async def reset(self) -> None:
        if not self.reader.eof:
            self.reader.eof = True
            self.reader.q.put_nowait(ConnectionResetError())
        self._fail = True
        if self._resume is not None:
            self._resume.set()          # connection_lost wakes a writer that was waiting for the transport to resume
        await self.settle()

    def fail_writes(self) -> None:
        self._fail = True
        if self._resume is not None:
            self._resume.set()

    def pause_writes(self) -> None:
        self._paused = True

    async def resume_writes(self) -> None:
        self._paused = False
        if self._resume is not None:
            self._resume.set()
        await self.settle()


def run_asyncio(cfg: dict, alpn: Optional[str], client: Callable[[ClientIO], Awaitable[None]], scripts: List[list],
                tail: float = 120.0, terminate_at: Optional[float] = None,
                wrap: Optional[Callable[[Rec, str], Any]] = None,
                preload: Optional[Callable[[ClientIO], Awaitable[None]]] = None) -> dict:
    # `wrap(rec, worker)` builds the application wrapper served instead of ASGIWrapper(make_app(scripts)) — e.g. a WSGIWrapper
    # `preload(io)`: what the client has already sent when the server accepts the connection (it sits in the socket buffer
    # before `TCPServer.run()` starts: the server's first read returns it without waiting)
    from hypercorn.app_wrappers import ASGIWrapper
    from hypercorn.asyncio.tcp_server import TCPServer
    from hypercorn.asyncio.worker_context import WorkerContext
    rec = Rec()
    loop = VLoop()
    res: Dict[str, Any] = {}
    loop_errors: List[str] = []
    loop.set_exception_handler(lambda l, c: loop_errors.append(repr(c.get("exception") or c.get("message"))))

    async def main():
        rec.now, rec.t0 = loop.time, loop.time()
        config = mkconfig(cfg, rec)
        io = AsyncioIO(rec, loop, alpn == "h2")
        ctx = WorkerContext(None)
        served = wrap(rec, "asyncio") if wrap is not None else ASGIWrapper(make_app(scripts, rec, asyncio.sleep))
        res["worker_state"] = {"boot": "L"}
        if preload is not None:
            await preload(io)
        srv = TCPServer(served, loop, config, ctx, res["worker_state"], io.reader, io.writer)
        task = loop.create_task(srv.run())
        done_at: List[int] = []
        task.add_done_callback(lambda t: (done_at.append(rec.t()), rec.label("handlerDone")))
        if terminate_at is not None:
            loop.call_later(terminate_at, lambda: loop.create_task(ctx.terminated.set()))
        await io.settle()
        try:
            res["client_result"] = await client(io)
        except Exception as e:
            res["client_error"] = repr(e)
        await io.settle()
        await asyncio.sleep(tail)
        await io.settle()
        err = None
        if task.done():
            if task.cancelled():
                err = ["CancelledError"]
            else:
                e = task.exception()
                err = None if e is None else sorted(type(x).__name__ for x in getattr(e, "exceptions", [e]))
        live = [t for t in asyncio.all_tasks(loop) if t is not asyncio.current_task() and not t.done()]
        res.update({"handler_done": done_at[:1], "error": err, "live_tasks": len(live), "io": io})
        if _EARLY[0] is not None:
            _EARLY[0](_finish(dict(res), rec, loop_errors, loop.turns))
        # best-effort cleanup; a handler that cannot be cancelled must not hang the harness (the caller runs us in a child)
        for t in live:
            t.cancel()
        if live:
            await asyncio.wait(live, timeout=5)

    try:
        asyncio.set_event_loop(loop)
        loop.run_until_complete(main())
    finally:
        try:
            loop.run_until_complete(loop.shutdown_asyncgens())
        finally:
            asyncio.set_event_loop(None)
            loop.close()
    return _finish(res, rec, loop_errors, loop.turns)


_EARLY: List[Optional[Callable[[dict], None]]] = [None]


def _finish(res: dict, rec: Rec, loop_errors: List[str], turns: int) -> dict:
    io = res.pop("io")
    return {"out": bytes(io.out), "writes": io.writes, "closed_at": io.closed_at, "eof_at": io.eof_at, "close_begin_at": io.close_begin_at,
            "labels": rec.labels, "apps": rec.apps,
            "access": rec.access, "exceptions": rec.exceptions, "handler_done": res.get("handler_done"), "error": res.get("error"),
            "live_tasks": res.get("live_tasks"), "loop_errors": loop_errors, "turns": turns, "client_error": res.get("client_error"),
            "client_result": res.get("client_result"),
            "worker_state_after": sorted([str(k), str(v)] for k, v in (res.get("worker_state") or {}).items())}


# --------------------------------------------------------------------------------------------------------------
# trio
# --------------------------------------------------------------------------------------------------------------
def run_trio(cfg: dict, alpn: Optional[str], client: Callable[[ClientIO], Awaitable[None]], scripts: List[list],
             tail: float = 120.0, terminate_at: Optional[float] = None,
             wrap: Optional[Callable[[Rec, str], Any]] = None,
             preload: Optional[Callable[[ClientIO], Awaitable[None]]] = None) -> dict:
    # `wrap(rec, worker)` builds the application wrapper served instead of ASGIWrapper(make_app(scripts)) — e.g. a WSGIWrapper
    # `preload(io)`: what the client has already sent when the server accepts the connection (see run_asyncio)
    import trio
    import trio.testing
    from hypercorn.app_wrappers import ASGIWrapper
    from hypercorn.trio.tcp_server import TCPServer
    from hypercorn.trio.worker_context import WorkerContext
    rec = Rec()
    res: Dict[str, Any] = {}

    class TrioIO(ClientIO):
        def _put(self, item: Any) -> None:
            """hand something to the server's next read; bytes sent to a transport the server has already closed are lost
            (as on asyncio, where they sit unread in a queue)"""
            try:
                self.send_ch.send_nowait(item)
            except (trio.BrokenResourceError, trio.ClosedResourceError):
                rec.label("clientSendLost")

        def __init__(self) -> None:
            self.out = bytearray()
            self.writes: List[list] = []
            self.send_ch, self.recv_ch = trio.open_memory_channel(10000)
            self.eof_sent = False
            self._fail = False
            self._paused = False
            self._resume = trio.Event()
            self.rec = rec

        # ---- client side ----
        async def send(self, data: bytes) -> None:
            if data and not self.eof_sent:
                self._put(bytes(data))
            await self.settle()

        async def sleep(self, seconds: float) -> None:
            await trio.sleep(seconds)
            await self.settle()

        async def settle(self) -> None:
            await trio.testing.wait_all_tasks_blocked()

        async def eof(self) -> None:
            if not self.eof_sent:
                self.eof_sent = True
                self._put(b"")
            await self.settle()

        async def send_eof(self, data: bytes) -> None:
            if not self.eof_sent:
                if data:
                    self._put(bytes(data))
                self.eof_sent = True
                self._put(b"")
            await self.settle()

        async def reset(self) -> None:
            if not self.eof_sent:
                self.eof_sent = True
                self._put(trio.BrokenResourceError())
            self._fail = True
            self._resume.set()          # a broken stream wakes a writer blocked by back-pressure
            self._resume = trio.Event()
            await self.settle()

        def fail_writes(self) -> None:
            self._fail = True
            self._resume.set()
            self._resume = trio.Event()

        def pause_writes(self) -> None:
            self._paused = True

        async def resume_writes(self) -> None:
            self._paused = False
            self._resume.set()
            self._resume = trio.Event()
            await self.settle()

    io = TrioIO()

    class Stream:
        """harness-owned trio stream (the `SocketStream` the server would get)"""
        socket = MockSocket()

        def __init__(self) -> None:
            self.closed = False
            self._sender: Any = None          # the task inside send_all (trio.SocketStream's send conflict detector)

        async def send_all(self, data: bytes) -> None:
            # like trio.SocketStream: a second task entering send_all / send_eof while one is inside send_all gets
            # BusyResourceError at once; the detector is held over every checkpoint of the call, also while the peer does
            # not read; closing the stream wakes the blocked sender with ClosedResourceError
            if self._sender is not None:
                rec.label("srvWriteBusy", len(data))
                raise trio.BusyResourceError("another task is currently sending data on this SocketStream")
            self._sender = trio.lowlevel.current_task()
            try:
                await trio.lowlevel.checkpoint()
                if self.closed:
                    rec.label("srvWriteFail", len(data))
                    raise trio.ClosedResourceError()
                if io._fail:
                    rec.label("srvWriteFail", len(data))
                    raise trio.BrokenResourceError()
                io.out += data
                io.writes.append([rec.t(), len(data)])
                rec.label("srvWrite", len(data))
                if io._paused and not io._fail and not self.closed:
                    rec.label("srvWriteBlocked")
                    while io._paused and not io._fail and not self.closed:
                        await io._resume.wait()
                    rec.label("srvWriteUnblocked")
                if io._fail:
                    rec.label("srvWriteFail", 0)
                    raise trio.BrokenResourceError()
                if self.closed:
                    rec.label("srvWriteFail", 0)
                    raise trio.ClosedResourceError()
            finally:
                self._sender = None

        async def receive_some(self, n: int) -> bytes:
            if self.closed:
                rec.label("srvReadClosed")        # the reader finds the stream the server has closed itself
                raise trio.ClosedResourceError()
            # like a socket stream's receive_some(max_bytes): at most n bytes of what has arrived, the rest stays for the next call
            pend = getattr(self, "_pend", b"")
            if pend:
                item, self._pend = pend[:n], pend[n:]
                rec.label("srvRead", len(item))
                return item
            try:
                item = await io.recv_ch.receive()
            except (trio.ClosedResourceError, trio.EndOfChannel):
                rec.label("srvReadClosed")
                raise trio.ClosedResourceError()
            if isinstance(item, BaseException):
                rec.label("srvRead", "reset")
                raise item
            if n is not None and 0 <= n < len(item):
                item, self._pend = item[:n], item[n:]
            rec.label("srvRead", len(item))
            return item

        async def send_eof(self) -> None:
            if io.close_begin_at is None:
                io.close_begin_at = rec.t()
                rec.label("srvCloseBegin")
            if self._sender is not None:
                rec.label("srvEofBusy")
                raise trio.BusyResourceError("another task is currently sending data on this SocketStream")
            await trio.lowlevel.checkpoint()
            if self.closed:
                raise trio.ClosedResourceError()
            if io.eof_at is None:
                io.eof_at = rec.t()
                rec.label("srvWriteEof")

        async def aclose(self) -> None:
            if io.close_begin_at is None:
                io.close_begin_at = rec.t()
                rec.label("srvCloseBegin")
            if not self.closed:
                self.closed = True
                io.closed_at = rec.t()
                rec.label("srvClose")
                # wake a reader blocked in receive_some, like closing a socket does
                io.recv_ch.close()
                # … and a sender blocked in send_all by a peer that does not read
                io._resume.set()
                io._resume = trio.Event()
            await trio.lowlevel.checkpoint()

    class SSLStream(Stream):
        """looks like trio.SSLStream to TCPServer.run: ALPN h2"""

        def __init__(self) -> None:
            super().__init__()
            self.transport_stream = self

        async def do_handshake(self) -> None:
            pass

        def selected_alpn_protocol(self) -> str:
            return "h2"

    async def main():
        rec.now, rec.t0 = trio.current_time, trio.current_time()
        config = mkconfig(cfg, rec)
        stream = SSLStream() if alpn == "h2" else Stream()
        ctx = WorkerContext(None)
        served = wrap(rec, "trio") if wrap is not None else ASGIWrapper(make_app(scripts, rec, trio.sleep))
        res["worker_state"] = {"boot": "L"}
        if preload is not None:
            await preload(io)
        srv = TCPServer(served, config, ctx, res["worker_state"], stream)
        done_at: List[int] = []
        err: List[Any] = []

        async def runner():
            try:
                await srv.run()
            except BaseException as e:
                if isinstance(e, trio.Cancelled):
                    raise
                names = sorted(type(x).__name__ for x in getattr(e, "exceptions", [e]))
                if names != ["Cancelled"]:
                    err.append(names)
            finally:
                done_at.append(rec.t())
                rec.label("handlerDone")

        async def terminator():
            await trio.sleep(terminate_at)
            await ctx.terminated.set()

        async with trio.open_nursery() as n:
            n.start_soon(runner)
            if terminate_at is not None:
                n.start_soon(terminator)
            await io.settle()
            try:
                res["client_result"] = await client(io)
            except Exception as e:
                res["client_error"] = repr(e)
            await io.settle()
            await trio.sleep(tail)
            await io.settle()
            res["live_tasks"] = 0 if done_at else 1
            res.update({"handler_done": done_at[:1], "error": err[0] if err else None, "io": io})
            if _EARLY[0] is not None:
                _EARLY[0](_finish(dict(res), rec, [], 0))
            n.cancel_scope.cancel()

    trio.run(main, clock=trio.testing.MockClock(autojump_threshold=0))
    return _finish(res, rec, [], 0)


_PRELOADED = [False]


def _preload() -> None:
    """import everything a session needs in the parent, so that the forked children do not pay for it"""
    if _PRELOADED[0]:
        return
    _PRELOADED[0] = True
    import trio  # noqa
    import trio.testing  # noqa
    import h2.connection  # noqa
    import wsproto  # noqa
    import hypercorn.app_wrappers  # noqa
    import hypercorn.asyncio.tcp_server  # noqa
    import hypercorn.asyncio.worker_context  # noqa
    import hypercorn.trio.tcp_server  # noqa
    import hypercorn.trio.worker_context  # noqa
    import hypercorn.config  # noqa


def _isolated(fn: Callable[..., dict], timeout: float = 60.0) -> Callable[..., dict]:
    """Run one session in a forked child.  The child reports its observation *before* it tears the server down, so a
    handler that cannot be cancelled (a real deadlock in the code under test) never hangs the harness; the child is
    killed if it does not exit.  `stuck_teardown` records that this happened."""
    import os
    import pickle
    import select
    import signal
    import time as _time

    def run(*a, **k) -> dict:
        if os.environ.get("VERIF_NOFORK"):
            return fn(*a, **k)
        _preload()
        r, w = os.pipe()
        pid = os.fork()
        if pid == 0:
            code = 0
            try:
                os.close(r)
                sent = [False]

                def early(result: dict) -> None:
                    if not sent[0]:
                        sent[0] = True
                        if os.environ.get("VERIF_COVERAGE"):
                            # tools/coverage_map.py only: the parent kills this process as soon as it has the observation,
                            # so the line-coverage data collected here is written out first
                            try:
                                import coverage
                                c = coverage.Coverage.current()
                                if c is not None:
                                    c.stop()
                                    c.save()
                            except Exception:
                                pass
                        with os.fdopen(w, "wb", closefd=False) as f:
                            pickle.dump(result, f)
                        os.close(w)

                _EARLY[0] = early
                out = fn(*a, **k)
                early(out)
            except BaseException as e:  # noqa
                try:
                    with os.fdopen(w, "wb", closefd=False) as f:
                        pickle.dump({"harness_exception": repr(e)}, f)
                except Exception:
                    pass
                code = 3
            finally:
                os._exit(code)
        os.close(w)
        data = b""
        deadline = _time.time() + timeout
        while True:
            left = deadline - _time.time()
            if left <= 0:
                break
            ready, _, _ = select.select([r], [], [], left)
            if not ready:
                break
            chunk = os.read(r, 1 << 20)
            if not chunk:
                break
            data += chunk
        os.close(r)
        # the observation is complete: the child's own teardown is of no interest (and may hang on a real deadlock)
        stuck = False
        try:
            os.kill(pid, signal.SIGKILL)
        except ProcessLookupError:
            pass
        os.waitpid(pid, 0)
        if not data:
            return {"out": b"", "writes": [], "closed_at": None, "eof_at": None, "labels": [], "apps": [], "access": [], "exceptions": [],
                    "handler_done": [], "error": None, "live_tasks": None, "loop_errors": [], "turns": 0, "client_error": None,
                    "stuck_session": True, "stuck_teardown": True}
        res = pickle.loads(data)
        if "harness_exception" in res:
            raise RuntimeError("runner child failed: " + res["harness_exception"])
        res["stuck_teardown"] = stuck
        res["stuck_session"] = False
        return res

    return run


RUNNERS = {"asyncio": _isolated(run_asyncio), "trio": _isolated(run_trio)}
