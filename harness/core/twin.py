"""Twin runs (C16): one *declarative* session — client byte stream with its timing, application scripts, configuration —
executed through the real `TCPServer` of BOTH worker classes under virtual time, and the two observations normalised to what
the property speaks about: the message sequences the applications received, the protocol events the client saw (parsed by
the independent client parsers; the `date` header masked) and whether / when the server closed.

session = {
  "alpn": null | "h2",                 # "h2" = prior-knowledge HTTP/2 (driven through C.H2Client), null = HTTP/1.x bytes
  "cfg": {config overrides}, "terminate_at": null | seconds,
  "apps": [script, ...]                # harness.core.runner.make_app step lists; instance i runs apps[i % len]
  "client": [step, ...]
}
client steps (all JSON):
  ["send", latin1]  ["send_eof", latin1] (last bytes and FIN together)  ["sleep", s]  ["settle"]  ["eof"]  ["reset"]  ["pause"]  ["resume"]  ["fail_writes"]
  ["h2.req", label, [[n, v], ...], body | null, end]     ["h2.data", label, latin1, end]     ["h2.rst", label]
  ["h2.win", label | 0, n]     ["h2.settings", {code: value}]     ["h2.prio", label, depends_label | 0, weight, exclusive]
  ["h2.pump"]     ["h2.ack"]    (acknowledge everything received so far when the client was created with auto_window false)
"""
from __future__ import annotations

import re
from typing import Any, Dict, List, Optional

from . import clients as C
from . import runner as R
from .framework import b2s, s2b

DATE_RE = re.compile(rb"(?im)^date: [^\r\n]*\r\n")


def _client(sess: dict):
    async def client(io):
        h2c: Optional[C.H2Client] = None
        sids: Dict[Any, int] = {}
        if sess.get("alpn") == "h2":
            h2c = C.H2Client(**(sess.get("h2opts") or {}))
        notes: List[str] = []
        deaf = [False]          # the client can no longer receive (its side of the transport is broken): its view is frozen

        def take() -> bytes:
            data = io.take()
            return b"" if deaf[0] else data

        for st in sess["client"]:
            op = st[0]
            if io.closed_at is not None and op in ("send", "eof", "send_eof", "reset", "resume"):
                notes.append(f"skipped {op}: server already closed")
                continue
            try:
                if op == "send":
                    await io.send(s2b(st[1]))
                elif op == "sleep":
                    await io.sleep(st[1])
                elif op == "settle":
                    await io.settle()
                elif op == "eof":
                    await io.eof()
                elif op == "send_eof":
                    await io.send_eof(s2b(st[1]))
                elif op == "reset":
                    TAPLOG.append(["peerGone"])
                    if h2c is not None:
                        h2c.receive(take())
                    notes.append(f"peer gone after {len(io.out)} bytes")
                    deaf[0] = True
                    await io.reset()
                elif op == "pause":
                    io.pause_writes()
                elif op == "resume":
                    await io.resume_writes()
                elif op == "fail_writes":
                    TAPLOG.append(["peerGone"])
                    if h2c is not None:
                        h2c.receive(take())
                    notes.append(f"peer gone after {len(io.out)} bytes")
                    deaf[0] = True
                    io.fail_writes()
                elif op == "h2.req":
                    hs = [(s2b(n), s2b(v)) for n, v in st[2]]
                    sids[st[1]] = h2c.request(hs, None if st[3] is None else s2b(st[3]), st[4])
                elif op == "h2.data":
                    h2c.send_data(sids[st[1]], s2b(st[2]), st[3])
                elif op == "h2.rst":
                    h2c.conn.reset_stream(sids[st[1]])
                elif op == "h2.win":
                    h2c.conn.increment_flow_control_window(st[2], sids[st[1]] if st[1] else None)
                elif op == "h2.settings":
                    h2c.conn.update_settings({int(k): v for k, v in st[1].items()})
                elif op == "h2.prio":
                    h2c.conn.prioritize(sids.get(st[1], st[1] if isinstance(st[1], int) else 0), weight=st[3],
                                        depends_on=(sids.get(st[2], 0) if st[2] else 0), exclusive=bool(st[4]))
                elif op == "h2.ack":
                    for s_id, n in list(h2c.unacked.items()):
                        if n:
                            try:
                                h2c.conn.acknowledge_received_data(n, s_id)
                            except Exception:
                                pass
                    h2c.unacked.clear()
                elif op == "h2.pump":
                    if io.closed_at is None and not deaf[0]:
                        await h2c.pump(io)
                    elif io.closed_at is None:
                        out = h2c.out()
                        if out:
                            await io.send(out)
                    else:
                        h2c.receive(take())
                else:
                    raise ValueError(f"unknown client step {op}")
            except Exception as e:  # a client-side library refusing a step (e.g. stream already closed) is part of the session
                notes.append(f"{op}: {type(e).__name__}")
        if h2c is not None:
            if io.closed_at is None and not deaf[0]:
                await h2c.pump(io)
            await io.sleep(sess.get("linger", 3.0))
            if io.closed_at is None and not deaf[0]:
                await h2c.pump(io)
            else:
                h2c.receive(take())
            return {"h2": h2c.summary(), "h2events": h2c.events, "notes": notes, "deaf_after": len(io.out) if False else None}
        await io.sleep(sess.get("linger", 3.0))
        return {"notes": notes}
    return client


def run_session(worker: str, sess: dict) -> dict:
    del TAPLOG[:]
    res = R.RUNNERS[worker](dict(sess.get("cfg") or {}), sess.get("alpn"), _client(sess), sess["apps"], tail=sess.get("tail", 12),
                            terminate_at=sess.get("terminate_at"))
    return res


def mask_date(h: List[List[str]]) -> List[List[str]]:
    return [[n, v] for n, v in h if n.lower() != "date"]


def observation(sess: dict, res: dict) -> dict:
    """the projection C16 compares (timestamps only where the property names them: the server's close)"""
    apps = []
    for a in res["apps"]:
        ex = "cancelled" if a["exit"] in ("CancelledError", "Cancelled") else a["exit"]     # the runtime's own name for a cancellation
        apps.append({"scope": a["scope"], "recv": [r[1:] for r in a["recv"]], "send": [s[1:] for s in a["send"]], "exit": ex,
                     "state_seen": a.get("state_seen")})
    ends = [t for t in (res["eof_at"], res["closed_at"]) if t is not None]
    # the client's view of "the server closed": the first instant at which the server's byte stream ended
    obs: Dict[str, Any] = {"apps": apps, "closed_at": res["closed_at"], "server_closed": res["closed_at"] is not None,
                           "stream_end_at": min(ends) if ends else None,
                           # the worker's own lifespan-state dict after the connection (each connection works on a copy)
                           "worker_state_after": res.get("worker_state_after")}
    cr = res.get("client_result") or {}
    if sess.get("alpn") == "h2":
        summ = cr.get("h2") or {"streams": {}, "goaway": None, "error": "client did not finish"}
        streams = {}
        for sid, st in summ["streams"].items():
            streams[sid] = {"headers": None if st["headers"] is None else mask_date(st["headers"]),
                            "informational": [mask_date(h) for h in st["informational"]], "data": st["data"], "ended": st["ended"],
                            "reset": st["reset"], "trailers": st["trailers"], "pushed": st["pushed"]}
        obs["client"] = {"streams": streams, "goaway": summ["goaway"], "error": summ["error"]}
    else:
        methods = sess.get("methods") or ["GET"] * 16
        out_bytes = res["out"]
        for n in cr.get("notes") or []:
            m = re.match(r"peer gone after (\d+) bytes", n)
            if m:
                out_bytes = out_bytes[:int(m.group(1))]      # what a client whose transport broke had received by then
                break
        p = C.parse_h1(out_bytes, methods, server_closed=res["closed_at"] is not None)
        rs = []
        for r in p["responses"]:
            rs.append({"status": r.get("status"), "headers": mask_date(r.get("headers") or []), "body": r.get("body", ""),
                       "complete": bool(r.get("complete")), "informational": bool(r.get("informational"))})
        obs["client"] = {"responses": rs, "error": p["error"], "trailing": p["trailing"],
                         "raw": b2s(DATE_RE.sub(b"date: *\r\n", out_bytes)) if sess.get("raw_compare", True) else None}
    obs["internal"] = {"error": res["error"], "loop_errors": res["loop_errors"], "client_error": res["client_error"],
                       "stuck": res.get("stuck_session", False)}
    obs["aux"] = {"access": [a[1:] for a in res["access"]], "handler_done": res["handler_done"], "exceptions": len(res["exceptions"]),
                  "notes": cr.get("notes"), "live_tasks": res.get("live_tasks")}
    return obs


COMPARED = ("apps", "client", "closed_at", "server_closed", "stream_end_at", "worker_state_after")


def diff(oa: dict, ot: dict) -> List[dict]:
    """where the two workers' observations differ (property-level fields only)"""
    out = []
    for k in COMPARED:
        if oa[k] != ot[k]:
            d: Dict[str, Any] = {"field": k}
            if k == "apps":
                if len(oa[k]) != len(ot[k]):
                    d["what"] = f"instances {len(oa[k])} vs {len(ot[k])}"
                else:
                    for i, (x, y) in enumerate(zip(oa[k], ot[k])):
                        for f in ("scope", "recv", "send", "exit"):
                            if x[f] != y[f]:
                                d.setdefault("what", f"instance {i} {f}")
                                d["asyncio"], d["trio"] = _short(x[f]), _short(y[f])
                                break
                        if "what" in d:
                            break
            elif k == "client":
                for f in sorted(set(oa[k]) | set(ot[k])):
                    if oa[k].get(f) != ot[k].get(f):
                        d["what"] = f
                        if f == "streams":
                            def summ(st):
                                return {sid: [None if x["headers"] is None else dict(x["headers"]).get(":status"), len(x["data"]), x["ended"], x["reset"]]
                                        for sid, x in (st or {}).items()}
                            d["asyncio"], d["trio"] = summ(oa[k].get(f)), summ(ot[k].get(f))
                            d["legend"] = "stream: [status, bytes of data, END_STREAM seen, reset code]"
                        else:
                            d["asyncio"], d["trio"] = _short(oa[k].get(f)), _short(ot[k].get(f))
                        break
            else:
                d["asyncio"], d["trio"] = oa[k], ot[k]
            out.append(d)
    return out


def _short(x: Any, n: int = 600) -> Any:
    s = repr(x)
    return x if len(s) <= n else s[:n] + "…"


# --------------------------------------------------------------------------------------------------------------
# taps at the shell boundary (trace acceptance for lean/HC/Conn/Shell.lean)
# --------------------------------------------------------------------------------------------------------------
TAPLOG: List[list] = []
_TAPPED = [False]


def install_taps() -> None:
    """Wrap, from outside, the methods through which a connection shell talks to the protocol and the transport.
    Installed once in the parent; every session runs in a forked child, so TAPLOG starts empty there and travels back
    inside the runner's result (`taps`)."""
    if _TAPPED[0]:
        return
    _TAPPED[0] = True
    import sys
    import hypercorn.asyncio.tcp_server as A
    import hypercorn.trio.tcp_server as Tr
    from hypercorn.events import Closed, RawData, Updated
    from hypercorn.protocol import ProtocolWrapper

    orig_handle = ProtocolWrapper.handle

    async def handle(self, event):
        caller = sys._getframe(1).f_code.co_name
        if isinstance(event, RawData):
            TAPLOG.append(["handle", "raw", len(event.data), caller])
        elif isinstance(event, Closed):
            TAPLOG.append(["handle", "closed", 0, caller])
        return await orig_handle(self, event)

    ProtocolWrapper.handle = handle  # type: ignore
    for mod in (A, Tr):
        cls = mod.TCPServer
        o_send, o_isc, o_close = cls.protocol_send, cls._initiate_server_close, cls._close

        def mk(o_send=o_send, o_isc=o_isc, o_close=o_close):
            async def protocol_send(self, event):
                if isinstance(event, RawData):
                    TAPLOG.append(["send", "raw", len(event.data)])
                elif isinstance(event, Closed):
                    TAPLOG.append(["send", "closed"])
                elif isinstance(event, Updated):
                    TAPLOG.append(["send", "updated", bool(event.idle)])
                return await o_send(self, event)

            async def _initiate_server_close(self):
                TAPLOG.append(["timer"])
                return await o_isc(self)

            async def _close(self):
                TAPLOG.append(["close", sys._getframe(1).f_code.co_name])
                return await o_close(self)
            return protocol_send, _initiate_server_close, _close
        cls.protocol_send, cls._initiate_server_close, cls._close = mk()  # type: ignore
    orig_finish = R._finish

    def _finish(res, rec, loop_errors, turns):
        out = orig_finish(res, rec, loop_errors, turns)
        out["taps"] = [list(t) for t in TAPLOG]
        return out
    R._finish = _finish  # type: ignore


def shell_ops(sess: dict, res: dict, worker: str) -> Optional[Dict[str, Any]]:
    """boundary ops of one run (inputs of the shell model) + what the real shell did (to compare with its outputs)"""
    taps = res.get("taps")
    if taps is None:
        return None
    together = any(st[0] == "send_eof" for st in sess.get("client", []))
    ops: List[list] = []
    handled: List[list] = []
    closed = broken = False
    expect_ps = 0          # `handle(Closed)` calls out of protocol_send that the ops so far explain
    for t in taps:
        if t[0] == "handle":
            handled.append([t[1], t[2]])
            if t[3] == "_read_data":
                if t[1] == "raw" and t[2] > 0:
                    ops.append(["read", t[2]])
                elif t[1] == "raw":
                    ops.append(["readEmpty", together, True])
                else:
                    if not (ops and ops[-1][0] == "readEmpty") and closed:
                        pass        # the read raised (trio after the server's own close): nothing was passed on
                    ops.append(["readEnd"])
            elif t[3] == "protocol_send" and t[1] == "closed":
                if expect_ps > 0:
                    expect_ps -= 1
                else:
                    ops.append(["drainFail"])
        elif t[0] == "send":
            if t[1] == "raw":
                ops.append(["pRaw", t[2]])
                if closed or broken:
                    expect_ps += 1
            elif t[1] == "closed":
                ops.append(["pClosed"])
                closed = True
                if worker == "trio":
                    expect_ps += 1
            else:
                ops.append(["pUpdated", t[2]])
        elif t[0] == "timer":
            ops.append(["timerFire"])
            closed = True
        elif t[0] == "close" and t[1] == "run":
            ops.append(["groupDone"])
            closed = True
        elif t[0] == "peerGone":
            ops.append(["peerGone"])
            broken = True
    return {"ops": ops, "handled": handled, "written": [w[1] for w in res["writes"]], "closed": res["closed_at"] is not None}
