"""Direct drive of the real HTTPStream / WSStream objects (the way tests/protocol/* do, but recording everything),
plus the JSON codecs shared with lean/Driver/Streams.lean."""
from __future__ import annotations

import asyncio
from typing import Any, Dict, List, Optional, Tuple

from .framework import b2s


def hv(x: Any) -> Any:
    if x is None:
        return None
    if isinstance(x, (bytes, bytearray)):
        return {"b": b2s(bytes(x))}
    if isinstance(x, str):
        return {"s": x}
    if isinstance(x, bool):
        return {"i": int(x)}
    if isinstance(x, int):
        return {"i": x}
    raise TypeError(f"no HV for {x!r}")


def hv_pairs(hs) -> list:
    return [[hv(n), hv(v)] for n, v in hs]


def headers_json(hs) -> list:
    return [[b2s(bytes(n)), b2s(bytes(v))] for n, v in hs]


# ------------------------------------------------------------------------------------------------------------
# message dict → model JSON
# ------------------------------------------------------------------------------------------------------------
def http_msg_json(m: Optional[dict]) -> Any:
    if m is None:
        return None
    t = m.get("type")
    if t == "http.response.start":
        j: Dict[str, Any] = {"t": "start", "trailers": bool(m.get("trailers", False))}
        if "status" in m:
            j["status"] = m["status"]
        if "headers" in m:
            j["headers"] = hv_pairs(m["headers"])
        return j
    if t == "http.response.body":
        j = {"t": "body", "more": bool(m.get("more_body", False))}
        if "body" in m:
            j["body"] = hv(m["body"])
        return j
    if t == "http.response.trailers":
        j = {"t": "trailers", "more": bool(m.get("more_trailers", False))}
        if "headers" in m:
            j["headers"] = hv_pairs(m["headers"])
        return j
    if t == "http.response.push":
        j = {"t": "push"}
        if "path" in m:
            j["path"] = hv(m["path"])
        if "headers" in m:
            j["headers"] = hv_pairs(m["headers"])
        return j
    if t == "http.response.early_hint":
        j = {"t": "early_hint"}
        if "links" in m:
            j["links"] = [hv(x) for x in m["links"]]
        return j
    return {"t": "other"}


def ws_msg_json(m: Optional[dict]) -> Any:
    if m is None:
        return None
    t = m.get("type")
    if t == "websocket.accept":
        j: Dict[str, Any] = {"t": "accept"}
        if m.get("subprotocol") is not None:
            j["subprotocol"] = b2s(m["subprotocol"].encode())
        if "headers" in m:
            j["headers"] = headers_json(m["headers"])
        return j
    if t == "websocket.http.response.start":
        j = {"t": "resp_start"}
        if "status" in m:
            j["status"] = m["status"]
        if "headers" in m:
            j["headers"] = hv_pairs(m["headers"])
        return j
    if t == "websocket.http.response.body":
        j = {"t": "resp_body", "more": bool(m.get("more_body", False))}
        if "body" in m:
            j["body"] = hv(m["body"])
        return j
    if t == "websocket.send":
        j = {"t": "send"}
        if m.get("bytes") is not None:
            j["bytes"] = hv(m["bytes"])
        if "text" in m:
            j["text"] = hv(m["text"])
        return j
    if t == "websocket.close":
        j = {"t": "close"}
        if "code" in m:
            # `int()` is the language's own conversion: its value, or the class it raises, is an input of the model
            try:
                j["code"] = {"i": int(m["code"])}
            except (ValueError, TypeError) as e:
                j["code"] = {"err": type(e).__name__}
        if m.get("reason") is not None:
            j["reason"] = hv(m["reason"])
        return j
    return {"t": "other"}


# ------------------------------------------------------------------------------------------------------------
# recording doubles
# ------------------------------------------------------------------------------------------------------------
class RecLog:
    def __init__(self, sink: list) -> None:
        self.sink = sink

    async def access(self, scope, response, request_time) -> None:
        self.sink.append(["access", None if response is None else int(response["status"])])

    async def exception(self, *a, **k) -> None:
        self.sink.append(["log.exception"])

    async def warning(self, *a, **k) -> None:
        pass

    info = error = debug = critical = warning


class FakeTaskGroup:
    def __init__(self, puts: list, sink: list) -> None:
        self.puts = puts
        self.sink = sink
        self.spawned_apps = 0

    async def spawn_app(self, app, config, scope, send):
        self.spawned_apps += 1
        self.scope = scope

        async def app_put(message):
            self.puts.append(message)

        return app_put

    def spawn(self, func, *args):
        self.sink.append(["spawnClose"] if any(type(a).__name__ == "StreamClosed" for a in args) else ["spawnPings"])


def _ev_json(ev, ws_sent: Optional[list] = None) -> list:
    from hypercorn.protocol import events as E
    if isinstance(ev, E.Response):
        return ["response", ev.status_code, headers_json(ev.headers)]
    if isinstance(ev, E.InformationalResponse):
        return ["info", ev.status_code, headers_json(ev.headers)]
    if isinstance(ev, E.Body):
        return ["body", b2s(ev.data)]
    if isinstance(ev, E.EndBody):
        return ["endBody"]
    if isinstance(ev, E.Trailers):
        return ["trailers", headers_json(ev.headers)]
    if isinstance(ev, E.Request):
        return ["push", ev.raw_path.decode("latin1"), headers_json(ev.headers)]
    if isinstance(ev, E.StreamClosed):
        return ["streamClosed"]
    if isinstance(ev, E.EndData):
        return ["endData"]
    if isinstance(ev, E.Data):
        out = ws_sent.pop(0) if ws_sent else ["?"]
        return ["data", out]
    return ["?", repr(ev)]


def _err_name(e: BaseException) -> str:
    n = type(e).__name__
    return n


def _put_json(m: dict) -> list:
    t = m["type"]
    if t == "http.request":
        return [t, b2s(m["body"]), m["more_body"]]
    if t == "websocket.receive":
        if m.get("text") is not None:
            return [t, {"text": m["text"]}]
        return [t, {"bytes": b2s(m["bytes"])}]
    if t == "websocket.disconnect":
        return [t, m["code"]]
    return [t]


# ------------------------------------------------------------------------------------------------------------
# HTTP stream
# ------------------------------------------------------------------------------------------------------------
async def drive_http(init: dict, ops: List[dict], cfg: Optional[dict] = None) -> List[dict]:
    """init: {method, version, scheme, headers:[(b,b)]}; ops: {"send": msg|None} | {"in": "body"|"endBody"|"streamClosed", "data": b}"""
    from hypercorn.config import Config
    from hypercorn.asyncio.worker_context import WorkerContext
    from hypercorn.protocol.events import Body, EndBody, Request, StreamClosed
    from hypercorn.protocol.http_stream import HTTPStream
    from hypercorn.typing import ConnectionState
    sink: list = []
    puts: list = []
    config = Config()
    for k, v in (cfg or {}).items():
        setattr(config, k, v)
    config._log = RecLog(sink)  # type: ignore
    tg = FakeTaskGroup(puts, sink)

    async def send(ev):
        sink.append(ev)

    stream = HTTPStream(object(), config, WorkerContext(None), tg, init.get("scheme", "http") == "https", None, None, send, 1)
    await stream.handle(Request(stream_id=1, headers=list(init["headers"]), http_version=init["version"], method=init["method"],
                                raw_path=init.get("raw_path", b"/"), state=ConnectionState({})))
    out = []
    sink.clear()
    for op in ops:
        err = None
        try:
            if "send" in op:
                await stream.app_send(op["send"])
            elif op["in"] == "body":
                await stream.handle(Body(stream_id=1, data=op["data"]))
            elif op["in"] == "endBody":
                await stream.handle(EndBody(stream_id=1))
            else:
                await stream.handle(StreamClosed(stream_id=1))
        except Exception as e:
            err = _err_name(e)
        evs = [(_ev_json(x) if not isinstance(x, list) else x) for x in sink]
        out.append({"events": evs, "error": err, "state": stream.state.name, "closed": stream.closed, "puts": [_put_json(p) for p in puts]})
        sink.clear()
        puts.clear()
    return out


def http_model_req(init: dict, ops: List[dict]) -> dict:
    jops = []
    for op in ops:
        if "send" in op:
            jops.append({"send": http_msg_json(op["send"])})
        elif op["in"] == "body":
            jops.append({"in": "body", "data": b2s(op["data"])})
        else:
            jops.append({"in": op["in"]})
    return {"cmd": "stream.http", "init": {"method": init["method"], "version": init["version"], "scheme": init.get("scheme", "http"),
                                           "headers": headers_json(init["headers"])}, "ops": jops}


def http_obs_for_compare(o: dict, is_send: bool) -> dict:
    d = {"events": o["events"], "error": o["error"], "state": o["state"], "closed": o["closed"]}
    if not is_send:
        d["puts"] = o["puts"]
    return d


# ------------------------------------------------------------------------------------------------------------
# WebSocket stream
# ------------------------------------------------------------------------------------------------------------
class WsTap:
    """Records, on the *library* classes, the events wsproto yields to the glue and the events the glue sends."""

    def __init__(self) -> None:
        self.yielded: list = []
        self.sent: list = []

    def install(self) -> None:
        import wsproto.connection as wc
        self._orig_events, self._orig_send = wc.Connection.events, wc.Connection.send
        tap = self

        def events(conn):
            for ev in tap._orig_events(conn):
                if conn.client is False:
                    tap.yielded.append(_wsproto_in(ev, conn))
                yield ev

        def send(conn, event):
            data = tap._orig_send(conn, event)
            if conn.client is False:
                tap.sent.append(_wsproto_out(event))
            return data

        wc.Connection.events, wc.Connection.send = events, send

    def remove(self) -> None:
        import wsproto.connection as wc
        wc.Connection.events, wc.Connection.send = self._orig_events, self._orig_send


def _payload(ev) -> dict:
    from wsproto.events import TextMessage
    return {"text": ev.data} if isinstance(ev, TextMessage) else {"bytes": b2s(bytes(ev.data))}


def _wsproto_in(ev, conn=None) -> list:
    from wsproto.connection import ConnectionState
    from wsproto.events import CloseConnection, Message, Ping, Pong
    if isinstance(ev, Message):
        return ["message", _payload(ev), bool(ev.message_finished)]
    if isinstance(ev, Ping):
        return ["ping", b2s(bytes(ev.payload))]
    if isinstance(ev, Pong):
        return ["pong", b2s(bytes(ev.payload))]
    if isinstance(ev, CloseConnection):
        # a real close frame moves the connection to REMOTE_CLOSING / CLOSED before the event is yielded; the event wsproto
        # makes up for a frame it cannot parse (`ParseFailed`) leaves the state where it was
        moved = conn is None or conn.state in (ConnectionState.REMOTE_CLOSING, ConnectionState.CLOSED)
        return ["close" if moved else "failed", int(ev.code)]
    return ["?", repr(ev)]


def _wsproto_out(ev) -> list:
    from wsproto.events import CloseConnection, Message, Ping, Pong
    if isinstance(ev, Message):
        return ["message", _payload(ev)]
    if isinstance(ev, Ping):
        return ["ping", b2s(bytes(ev.payload))]
    if isinstance(ev, Pong):
        return ["pong", b2s(bytes(ev.payload))]
    if isinstance(ev, CloseConnection):
        return ["close", int(ev.code)]
    return ["?", repr(ev)]


async def drive_ws(init: dict, ops: List[dict], cfg: Optional[dict] = None) -> Tuple[List[dict], dict]:
    """init: {version, headers}; ops: {"send": msg|None} | {"in": "data", "data": bytes} | {"in": "streamClosed"}.
    Returns per-step observations (step 0 = the Request event) and library facts (accept token, extension answer)."""
    from hypercorn.config import Config
    from hypercorn.asyncio.worker_context import WorkerContext
    from hypercorn.protocol.events import Data, EndData, Request, StreamClosed
    from hypercorn.protocol.ws_stream import WSStream
    from hypercorn.typing import ConnectionState
    from wsproto.utilities import generate_accept_token
    sink: list = []
    puts: list = []
    config = Config()
    for k, v in (cfg or {}).items():
        setattr(config, k, v)
    config._log = RecLog(sink)  # type: ignore
    tg = FakeTaskGroup(puts, sink)
    lost = {"armed": False, "fired": False}
    # an application send suspended in its `at`-th awaited protocol-level send (transport back-pressure, HTTP/2 flow control)
    # while the reader task handles `ins` on the stream: op {"send": msg, "during": [{"in": "data", "data": b} | {"in": "streamClosed"}], "at": p}
    during: Dict[str, Any] = {"at": None, "ins": [], "n": 0, "inside": False, "fired": False, "yielded": [], "error": None}

    async def send(ev):
        sink.append(ev)
        if during["at"] is not None and not during["inside"] and isinstance(ev, (Data, EndData)):     # the awaited sends of a connected stream
            n = during["n"]
            during["n"] += 1
            if n == during["at"]:
                during["inside"] = during["fired"] = True
                try:
                    for i in during["ins"]:
                        k0 = len(tap.yielded)
                        try:
                            await stream.handle(Data(stream_id=1, data=i["data"]) if i["in"] == "data" else StreamClosed(stream_id=1))
                        except Exception as e:      # (it is the reader task's exception, not the application's)
                            during["error"] = _err_name(e)
                        during["yielded"].append(list(tap.yielded[k0:]))
                finally:
                    during["inside"] = False
        if lost["armed"] and isinstance(ev, Data):
            # the write of this frame fails (the peer is gone): the protocols re-enter with Closed(), i.e. the stream is
            # handed StreamClosed *inside* the await of its own send
            lost["armed"] = False
            lost["fired"] = True
            await stream.handle(StreamClosed(stream_id=1))

    tap = WsTap()
    tap.install()
    out = []
    lib: Dict[str, Any] = {}
    try:
        stream = WSStream(object(), config, WorkerContext(None), tg, False, None, None, send, 1)

        def snap(err):
            evs = [(_ev_json(x, tap.sent) if not isinstance(x, list) else x) for x in sink]
            o = {"events": evs, "error": err, "state": stream.state.name, "closed": stream.closed, "puts": [_put_json(p) for p in puts]}
            sink.clear()
            puts.clear()
            tap.sent.clear()
            return o

        err = None
        try:
            await stream.handle(Request(stream_id=1, headers=list(init["headers"]), http_version=init["version"], method=init.get("method", "GET"),
                                        raw_path=init.get("raw_path", b"/"), state=ConnectionState({})))
        except Exception as e:
            err = _err_name(e)
        out.append(snap(err))
        key = next((v for n, v in init["headers"] if n.lower() == b"sec-websocket-key"), None)
        lib["token"] = b2s(generate_accept_token(key)) if key is not None else ""
        yielded_per_op = []
        during_yielded: Dict[int, list] = {}
        for op_index, op in enumerate(ops):
            err = None
            tap.yielded.clear()
            try:
                if "send" in op and "during" in op:
                    during.update({"at": int(op.get("at", 0)), "ins": list(op["during"]), "n": 0, "fired": False, "yielded": [], "error": None})
                    try:
                        await stream.app_send(op["send"])
                    finally:
                        during["at"] = None
                elif "send" in op:
                    await stream.app_send(op["send"])
                elif op["in"] == "data":
                    lost["armed"] = bool(op.get("echo_lost"))
                    await stream.handle(Data(stream_id=1, data=op["data"]))
                    lost["armed"] = False
                else:
                    await stream.handle(StreamClosed(stream_id=1))
            except Exception as e:
                err = _err_name(e)
            yielded_per_op.append(list(tap.yielded))
            o = snap(err)
            if "send" in op and "during" in op:
                o["during_fired"] = during["fired"]
                if during["error"]:
                    o["during_error"] = during["error"]
                during_yielded[op_index] = list(during["yielded"])
            out.append(o)
            # library fact: the negotiated extension header value, read off the rendered response
            for ev in o["events"]:
                if ev[0] == "response":
                    for n, v in ev[2]:
                        if n == "sec-websocket-extensions":
                            lib["ext_accepts"] = v
        lib["yielded"] = yielded_per_op
        if during_yielded:
            lib["during_yielded"] = during_yielded
        lib["spawned_apps"] = tg.spawned_apps
    finally:
        tap.remove()
    return out, lib


def ws_model_req(init: dict, ops: List[dict], lib: dict, cfg: Optional[dict] = None) -> dict:
    from hypercorn.config import Config
    c = cfg or {}
    jops = []
    for op_index, (op, yielded) in enumerate(zip(ops, lib["yielded"])):
        if "send" in op and "during" in op:
            # the inputs the reader handled while the send was suspended; what wsproto yielded for each (nothing if never reached)
            ys = (lib.get("during_yielded") or {}).get(op_index) or []
            ins = [({"in": "data", "events": ys[k] if k < len(ys) else []} if i["in"] == "data" else {"in": "streamClosed"}) for k, i in enumerate(op["during"])]
            jops.append({"send": ws_msg_json(op["send"]), "during": ins, "at": int(op.get("at", 0))})
        elif "send" in op:
            jops.append({"send": ws_msg_json(op["send"])})
        elif op["in"] == "data":
            jops.append({"in": "dataEchoLost" if op.get("echo_lost") else "data", "events": yielded})
        else:
            jops.append({"in": "streamClosed"})
    names = c.get("server_names", [])
    host = next((v.decode() for n, v in init["headers"] if n.lower() == b"host"), "")
    return {"cmd": "stream.ws", "init": {"version": init["version"], "headers": headers_json(init["headers"]),
                                         "max_len": c.get("websocket_max_message_size", Config.websocket_max_message_size),
                                         "server_name_ok": (not names) or host in names, "ping": c.get("websocket_ping_interval") is not None,
                                         "token": lib.get("token", ""), "ext_accepts": lib.get("ext_accepts")},
            "ops": jops}


def run(coro):
    return asyncio.run(coro)
