"""End-to-end WebSocket sessions through the in-memory `TCPServer` runners (both workers, both carriers) with the
independent `WsClient`.  A *case* is plain JSON and reproduces the run exactly (frame masks come from `mask_seed`).

case = {
  "worker": "asyncio" | "trio", "carrier": "h1" | "h2", "deflate": bool, "cfg": {config overrides},
  "subprotocols": [...], "headers": null | [[name, value], ...]   (handshake headers, latin-1; null = the valid default),
  "method": "GET" | ..., "version": "1.1" | "1.0", "protocol": "websocket" | null | other   (h2 `:protocol`),
  "app": [script steps]  (harness.core.runner.make_app),
  "client": [ ["msg", kind, [fragments latin-1], [[ctl…] per fragment]] | ["ping", p] | ["pong", p] | ["close", code|null]
              | ["flush"] | ["reply_close"] | ["eof"] | ["reset"] | ["fail_writes"] | ["sleep", seconds]
              | ["stall"] | ["unstall"]   (the peer stops / resumes taking what the server writes: transport back-pressure) ],
  "h2_window": n   (h2 only: the client's stream and connection windows are n bytes, so that flow control never holds the server back),
  "h2_auto_window": true | "connection" | false   (h2 only: received data is credited back to stream and connection / to the connection only:
                    the stream's window stays used up / not at all; default true),
  "seg": ["one"] | ["bytes"] | ["cuts", [offsets into each flushed byte string]] | ["k", n, seed],
  "before": n   (h1 only: n ordinary keep-alive GETs, each answered 200 by an http application, on the same connection ahead of the handshake),
}
Frames accumulate until "flush" (or a non-frame action); each flushed string is cut according to `seg`, every piece is
one `read()` of the server."""
from __future__ import annotations

import random
from typing import Any, Dict, List, Optional

from . import clients as C
from . import runner as R
from .framework import b2s, s2b


def cut(data: bytes, seg: list, nth: int) -> List[bytes]:
    if not data:
        return []
    mode = seg[0]
    if mode == "one":
        return [data]
    if mode == "bytes":
        return [data[i:i + 1] for i in range(len(data))]
    if mode == "cuts":
        offs = sorted(set(o for o in seg[1] if 0 < o < len(data)))
    else:  # ["k", n, seed]
        rnd = random.Random(seg[2] * 7919 + nth)
        offs = sorted(set(rnd.randrange(1, len(data)) for _ in range(min(seg[1] - 1, len(data) - 1)))) if len(data) > 1 else []
    out, prev = [], 0
    for o in offs + [len(data)]:
        out.append(data[prev:o])
        prev = o
    return [p for p in out if p]


def run_session(case: dict) -> dict:
    rng = random.Random(case.get("mask_seed", 1))
    ws = C.WsClient(rng, deflate=bool(case.get("deflate")), subprotocols=case.get("subprotocols") or [], path=case.get("path", "/ws"))
    carrier = case["carrier"]
    headers = None if case.get("headers") is None else [(s2b(n), s2b(v)) for n, v in case["headers"]]
    box: Dict[str, Any] = {"wire": [], "reads": 0, "flushes": 0}
    seg = case.get("seg", ["one"])

    async def client(io):
        h2c: Optional[C.H2Client] = None
        sid = 0

        def take() -> bytes:
            return io.take()

        async def absorb(eof: bool = False):
            data = take()
            if carrier == "h1":
                if data:
                    ws.feed_h1(data)          # (end of the server's stream is signalled once, after the run)
            else:
                for _ in range(6):
                    h2c.receive(data)
                    ws.feed_h2(h2c, sid)
                    out = h2c.out()
                    if not out or io.closed_at is not None:
                        break
                    await io.send(out)
                    data = take()

        async def deliver(data: bytes):
            pieces = cut(data, seg, box["flushes"])
            box["flushes"] += 1
            box["wire"].append(len(data))
            for p in pieces:
                if io.closed_at is not None:          # the server has closed the transport: nothing more can be read by it
                    box["unsent_after_server_close"] = True
                    break
                box["reads"] += 1
                await io.send(p)
                await absorb()

        # ---- "before": n ordinary keep-alive requests on the same HTTP/1.1 connection ahead of the handshake (so that the
        # upgrade is the (n+1)-th request of the connection: keep_alive_max_requests); parsed by a client parser of their own
        before = int(case.get("before") or 0) if carrier == "h1" else 0
        if before:
            import h11
            pre = h11.Connection(h11.CLIENT)
            box["before"] = []
            for i in range(before):
                pre.send(h11.Request(method="GET", target=f"/pre{i}", headers=[("host", "x")]))
                pre.send(h11.EndOfMessage())
                await io.send(f"GET /pre{i} HTTP/1.1\r\nhost: x\r\n\r\n".encode())
                cur = None
                for _ in range(5):
                    pre.receive_data(take())
                    try:
                        while True:
                            ev = pre.next_event()
                            if ev is h11.NEED_DATA or ev is h11.PAUSED or isinstance(ev, h11.ConnectionClosed):
                                break
                            if isinstance(ev, h11.Response):
                                cur = {"status": ev.status_code, "headers": [[b2s(n), b2s(v)] for n, v in ev.headers], "complete": False}
                            elif isinstance(ev, h11.EndOfMessage) and cur is not None:
                                cur["complete"] = True
                                break
                    except h11.RemoteProtocolError as e:
                        cur = {"status": None, "error": str(e), "complete": False}
                        break
                    if cur is not None and cur["complete"]:
                        break
                    await io.sleep(0.01)
                box["before"].append(cur)
                if cur is None or not cur.get("complete") or pre.our_state is not h11.DONE or pre.their_state is not h11.DONE:
                    break
                pre.start_next_cycle()
        # ---- opening handshake (always delivered in one read; C13 owns the segmentation of the HTTP part) ----
        if carrier == "h1":
            await io.send(ws.h1_request(headers, method=case.get("method", "GET"), version=case.get("version", "1.1")))
            await absorb()
        else:
            h2c = C.H2Client(validate_outbound=False, initial_window=case.get("h2_window"), auto_window=case.get("h2_auto_window", True))
            box["h2"] = h2c
            if case.get("h2_window"):
                h2c.conn.increment_flow_control_window(int(case["h2_window"]))
            await h2c.pump(io)
            hs = ws.h2_request_headers(headers, method=case.get("method", "CONNECT"), protocol=case.get("protocol", "websocket"))
            sid = h2c.request(hs, end=False)
            box["sid"] = sid
            out = h2c.out()
            await io.send(out)
            await absorb()
        for _ in range(3):
            if ws.handshake is not None and ws.handshake.get("complete"):
                break
            await io.sleep(0.01)
            await absorb()
        box["accepted"] = ws.conn is not None
        pending = b""

        async def flush():
            nonlocal pending
            if not pending:
                return
            data, pending = pending, b""
            if carrier == "h2":
                try:
                    h2c.conn.send_data(sid, data)
                except Exception as e:  # stream already closed by the server
                    box.setdefault("h2_send_error", repr(e))
                    return
                data = h2c.out()
            await deliver(data)

        for act in case.get("client", []):
            k = act[0]
            if ws.conn is None and k in ("msg", "ping", "pong", "close", "reply_close"):
                continue
            if k == "msg":
                pending += ws.message(act[1], [s2b(f) for f in act[2]], [[(c[0], s2b(c[1])) for c in cs] for cs in act[3]] if len(act) > 3 and act[3] else None)
            elif k == "ping":
                pending += ws.ping(s2b(act[1]))
            elif k == "pong":
                pending += ws.pong(s2b(act[1]))
            elif k == "close":
                pending += ws.close(act[1])
            elif k == "flush":
                await flush()
            elif k == "reply_close":
                await flush()
                if ws.close_code is not None and not box.get("replied"):
                    box["replied"] = True
                    pending += ws.close(ws.close_code if ws.close_code != 1005 else None)
                    await flush()
            elif k == "sleep":
                await flush()
                await io.sleep(act[1])
                await absorb()
            elif k == "eof":
                await flush()
                if io.closed_at is None:
                    await io.eof()
                await absorb(True)
            elif k == "stall":
                # the peer stops reading: the server's next write does not complete (its task stays in drain() / send_all())
                # whilst everything the client sends is still read and handled by the server's other tasks
                await flush()
                io.pause_writes()
            elif k == "unstall":
                await flush()
                await io.resume_writes()
                await absorb()
            elif k == "fail_writes":
                # from now on nothing the server writes gets through (the peer is gone); what is pending is still delivered
                io.fail_writes()
            elif k == "reset":
                await flush()
                if io.closed_at is None:
                    await io.reset()
                await absorb(True)
        await flush()
        await io.sleep(0.05)
        await absorb()
        # let everything the server still has to say arrive (virtual time), then signal the end of its stream to the parser
        await io.sleep(case.get("linger", 5.0))
        await absorb()
        if carrier == "h1" and ws.conn is None:
            ws.feed_h1(b"", True)
        # the runners execute a session in a forked child: what the client saw travels back as the coroutine's result
        return {"client": ws.summary(), "accepted": box.get("accepted"), "wire": box["wire"], "reads": box["reads"], "before": box.get("before"),
                "h2_error": (h2c.error if h2c is not None else None), "h2_goaway": (h2c.goaway if h2c is not None else None),
                "h2_send_error": box.get("h2_send_error"), "unsent_after_server_close": box.get("unsent_after_server_close", False),
                "h2_stream": (None if h2c is None or sid not in h2c.streams else {"ended": bool(h2c.streams[sid]["ended"]), "reset": h2c.streams[sid]["reset"]})}

    scripts = [case["app"]]
    if case.get("before") and carrier == "h1":
        ok = [["send", {"type": "http.response.start", "status": 200, "headers": [(b"content-length", b"2")]}], ["send", {"type": "http.response.body", "body": b"ok"}]]
        scripts = [ok] * int(case["before"]) + [case["app"]]
    res = R.RUNNERS[case["worker"]](dict(case.get("cfg") or {}), "h2" if carrier == "h2" else None, client, scripts, tail=case.get("tail", 5))
    cr = res.get("client_result") or {"client": ws.summary(), "accepted": None, "wire": [], "reads": 0, "h2_error": None, "h2_goaway": None,
                                       "h2_send_error": None}
    apps = res["apps"]
    return {
        "client": cr["client"], "accepted": cr["accepted"], "wire": cr["wire"], "reads": cr["reads"], "before": cr.get("before"),
        "apps": [{"scope_type": a["scope"].get("type"), "recv": [r[1:] for r in a["recv"]], "send": [s[1:] for s in a["send"]], "exit": a["exit"],
                  "subprotocols": a["scope"].get("subprotocols"), "http_version": a["scope"].get("http_version")} for a in apps],
        "error": res["error"], "loop_errors": res["loop_errors"], "exceptions": res["exceptions"], "client_error": res["client_error"],
        "access": [a[1:] for a in res["access"]], "closed_at": res["closed_at"], "handler_done": res["handler_done"],
        "h2_error": cr["h2_error"], "h2_goaway": cr["h2_goaway"], "h2_send_error": cr["h2_send_error"], "out_len": len(res["out"]),
        "stuck_session": res.get("stuck_session", False), "taps": res.get("taps"), "writes": res.get("writes"),
        "h2_stream": cr.get("h2_stream"),
    }
