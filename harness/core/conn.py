"""Connection-level sessions for C03 / C07: scenario DSL → the REAL `TCPServer` (asyncio and trio, virtual time) with taps on the
third-party parsers → one ordered label list → (a) the label list the Lean acceptor `conn.accept` replays on `HC.Conn.Server`,
(b) the projection both sides are compared on, (c) the facts the monitors judge.

Scenario (JSON, replayable):
  {"proto": "h1"|"h2", "T": seconds, "cap": int, "server_names": [..]|None, "terminate_at": seconds|None,
   "client": [action...], "apps": [script...], "tail": seconds}
  client actions: ["send", latin1-bytes] | ["sleep", s] | ["eof"] | ["reset"] | ["fail_writes"]
                  | ["pause_writes"] | ["resume_writes"]      (the peer stops / resumes reading: a write the transport accepts does not complete)
                  | ["h2req", path, body|None, end] | ["h2data", k, body, end] | ["h2rst", k] | ["h2goaway"]   (k = k-th h2req)
                  | ["h2preface"]                              (the client preface + SETTINGS on their own, before any request)
  "preload": n (optional) - the first n client actions happened before the server accepted the connection (their bytes sit in
            the socket buffer when `TCPServer.run()` starts; only `send` / `h2preface` / `h2req` actions)
  "sched": k (optional, default 0) - seed of trio's scheduler (the order in which the runnable tasks of one batch run)
  "h2_via": "alpn" (default: TLS with ALPN h2) | "prior" (cleartext, prior knowledge: h11 sees `PRI * HTTP/2.0` and the wrapper switches)
            | "h2c" (cleartext, the first request is ["h2c_req", path]: HTTP/1.1 with `Upgrade: h2c`, answered 101, served as stream 1)
  app scripts: the step lists of harness/core/runner.make_app; instance k runs apps[k % len].
Every request carries a distinct path `/r<k>` so that observations can be attributed to model instances."""
from __future__ import annotations

from typing import Any, Dict, List, Optional, Tuple

from . import clients as C
from . import runner as R
from .framework import b2s, s2b

_CUR: List[Any] = [None]       # the Rec of the session running in this (child) process


# --------------------------------------------------------------------------------------------------------------
# taps (library classes only) + harness-owned recording objects
# --------------------------------------------------------------------------------------------------------------
class _EvList(list):
    """what `H2Connection.receive_data` returns, labelling each event when the glue's loop takes it"""

    def __iter__(self):
        import h2.events as E
        for ev in list.__iter__(self):
            rec = _CUR[0]
            if rec is not None:
                if isinstance(ev, E.RequestReceived):
                    hs = {bytes(n): bytes(v) for n, v in ev.headers}
                    rec.label("h2ev", "request", ev.stream_id, b2s(hs.get(b":path", b"")), b2s(hs.get(b":authority", b"")), b2s(hs.get(b":method", b"")))
                elif isinstance(ev, E.DataReceived):
                    rec.label("h2ev", "data", ev.stream_id)
                elif isinstance(ev, E.StreamEnded):
                    rec.label("h2ev", "end", ev.stream_id)
                elif isinstance(ev, E.StreamReset):
                    rec.label("h2ev", "reset", ev.stream_id)
                elif isinstance(ev, E.ConnectionTerminated):
                    rec.label("h2ev", "goaway", 0)
            yield ev


def install_taps() -> None:
    import h11
    import h2.connection
    import h2.exceptions
    import wsproto.connection as wc
    from wsproto.events import CloseConnection, Message, Ping

    o_next = h11.Connection.next_event

    def next_event(conn):
        if conn.our_role is not h11.SERVER:
            return o_next(conn)
        rec = _CUR[0]
        try:
            ev = o_next(conn)
        except h11.RemoteProtocolError:
            if rec is not None:
                rec.label("h11ev", "protoError")
            raise
        if rec is not None:
            if isinstance(ev, h11.Request):
                rec.label("h11ev", "request", b2s(ev.method), b2s(ev.target), [[b2s(n), b2s(v)] for n, v in ev.headers], b2s(ev.http_version))
            elif isinstance(ev, h11.Data):
                rec.label("h11ev", "data")
            elif isinstance(ev, h11.EndOfMessage):
                rec.label("h11ev", "eom")
            elif isinstance(ev, h11.ConnectionClosed):
                rec.label("h11ev", "connClosed")
            elif ev is h11.NEED_DATA:
                rec.label("h11ev", "needData")
            elif ev is h11.PAUSED:
                rec.label("h11ev", "paused")
        return ev

    h11.Connection.next_event = next_event
    o_recv = h2.connection.H2Connection.receive_data

    def receive_data(conn, data):
        if conn.config.client_side:
            return o_recv(conn, data)
        try:
            return _EvList(o_recv(conn, data))
        except h2.exceptions.ProtocolError:
            if _CUR[0] is not None:
                _CUR[0].label("h2ev", "protoError", 0)
            raise

    h2.connection.H2Connection.receive_data = receive_data
    o_events = wc.Connection.events

    def events(conn):
        for ev in o_events(conn):
            rec = _CUR[0]
            if rec is not None and conn.client is False:
                if isinstance(ev, Message):
                    rec.label("wsev", "message", bool(ev.message_finished))
                elif isinstance(ev, Ping):
                    rec.label("wsev", "ping")
                elif isinstance(ev, CloseConnection):
                    rec.label("wsev", "close")
            yield ev

    wc.Connection.events = events
    _install_queue_taps()


def _install_queue_taps() -> None:
    """the application queues are library objects (asyncio.Queue / trio memory channels): record every message handed to
    `put` (entry and return) and every message `get` returns, keyed by the queue's identity"""
    import asyncio

    def is_asgi(item) -> bool:
        return isinstance(item, dict) and str(item.get("type", "")).split(".")[0] in ("http", "websocket")

    def tname(item) -> str:
        t = item["type"]
        if t == "http.request":
            return "request+" if item.get("more_body") else "request."
        return {"websocket.connect": "connect", "websocket.receive": "receive", "websocket.disconnect": "disconnect",
                "http.disconnect": "disconnect"}.get(t, t)

    keep: list = []          # queue objects stay referenced so that `id()` is never reused within a session

    def qid(o) -> int:
        if not any(o is k for k in keep[-64:]):
            keep.append(o)
        return id(o)

    o_put, o_get = asyncio.Queue.put, asyncio.Queue.get

    async def put(q, item):
        rec = _CUR[0]
        if rec is None or not is_asgi(item):
            return await o_put(q, item)
        rec.label("qput", "enter", qid(q), tname(item))
        await o_put(q, item)
        rec.label("qput", "exit", qid(q), tname(item))

    async def get(q):
        if _CUR[0] is not None and q.maxsize > 0:
            _CUR[0].label("qgetcall", qid(q))
        item = await o_get(q)
        rec = _CUR[0]
        if rec is not None and is_asgi(item):
            rec.label("qget", qid(q), tname(item))
        return item

    asyncio.Queue.put, asyncio.Queue.get = put, get
    try:
        import trio
        S, Rv = trio.MemorySendChannel, trio.MemoryReceiveChannel
        o_send, o_recv = S.send, Rv.receive

        async def send(ch, item):
            rec = _CUR[0]
            if rec is None or not is_asgi(item):
                return await o_send(ch, item)
            rec.label("qput", "enter", qid(ch._state), tname(item))
            await o_send(ch, item)
            rec.label("qput", "exit", qid(ch._state), tname(item))

        async def receive(ch):
            if _CUR[0] is not None and ch._state.max_buffer_size <= 1000:     # the application queues, not the harness transport
                _CUR[0].label("qgetcall", qid(ch._state))
            item = await o_recv(ch)
            rec = _CUR[0]
            if rec is not None and is_asgi(item):
                rec.label("qget", qid(ch._state), tname(item))
            return item

        S.send, Rv.receive = send, receive
    except Exception:       # pragma: no cover
        pass


class RecordingEvent:
    """stands for `context.terminated`: delegates to the worker's own event class, recording who waits on it (the idle timer) and when it is set"""

    def __init__(self, inner: Any) -> None:
        self.inner = inner
        self.waiters = 0

    async def clear(self) -> None:
        await self.inner.clear()

    async def wait(self) -> None:
        rec = _CUR[0]
        self.waiters += 1
        rec.label("timerWait", "enter")
        try:
            await self.inner.wait()
        finally:
            self.waiters -= 1
            rec.label("timerWait", "exit")

    async def set(self) -> None:
        _CUR[0].label("terminated")
        await self.inner.set()

    def is_set(self) -> bool:
        return self.inner.is_set()


def _patch_session(worker: str) -> None:
    """child process only: remember the session's Rec, wrap `context.terminated`"""
    o_init = R.Rec.__init__

    def rec_init(self):
        o_init(self)
        _CUR[0] = self

    R.Rec.__init__ = rec_init
    if worker == "asyncio":
        from hypercorn.asyncio.worker_context import WorkerContext
    else:
        from hypercorn.trio.worker_context import WorkerContext
    o_ctx = WorkerContext.__init__

    def ctx_init(self, *a, **k):
        o_ctx(self, *a, **k)
        self.terminated = RecordingEvent(self.terminated)

    WorkerContext.__init__ = ctx_init


# --------------------------------------------------------------------------------------------------------------
# running a scenario on the real server
# --------------------------------------------------------------------------------------------------------------
def _session(worker: str, sc: dict) -> dict:
    install_taps()
    _patch_session(worker)
    if worker == "trio":
        # trio runs the tasks of one batch in random order: the order is part of the case (`sched`, default 0), so that a run
        # in which two tasks race (a timeout of 0 against the reader, say) replays exactly
        import trio._core._run as _tr
        _tr._r.seed(int(sc.get("sched") or 0))
    cfg: Dict[str, Any] = {"keep_alive_timeout": sc["T"], "max_app_queue_size": sc.get("cap", 10)}
    if sc.get("server_names"):
        cfg["server_names"] = list(sc["server_names"])
    h2c: List[Any] = [None]
    sids: List[int] = []

    n_pre = int(sc.get("preload") or 0)

    async def client(io):
        if sc.get("fail_at_write") is not None:
            _reset_at_write(io, worker, int(sc["fail_at_write"]))
        await perform(io, sc["client"][n_pre:])
        if h2c[0] is not None:
            await h2c[0].pump(io)
        return {"sids": sids}

    async def preload(io):
        # the first `preload` client actions happened before the server accepted the connection: their bytes are in the socket
        # buffer when `TCPServer.run()` starts
        await perform(io, sc["client"][:n_pre])

    async def perform(io, actions):
        rec = _CUR[0]
        for act in actions:
            k = act[0]
            if k == "send":
                await io.send(s2b(act[1]))
            elif k == "sleep":
                await io.sleep(act[1])
            elif k == "eof":
                await io.eof()
            elif k == "reset":
                rec.label("envFailWrites")
                await io.reset()
            elif k == "fail_writes":
                rec.label("envFailWrites")
                io.fail_writes()
            elif k == "pause_writes":
                rec.label("envPauseWrites")
                io.pause_writes()
            elif k == "resume_writes":
                rec.label("envResumeWrites")
                await io.resume_writes()
            elif k == "h2preface":
                if h2c[0] is None:
                    h2c[0] = C.H2Client(initial_window=sc.get("h2_window"))
                    await h2c[0].pump(io)
            elif k == "h2c_req":
                # HTTP/1.1 request with `Upgrade: h2c`: the server answers 101 and goes on in HTTP/2, the request is stream 1
                cl = h2c[0] = C.H2Client(upgrade=True)
                hs = [(b"host", (act[2] if len(act) > 2 else "x").encode()), (b"connection", b"Upgrade, HTTP2-Settings"), (b"upgrade", b"h2c"),
                      (b"http2-settings", cl.upgrade_settings)]
                await io.send(C.h1_request("GET", act[1], hs))
                got = io.take()
                head, sep, rest = got.partition(b"\r\n\r\n")
                if not head.startswith(b"HTTP/1.1 101"):
                    raise RuntimeError(f"no 101 to the h2c upgrade: {got[:60]!r}")
                cl._st(1)
                sids.append(1)
                cl.receive(rest)
                await cl.pump(io)
            elif k == "h2req":
                if h2c[0] is None:
                    h2c[0] = C.H2Client(initial_window=sc.get("h2_window"))
                cl = h2c[0]
                body = None if act[2] is None else s2b(act[2])
                sids.append(cl.request(C.h2_headers("POST" if body is not None or not act[3] else "GET", act[1], authority=act[4] if len(act) > 4 else "x"), body, end=act[3]))
                await cl.pump(io)
            elif k == "h2data":
                h2c[0].send_data(sids[act[1]], s2b(act[2]), act[3])
                await h2c[0].pump(io)
            elif k == "h2rst":
                try:
                    h2c[0].conn.reset_stream(sids[act[1]])
                except Exception:
                    pass
                await h2c[0].pump(io)
            elif k == "h2goaway":
                h2c[0].conn.close_connection()
                await h2c[0].pump(io)

    fn = R.run_asyncio if worker == "asyncio" else R.run_trio
    alpn = "h2" if sc["proto"] == "h2" and sc.get("h2_via", "alpn") == "alpn" else None      # "prior" / "h2c": cleartext
    res = fn(cfg, alpn, client, sc["apps"], tail=sc.get("tail", 30.0), terminate_at=sc.get("terminate_at"),
             **({"preload": preload} if n_pre else {}))
    return res


def _reset_at_write(io: Any, worker: str, k: int) -> None:
    """the peer resets the connection once the transport has accepted `k` writes: from then on every write fails (on asyncio
    already the `drain()` of the k-th), and the reading side sees the reset as well"""
    base = type(io)
    state = {"flag": bool(io.__dict__.pop("_fail", False))}

    def get(self) -> bool:
        if not state["flag"] and len(self.writes) >= k:
            state["flag"] = True
            self.rec.label("envFailAuto")
            if worker == "asyncio":
                if not self.reader.eof:
                    self.reader.eof = True
                    self.reader.q.put_nowait(ConnectionResetError())
            else:
                import trio
                if not self.eof_sent:
                    self.eof_sent = True
                    self.send_ch.send_nowait(trio.BrokenResourceError())
        return state["flag"]

    def set_(self, v: bool) -> None:
        state["flag"] = bool(v)

    io.__class__ = type("ResetAtWrite" + base.__name__, (base,), {"_fail": property(get, set_)})


_RUN = {"asyncio": R._isolated(lambda sc: _session("asyncio", sc)), "trio": R._isolated(lambda sc: _session("trio", sc))}


def run_real(worker: str, sc: dict) -> dict:
    return _RUN[worker](sc)


# --------------------------------------------------------------------------------------------------------------
# observation → acceptor labels
# --------------------------------------------------------------------------------------------------------------
def _amsg(m: dict) -> dict:
    t = m.get("type")
    if t == "http.response.start":
        close = any(bytes(n).lower() == b"connection" and b"close" in bytes(v).lower() for n, v in m.get("headers", []))
        return {"t": "start", "close": close}
    if t == "http.response.body":
        return {"t": "body", "more": bool(m.get("more_body", False)), "nonEmpty": bool(m.get("body", b""))}
    if t == "websocket.accept":
        return {"t": "accept"}
    if t == "websocket.send":
        return {"t": "wsSend"}
    if t == "websocket.close":
        return {"t": "wsClose"}
    if t == "websocket.http.response.start":
        return {"t": "wsHttpStart"}
    if t == "websocket.http.response.body":
        return {"t": "wsHttpBody", "more": bool(m.get("more_body", False))}
    return {"t": "other"}


def _qname(t: str, more: Optional[bool] = None) -> str:
    if t == "http.request":
        return "request+" if more else "request."
    return {"websocket.connect": "connect", "websocket.receive": "receive", "websocket.disconnect": "disconnect", "http.disconnect": "disconnect"}.get(t, t)


def _head_info(method: str, headers: List[List[str]], version: str, sc: dict) -> dict:
    hs = [(n.lower(), v) for n, v in headers]
    conn = ",".join(v for n, v in hs if n == "connection").lower()
    upgrade = next((v for n, v in reversed(hs) if n == "upgrade"), "").strip().lower()
    is_ws = any(t.strip() == "upgrade" for t in conn.split(",")) and upgrade == "websocket" and method.upper() == "GET"
    host = next((v for n, v in hs if n == "host"), "")
    names = sc.get("server_names")
    name_ok = True if not names else host in names
    ws_ok = True
    if is_ws:
        ver = next((v for n, v in hs if n == "sec-websocket-version"), None)
        key = next((v for n, v in hs if n == "sec-websocket-key"), None)
        ws_ok = ver == "13" and key is not None
    keep = version == "1.1" and not any(t.strip() == "close" for t in conn.split(","))
    return {"kind": "ws" if is_ws else "http", "keepAlive": keep, "nameOk": name_ok, "wsOk": ws_ok}


def to_trace(res: dict, sc: dict, worker: str) -> Tuple[dict, dict]:
    """(request for the Lean acceptor, facts for the monitors)"""
    labels: List[dict] = []
    now = 0
    inst_of_path: Dict[str, int] = {}
    inst_of_sid: Dict[int, int] = {}
    app_inst: Dict[int, int] = {}
    for a in res["apps"]:
        app_inst[a["id"]] = -1
    n_inst = 0
    ws_mode = False
    in_loop = False
    closed = False
    post_close_read = False
    data_after_close = False
    term_seen = False
    heads: List[dict] = []
    scripts = sc["apps"]
    # a cleartext connection speaks HTTP/1 (h11 reports its own end-of-input events) until the preface line has arrived
    h2_active = sc["proto"] == "h2" and sc.get("h2_via", "alpn") == "alpn"
    switched = False

    def path_key(p: str) -> str:
        return p.split("?")[0]

    def tick(t: int) -> None:
        nonlocal now
        if t > now:
            labels.append({"op": "tick", "d": t - now})
            now = t

    app_paths = {a["id"]: a["scope"]["path"] for a in res["apps"]}
    if sc.get("fail_at_write") is not None:
        labels.append({"op": "failAfter", "k": int(sc["fail_at_write"])})
    if sc["proto"] == "h2" and sc.get("h2_window") == 0:
        labels.append({"op": "h2NoCredit"})
    send_i: Dict[int, int] = {}
    # which application owns which queue: a `receive()` call directly follows a label of the same application task
    q_app: Dict[int, int] = {}
    prev_app: Optional[int] = None
    started: List[int] = []
    for lab in res["labels"]:
        if lab[1] == "appStart":
            started.append(lab[2])
        if lab[1] in ("appStart", "appRecv", "appSendRet"):
            prev_app = lab[2]
        elif lab[1] == "qgetcall":
            if lab[2] not in q_app:
                cand = prev_app if prev_app is not None and prev_app not in q_app.values() else next((a for a in started if a not in q_app.values()), None)
                if cand is not None:
                    q_app[lab[2]] = cand
            prev_app = None
        elif lab[1] not in ("qget",):
            prev_app = None
    for lab in res["labels"]:
        t, kind = lab[0], lab[1]
        tick(t)
        if kind == "srvReadClosed":
            kind, lab = "srvRead", [lab[0], "srvRead", "closed"]      # trio: the read raises ClosedResourceError after the server's own close
        if kind == "srvRead":
            if closed and isinstance(lab[2], int) and not isinstance(lab[2], bool) and lab[2] > 0:
                data_after_close = True
            if closed and not (isinstance(lab[2], int) and not isinstance(lab[2], bool) and lab[2] > 0):
                # (bytes that had arrived before the server closed are still handed to the reader - a read that was already under
                # way when the idle task closed the transport, say: an ordinary `read`)
                post_close_read = True      # the server's own close reaching its reader: the model's `readerSeesClose`
                if in_loop and (h2_active or ws_mode):
                    labels.append({"op": "needData"})
                    in_loop = False
                continue
            if in_loop:
                labels.append({"op": "needData"})
            v = lab[2]
            if v == "reset":
                labels.append({"op": "readReset"})
                in_loop = False
            elif v == 0:
                labels.append({"op": "readEof"})
                in_loop = True
                if h2_active or ws_mode:      # no parser event follows an empty read there
                    labels.append({"op": "needData"})
                    in_loop = False
            else:
                labels.append({"op": "read"})
                in_loop = True
        elif kind == "h11ev":
            if post_close_read:
                continue
            ev = lab[2]
            if ev == "request":
                info = _head_info(lab[3], lab[5], lab[6], sc)
                if lab[3] == "PRI":
                    # the HTTP/2 preface line on a cleartext connection: the wrapper switches to H2Protocol
                    labels.append({"op": "h2prior"})
                    h2_active = switched = True
                    continue
                hl = {n.lower(): v for n, v in lab[5]}
                if (sc["proto"] == "h2" and sc.get("h2_via") == "h2c" and not switched and hl.get("upgrade", "").strip().lower() == "h2c"
                        and "content-length" not in hl and "transfer-encoding" not in hl):
                    # h2c upgrade: 101, switch, the request itself becomes stream 1 and is complete
                    names = sc.get("server_names")
                    name_ok = True if not names else hl.get("host", "") in names
                    labels += [{"op": "h2c"}, {"op": "head", "kind": "http", "keepAlive": True, "nameOk": name_ok, "wsOk": True}, {"op": "h2eom", "i": n_inst}]
                    inst_of_sid[1] = n_inst
                    inst_of_path[path_key(lab[4])] = n_inst
                    heads.append({"inst": n_inst, "t": t, "kind": "http", "nameOk": name_ok})
                    n_inst += 1
                    h2_active = switched = True
                    continue
                labels.append({"op": "head", **info})
                inst_of_path[path_key(lab[4])] = n_inst
                heads.append({"inst": n_inst, "t": t, **info})
                n_inst += 1
                ws_mode = info["kind"] == "ws"
            elif ev == "data":
                labels.append({"op": "body"})
            elif ev == "eom":
                labels.append({"op": "eom"})
            elif ev == "paused":
                labels.append({"op": "paused"})
            elif ev in ("needData", "connClosed", "protoError"):
                labels.append({"op": ev})
                in_loop = False
        elif kind == "h2ev":
            if post_close_read:
                continue
            ev, sid = lab[2], lab[3]
            if ev == "request":
                names = sc.get("server_names")
                name_ok = True if not names else lab[5] in names
                labels.append({"op": "head", "kind": "http", "keepAlive": True, "nameOk": name_ok, "wsOk": True})
                if term_seen:
                    # shutdown has begun: the stream is refused (`reset_stream`), no stream object, no application - not an
                    # instance; DATA / END_STREAM of it that came in the same read find no stream
                    continue
                inst_of_sid[sid] = n_inst
                inst_of_path[path_key(lab[4])] = n_inst
                heads.append({"inst": n_inst, "t": t, "kind": "http", "nameOk": name_ok})
                n_inst += 1
            elif ev == "data" and sid in inst_of_sid:
                labels.append({"op": "h2body", "i": inst_of_sid[sid]})
            elif ev == "end" and sid in inst_of_sid:
                labels.append({"op": "h2eom", "i": inst_of_sid[sid]})
            elif ev == "reset" and sid in inst_of_sid:
                labels.append({"op": "h2rst", "i": inst_of_sid[sid]})
            elif ev == "goaway":
                labels.append({"op": "h2goaway"})
            elif ev == "protoError":
                labels.append({"op": "protoError"})
                in_loop = False
        elif kind == "wsev":
            if post_close_read:
                continue
            if lab[2] == "message":
                if lab[3]:
                    labels.append({"op": "wsMsg"})
            elif lab[2] == "ping":
                labels.append({"op": "wsPing"})
            elif lab[2] == "close":
                labels.append({"op": "wsPeerClose"})
        elif kind == "appStart":
            app_inst[lab[2]] = inst_of_path.get(path_key(app_paths.get(lab[2], "?")), -1)
        elif kind == "qgetcall":
            if lab[2] in q_app and app_inst.get(q_app[lab[2]], -1) >= 0:
                labels.append({"op": "appRecvCall", "i": app_inst[q_app[lab[2]]]})
        elif kind == "appRecv":
            i = app_inst.get(lab[2], -1)
            labels.append({"op": "appRecv", "i": i})
            a = next(x for x in res["apps"] if x["id"] == lab[2])
            k = send_i.get(("r", lab[2]), 0)
            send_i[("r", lab[2])] = k + 1
            m = a["recv"][k]
            labels.append({"out": ["recv", i, _qname(m[1], m[3] if m[1] == "http.request" else None)]})
        elif kind == "appSendCall":
            i = app_inst.get(lab[2], -1)
            k = send_i.get(("s", lab[2]), 0)
            send_i[("s", lab[2])] = k + 1
            script = scripts[lab[2] % len(scripts)]
            msgs = [st[1] for st in script if st[0] == "send"]
            labels.append({"op": "appSend", "i": i, "m": _amsg(msgs[k])})
        elif kind == "appSendRet":
            labels.append({"out": ["sendRet", app_inst.get(lab[2], -1), lab[3] == "ok"]})
        elif kind == "appExit":
            labels.append({"op": "appExit", "i": app_inst.get(lab[2], -1)})
        elif kind == "logAccess":
            labels.append({"out": ["access", inst_of_path.get(path_key(lab[2] or "?"), -1), lab[3]]})
        elif kind == "srvClose":
            labels.append({"out": ["close", t]})
            closed = True
        elif kind == "handlerDone":
            if in_loop and (h2_active or ws_mode):
                labels.append({"op": "needData"})
                in_loop = False
            labels.append({"out": ["done", t]})
        elif kind == "envFailWrites":
            labels.append({"op": "failWrites"})
        elif kind == "envPauseWrites":
            labels.append({"op": "pauseWrites"})
        elif kind == "envResumeWrites":
            labels.append({"op": "resumeWrites"})
        elif kind == "terminated":
            labels.append({"op": "terminate"})
            term_seen = True
    # WebSocket reads carry no parser event of their own when nothing complete arrived: data before the accept is the 400 path
    labels = _ws_early(labels)
    if in_loop and (h2_active or ws_mode):
        labels.append({"op": "needData"})
    end = int(round((sum(a[1] for a in sc["client"] if a[0] == "sleep") + sc.get("tail", 30.0)) * 1000))
    if end > now:
        labels.append({"op": "tick", "d": end - now})
    # (a cleartext connection on which neither the preface nor an upgrade request arrived has been an HTTP/1 connection throughout)
    proto = "h1" if sc["proto"] == "h2" and sc.get("h2_via", "alpn") != "alpn" and not switched else sc["proto"]
    req = {"cmd": "conn.accept", "cfg": {"proto": proto, "cap": sc.get("cap", 10), "T": int(round(sc["T"] * 1000)), "trio": worker == "trio"},
           "labels": labels}
    if data_after_close and proto == "h2":
        req["h2_read_after_close"] = True
    facts = {"heads": heads, "app_inst": app_inst, "inst_of_path": inst_of_path, "n_inst": n_inst}
    return req, facts


def _ws_early(labels: List[dict]) -> List[dict]:
    """in WebSocket mode a `read` that produced no wsproto event before the stream was accepted is `wsEarlyData`"""
    out: List[dict] = []
    ws_inst: Optional[int] = None
    accepted = False
    for idx, l in enumerate(labels):
        out.append(l)
        if l.get("op") == "head":
            ws_inst = -2 if l["kind"] == "ws" and l["nameOk"] and l["wsOk"] else None
            accepted = False
        elif l.get("op") == "appSend" and l["m"]["t"] == "accept":
            accepted = True
        elif l.get("op") == "read" and ws_inst is not None and not accepted:
            out.append({"op": "wsEarlyData"})
    return out


# --------------------------------------------------------------------------------------------------------------
# the implementation's observation, per request
# --------------------------------------------------------------------------------------------------------------
def observe(res: dict, sc: dict, facts: dict) -> dict:
    """what the properties name: per instance the received message types, results of send(), access records per request,
    close / head-complete / response-complete / handler-completion instants, live tasks at the end, timer waits"""
    inst: Dict[int, dict] = {}
    for h in facts["heads"]:
        inst[h["inst"]] = {"head_at": h["t"], "kind": h["kind"], "has_scope": True, "app": None, "access": [], "resp_end": None}
    for a in res["apps"]:
        i = facts["app_inst"].get(a["id"], -1)
        if i in inst:
            inst[i]["app"] = {"recv": [m[1] for m in a["recv"]], "recv_t": [m[0] for m in a["recv"]], "send": a["send"], "exit": a["exit"], "t_exit": a.get("t_exit")}
    for t, path, st in res["access"]:
        i = facts["inst_of_path"].get((path or "?").split("?")[0], -1)
        if i in inst:
            inst[i]["access"].append([t, st])
    waits: List[list] = []
    open_at: Optional[int] = None
    for lab in res["labels"]:
        if lab[1] == "timerWait":
            if lab[2] == "enter":
                open_at = lab[0]
            elif open_at is not None:
                waits.append([open_at, lab[0]])
                open_at = None
    if open_at is not None:
        waits.append([open_at, None])
    return {"instances": inst, "closed_at": res["closed_at"], "done_at": (res["handler_done"] or [None])[0], "live_tasks": res["live_tasks"],
            "waits": waits, "error": res["error"], "loop_errors": res["loop_errors"], "stuck": res.get("stuck_session", False)}


# --------------------------------------------------------------------------------------------------------------
# analysis of one observation (what the monitors of C03 / C07 read)
# --------------------------------------------------------------------------------------------------------------
def client_times(sc: dict) -> dict:
    """virtual instants (ms) of the client's own actions"""
    t = 0.0
    out: Dict[str, Any] = {"gone_at": None, "fail_at": None, "end": None}
    for a in sc["client"]:
        if a[0] == "sleep":
            t += a[1]
        elif a[0] in ("eof", "reset") and out["gone_at"] is None:
            out["gone_at"] = int(round(t * 1000))
        elif a[0] == "fail_writes" and out["fail_at"] is None:
            out["fail_at"] = int(round(t * 1000))
    out["end"] = int(round(t * 1000))
    return out


def analyse(res: dict, sc: dict, facts: dict) -> dict:
    app_inst = facts["app_inst"]
    inst: Dict[int, dict] = {}
    for h in facts["heads"]:
        inst[h["inst"]] = {"i": h["inst"], "kind": h["kind"], "head_at": h["t"], "valid": h.get("nameOk", True) and h.get("wsOk", True),
                           "puts": [], "recv": [], "sends": [], "access": [], "exit": None, "t_exit": None, "app": None}
    # queues → instances
    q_of_app: Dict[int, int] = {}
    q_ctx: Dict[int, int] = {}          # queue → instance, from the parser event the first data put follows
    ctx_inst: Optional[int] = None
    n_heads = 0
    sid_inst: Dict[int, int] = {}
    last_q: Optional[int] = None
    first_put_order: List[int] = []
    puts: Dict[int, list] = {}
    term0 = False
    for lab in res["labels"]:
        if lab[1] == "qget":
            last_q = lab[2]
        elif lab[1] == "appRecv" and last_q is not None:
            q_of_app.setdefault(lab[2], last_q)
            last_q = None
        elif lab[1] == "h11ev" and lab[2] == "request" and lab[3] != "PRI":
            ctx_inst = n_heads
            n_heads += 1
        elif lab[1] == "terminated":
            term0 = True
        elif lab[1] == "h2ev":
            if lab[2] == "request" and term0:
                pass            # refused during shutdown: not an instance (see to_trace)
            elif lab[2] == "request":
                sid_inst[lab[3]] = n_heads
                ctx_inst = n_heads
                n_heads += 1
            elif lab[2] in ("data", "end"):
                ctx_inst = sid_inst.get(lab[3], ctx_inst)
        elif lab[1] == "qput":
            if lab[2] == "enter" and lab[3] not in q_ctx and lab[4] != "disconnect" and ctx_inst is not None and ctx_inst not in q_ctx.values():
                q_ctx[lab[3]] = ctx_inst
            if lab[3] not in puts:
                puts[lab[3]] = []
                first_put_order.append(lab[3])
            if lab[2] == "enter":
                puts[lab[3]].append([lab[0], None, lab[4]])
            else:
                for p in puts[lab[3]]:
                    if p[1] is None and p[2] == lab[4]:
                        p[1] = lab[0]
                        break
    inst_q: Dict[int, int] = {i: q for q, i in q_ctx.items() if i in inst}
    for app_id, q in q_of_app.items():
        if app_inst.get(app_id, -1) in inst_q or q in inst_q.values():
            continue
        if app_inst.get(app_id, -1) in inst:
            inst_q[app_inst[app_id]] = q
    unmapped_q = [q for q in first_put_order if q not in inst_q.values()]
    for i in sorted(inst):
        if i not in inst_q and inst[i]["valid"] and unmapped_q:
            inst_q[i] = unmapped_q.pop(0)
    for i, q in inst_q.items():
        inst[i]["puts"] = puts.get(q, [])
    for a in res["apps"]:
        i = app_inst.get(a["id"], -1)
        if i in inst:
            inst[i]["app"] = a["id"]
            inst[i]["recv"] = [[m[0], _qname(m[1], m[3] if m[1] == "http.request" else None)] for m in a["recv"]]
            inst[i]["sends"] = a["send"]
            inst[i]["exit"] = a["exit"]
            inst[i]["t_exit"] = a.get("t_exit")
    for t, path, st in res["access"]:
        i = facts["inst_of_path"].get((path or "?").split("?")[0], -1)
        if i in inst:
            inst[i]["access"].append([t, st])
    waits: List[list] = []
    open_at: Optional[int] = None
    term_at: Optional[int] = None
    read_gone: Optional[int] = None
    closed_seen = False
    in_send: Dict[int, list] = {}           # application -> the `send()` call it is still inside
    write_blocked = False                   # a task is inside a transport write the peer keeps waiting
    preface_at: Optional[int] = None        # the HTTP/2 preface line arrived on a cleartext connection
    for lab in res["labels"]:
        if lab[1] == "appSendCall":
            in_send[lab[2]] = [lab[0], lab[3]]
        elif lab[1] == "appSendRet":
            in_send.pop(lab[2], None)
        elif lab[1] == "srvWriteBlocked":
            write_blocked = True
        elif lab[1] == "srvWriteUnblocked":
            write_blocked = False
        elif lab[1] == "h11ev" and lab[2] == "request" and lab[3] == "PRI" and preface_at is None:
            preface_at = lab[0]
        if lab[1] == "timerWait":
            if lab[2] == "enter":
                open_at = lab[0]
            elif open_at is not None:
                waits.append([open_at, lab[0]])
                open_at = None
        elif lab[1] == "terminated" and term_at is None:
            term_at = lab[0]
        elif lab[1] == "srvClose":
            closed_seen = True
        elif lab[1] == "srvRead" and lab[2] in (0, "reset") and not closed_seen and read_gone is None:
            read_gone = lab[0]
    if open_at is not None:
        waits.append([open_at, None])
    for x in inst.values():
        disc = [p for p in x["puts"] if p[2] == "disconnect"]
        x["disc_at"] = disc[0][0] if disc else None
        x["in_send"] = in_send.get(x["app"]) if x["app"] is not None else None
        ended = [a[0] for a in x["access"] if a[1] is not None]
        x["resp_end"] = min(ended) if ended else None
    ct = client_times(sc)
    auto = next((lab[0] for lab in res["labels"] if lab[1] == "envFailAuto"), None)
    if auto is not None:
        ct["gone_at"] = auto if ct["gone_at"] is None else min(ct["gone_at"], auto)
    return {"instances": inst, "closed_at": res["closed_at"], "done_at": (res["handler_done"] or [None])[0], "live_tasks": res["live_tasks"],
            "waits": waits, "terminated_at": term_at, "read_gone_at": read_gone, "client": ct, "error": res["error"], "loop_errors": res["loop_errors"],
            "close_begin_at": res.get("close_begin_at"), "write_blocked": write_blocked, "preface_at": preface_at, "via": sc.get("h2_via", "alpn") if sc["proto"] == "h2" else None,
            "stuck": bool(res.get("stuck_session")), "T": int(round(sc["T"] * 1000)),
            "end": int(round((sum(a[1] for a in sc["client"] if a[0] == "sleep") + sc.get("tail", 30.0)) * 1000)),
            "blocked_puts": [[x["i"], p[2]] for x in inst.values() for p in x["puts"] if p[1] is None],
            "overtaken": _overtaken(res["labels"])}


def _overtaken(labels: List[list]) -> bool:
    """a `put` that entered later completed while an earlier one on the same queue was still waiting (asyncio.Queue lets a
    new put go ahead of a blocked putter that has been woken but has not run yet; trio memory channels keep the order)"""
    waiting: Dict[int, List[str]] = {}
    for lab in labels:
        if lab[1] != "qput":
            continue
        q = waiting.setdefault(lab[3], [])
        if lab[2] == "enter":
            q.append(lab[4])
        else:
            if q and q[0] != lab[4]:
                return True
            if lab[4] in q:
                q.remove(lab[4])
    return False


def compare(model: dict, an: dict) -> List[str]:
    """differences between the accepted model run's final projection and the implementation's observation"""
    diffs: List[str] = []
    fin = model["final"]
    if fin["closeAt"] != an["closed_at"]:
        diffs.append(f"close instant: model {fin['closeAt']} impl {an['closed_at']}")
    if fin["doneAt"] != an["done_at"]:
        diffs.append(f"handler completion: model {fin['doneAt']} impl {an['done_at']}")
    for i, mi in enumerate(fin["instances"]):
        x = an["instances"].get(i)
        if x is None:
            diffs.append(f"instance {i} unknown to the observation")
            continue
        if mi["access"] != len(x["access"]):
            diffs.append(f"instance {i} access records: model {mi['access']} impl {len(x['access'])}")
        if mi["recvd"] != [r[1] for r in x["recv"]]:
            diffs.append(f"instance {i} received: model {mi['recvd']} impl {[r[1] for r in x['recv']]}")
        if x["puts"] or mi["handed"]:
            if mi["handed"] != [p[2] for p in x["puts"]]:
                diffs.append(f"instance {i} handed to the queue: model {mi['handed']} impl {[p[2] for p in x['puts']]}")
    if bool(fin["blocked"]) != bool(an["blocked_puts"] or an.get("write_blocked")):
        diffs.append(f"blocked tasks: model {fin['blocked']} impl {an['blocked_puts']} write_blocked={an.get('write_blocked')}")
    if fin.get("fuelOut"):
        diffs.append("model interpreter ran out of fuel")
    return diffs


# --------------------------------------------------------------------------------------------------------------
# generators: session histories
# --------------------------------------------------------------------------------------------------------------
START = {"type": "http.response.start", "status": 200, "headers": [(b"content-length", b"2")]}
START_CHUNKED = {"type": "http.response.start", "status": 200, "headers": []}
BODY = {"type": "http.response.body", "body": b"ok"}
BODY_MORE = {"type": "http.response.body", "body": b"o", "more_body": True}
BODY_LAST = {"type": "http.response.body", "body": b"k"}
APP_KINDS = ["respond", "read_respond", "sleep_respond", "start_sleep_body", "disconnect_then_respond", "raise_before", "raise_mid",
             "return_early", "wait_disconnect", "respond_then_wait", "finish_after_disconnect", "stream_three"]


def app_script(kind: str, d: float) -> list:
    if kind == "respond":
        return [["send", START], ["send", BODY]]
    if kind == "read_respond":
        return [["recv_body"], ["send", START], ["send", BODY]]
    if kind == "sleep_respond":
        return [["recv"], ["sleep", d], ["send", START], ["send", BODY]]
    if kind == "start_sleep_body":
        return [["send", START_CHUNKED], ["send", BODY_MORE], ["sleep", d], ["send", BODY_LAST]]
    if kind == "finish_after_disconnect":       # a streaming application that ignores the disconnect and ends its response later
        return [["send", START_CHUNKED], ["send", BODY_MORE], ["recv_until_disconnect"], ["sleep", d], ["send", BODY_LAST]]
    if kind == "stream_three":
        return [["send", START_CHUNKED], ["send", BODY_MORE], ["send", BODY_MORE], ["send", BODY_LAST]]
    if kind == "disconnect_then_respond":
        return [["recv_until_disconnect"], ["send", START], ["send", BODY]]
    if kind == "raise_before":
        return [["recv"], ["raise"]]
    if kind == "raise_mid":
        return [["send", START_CHUNKED], ["send", BODY_MORE], ["raise"]]
    if kind == "return_early":
        return [["return"]]
    if kind == "wait_disconnect":
        return [["recv_until_disconnect"]]
    if kind == "respond_then_wait":
        return [["recv_body"], ["send", START], ["send", BODY], ["recv_until_disconnect"]]
    raise ValueError(kind)


def _ms(x: float) -> float:
    """a duration derived from the timeout (T / 2, 0.6 T …) as whole milliseconds, rounded up: the observations are in
    milliseconds of virtual time, a history must not contain instants between two of them (only T = 1 ms is affected)"""
    import math
    return math.ceil(x * 1000 - 1e-6) / 1000


def pauses(rng, T: float) -> float:
    eps = 0.001
    return rng.choice([0.0, 0.0, eps, 0.01, max(T - eps, 0.0), T, T + eps, 2 * T, _ms(T / 2)])


def h1_req_bytes(k: int, method: str = "GET", body_len: int = 0, close: bool = False, version: str = "1.1", host: str = "x") -> Tuple[str, List[str]]:
    """(head bytes, body chunk list) of request k as latin-1 strings"""
    hs = [(b"host", host.encode())]
    if close:
        hs.append((b"connection", b"close"))
    if method == "POST":
        hs.append((b"content-length", str(body_len).encode()))
    head = C.h1_request(method, f"/r{k}", hs, b"", version=version)
    chunks = []
    left = body_len
    while left > 0:
        n = min(10, left)
        chunks.append("x" * n)
        left -= n
    return b2s(head), chunks


def gen_h1(rng, T: float, aggressive_close: bool = True) -> dict:
    n = rng.choice([1, 1, 2, 2, 3])
    pipelined = rng.random() < 0.3
    cap = rng.choice([10, 10, 10, 2, 1])
    names = ["good"] if rng.random() < 0.12 else None
    client: List[list] = []
    apps = []
    buf = ""
    for k in range(n):
        method = rng.choice(["GET", "GET", "POST"])
        blen = rng.choice([0, 10, 30, 50]) if method == "POST" else 0
        close = rng.random() < 0.15
        version = "1.0" if rng.random() < 0.08 else "1.1"
        host = "good" if names is None or rng.random() < 0.6 else "bad"
        head, chunks = h1_req_bytes(k, method, blen, close, version, host)
        kind = rng.choice(APP_KINDS)
        apps.append(app_script(kind, rng.choice([0.01, 1.0, _ms(T / 2), T + 0.5])))
        if pipelined:
            buf += head + "".join(chunks)
            continue
        if client and rng.random() < 0.7:
            client.append(["sleep", pauses(rng, T)])
        if rng.random() < 0.2 and len(head) > 8:
            cut = rng.randrange(1, len(head) - 1)
            client += [["send", head[:cut]], ["sleep", pauses(rng, T)], ["send", head[cut:]]]
        else:
            client.append(["send", head])
        for c in chunks:
            if rng.random() < 0.3:
                client.append(["sleep", pauses(rng, T)])
            client.append(["send", c])
    if pipelined:
        client.append(["send", buf])
    client.append(["sleep", rng.choice([0.0, 0.01, 1.0, _ms(T / 2), T + 1])])
    # the close source and where it strikes
    closer = rng.choice(["eof", "eof", "reset", "fail_eof", "none", "none", "terminate"])
    sc: Dict[str, Any] = {"proto": "h1", "T": T, "cap": cap, "server_names": names, "apps": apps, "terminate_at": None}
    if closer in ("eof", "reset", "fail_eof") and aggressive_close:
        pos = rng.randrange(1, len(client) + 1)
        ins = [[closer]] if closer != "fail_eof" else [["fail_writes"], ["sleep", rng.choice([0.0, 0.5, 1.5])], ["reset"]]
        client[pos:pos] = ins
    elif closer == "terminate":
        sc["terminate_at"] = rng.choice([0.0, 0.005, 0.5, 1.0, _ms(T / 2), T + 1])
    client += [["sleep", 2 * T + 5], ["eof"]]
    sc["client"] = client
    sc["tail"] = 2 * T + 10
    return sc


WS_APPS = {
    "accept_echo_close": [["recv"], ["send", {"type": "websocket.accept"}], ["recv"], ["send", {"type": "websocket.send", "text": "x"}], ["send", {"type": "websocket.close"}]],
    "accept_until_disconnect": [["recv"], ["send", {"type": "websocket.accept"}], ["recv_until_disconnect"], ["send", {"type": "websocket.send", "text": "late"}]],
    "reject_403": [["recv"], ["send", {"type": "websocket.close"}], ["recv"]],
    "reject_http": [["recv"], ["send", {"type": "websocket.http.response.start", "status": 401, "headers": []}], ["send", {"type": "websocket.http.response.body", "body": b"no"}]],
    "exit_handshake": [["recv"]],
    "raise_connected": [["recv"], ["send", {"type": "websocket.accept"}], ["raise"]],
    "slow_accept": [["recv"], ["sleep", 1.0], ["send", {"type": "websocket.accept"}], ["recv_until_disconnect"]],
    "wait_disconnect_unaccepted": [["recv"], ["recv_until_disconnect"], ["send", {"type": "websocket.accept"}]],
}


def gen_ws(rng, T: float) -> dict:
    app = rng.choice(sorted(WS_APPS))
    wc = C.WsClient(rng=rng, path="/r0")
    valid = rng.random() < 0.85
    hs = wc.default_headers("h1")
    if not valid:
        hs = [h for h in hs if h[0].lower() != b"sec-websocket-key"]
    names = ["good"] if rng.random() < 0.1 else None
    if names is not None:
        hs = [(n, (b"bad" if n.lower() == b"host" else v)) for n, v in hs]
    client: List[list] = [["send", b2s(wc.h1_request(hs))]]
    from wsproto import ConnectionType
    from wsproto.connection import Connection
    wc.conn = Connection(ConnectionType.CLIENT, [])
    steps = rng.randrange(0, 4)
    for _ in range(steps):
        if rng.random() < 0.6:
            client.append(["sleep", rng.choice([0.0, 0.01, 0.5, 1.5, _ms(T / 2)])])
        what = rng.choice(["msg", "msg", "ping", "close", "eof", "reset"])
        if what == "msg":
            client.append(["send", b2s(wc.message("text", [b"hi"]))])
        elif what == "ping":
            client.append(["send", b2s(wc.ping(b"p"))])
        elif what == "close":
            client.append(["send", b2s(wc.close(1000))])
            break
        else:
            client.append([what])
            break
    client += [["sleep", 2 * T + 5], ["eof"]]
    return {"proto": "h1", "T": T, "cap": rng.choice([10, 10, 2]), "server_names": names, "apps": [WS_APPS[app]], "terminate_at": None,
            "client": client, "tail": 2 * T + 10, "ws_app": app}


def gen_h2(rng, T: float, shutdown: bool = False) -> dict:
    n = rng.choice([1, 2, 2, 3])
    client: List[list] = []
    apps = []
    names = ["x"] if rng.random() < 0.1 else None
    for k in range(n):
        body = rng.choice([None, None, "abc", "x" * 30])
        host = "x" if names is None or rng.random() < 0.6 else "bad"
        client.append(["h2req", f"/r{k}", body, True, host])
        apps.append(app_script(rng.choice([a for a in APP_KINDS if a != "raise_mid"]), rng.choice([0.01, 1.0, _ms(T / 2), T + 0.5])))
        if rng.random() < 0.6:
            client.append(["sleep", pauses(rng, T)])
    closer = rng.choice(["rst", "rst", "eof", "goaway", "none", "none", "reset", "fail_then_leave"])
    if closer == "rst":
        client.insert(rng.randrange(1, len(client) + 1), ["h2rst", 0])
    elif closer in ("eof", "reset"):
        client.insert(rng.randrange(1, len(client) + 1), [closer])
    elif closer == "goaway":
        client.append(["h2goaway"])
    elif closer == "fail_then_leave":
        # the transport starts failing writes while the reader still runs (requests without a body: no flow-control
        # acknowledgement is written for them); whatever the client sent before it left is still read, then the end
        for a in client:
            if a[0] == "h2req":
                a[2] = None
        pos = rng.randrange(1, len(client) + 1)
        client.insert(pos, ["fail_writes"])
        # (environment: the reading side learns of the loss within keep_alive_timeout of the first failed write)
        left = _ms(0.9 * T)
        for a in client[pos + 1:] + [["sleep", rng.choice([0.0, 0.5, 1.5])]]:
            if a[0] == "sleep":
                a[1] = min(a[1], left)
                left -= a[1]
        client += [["sleep", min(rng.choice([0.0, 0.5, 1.5]), max(left, 0.0))], [rng.choice(["eof", "reset"])]]
    sc: Dict[str, Any] = {"proto": "h2", "T": T, "cap": rng.choice([10, 10, 2]), "server_names": names, "apps": apps, "terminate_at": None}
    if shutdown and closer == "none" and rng.random() < 0.5:
        # shutdown begins at some point of the history (idle, or while streams are open); the client does not react to the GOAWAY
        sc["terminate_at"] = rng.choice([0.0, 0.005, 0.5, 1.0, _ms(T / 2), T + 0.25, T + 1])
    r = rng.random()
    if r < 0.3:
        # cleartext connection, HTTP/2 by prior knowledge: the preface on its own or in one read with the first request
        sc["h2_via"] = "prior"
        if rng.random() < 0.5:
            client[0:0] = [["h2preface"]] + ([["sleep", pauses(rng, T)]] if rng.random() < 0.6 else [])
    elif r < 0.45 and client[0][0] == "h2req":
        # cleartext connection, the first request asks for the h2c upgrade (no body) and is served as stream 1
        sc["h2_via"] = "h2c"
        client[0] = ["h2c_req", client[0][1], client[0][4]]
    client += [["sleep", 2 * T + 5], ["eof"]]
    sc.update({"client": client, "tail": 2 * T + 10})
    return sc


def canonical(T: float) -> List[dict]:
    """the canonical histories of C07: a pause is placed at every point of each"""
    h0, _ = h1_req_bytes(0)
    h1, _ = h1_req_bytes(1)
    hp, chunks = h1_req_bytes(0, "POST", 20)
    hbad, _ = h1_req_bytes(0, host="bad")
    hclose, _ = h1_req_bytes(0, close=True)
    resp = app_script("read_respond", 0)
    slow = app_script("sleep_respond", T + 0.5)
    wc = C.WsClient(path="/r0")
    ws_req = b2s(wc.h1_request())
    base = {"proto": "h1", "T": T, "cap": 10, "server_names": None, "terminate_at": None, "tail": 2 * T + 10}
    out = [
        {**base, "name": "nothing", "client": [], "apps": [resp]},
        {**base, "name": "partial_head", "client": [["send", h0[:9]]], "apps": [resp]},
        {**base, "name": "get", "client": [["send", h0]], "apps": [resp]},
        {**base, "name": "two_gets", "client": [["send", h0], ["send", h1]], "apps": [resp]},
        {**base, "name": "post_chunks", "client": [["send", hp]] + [["send", c] for c in chunks], "apps": [resp]},
        {**base, "name": "slow_app", "client": [["send", h0]], "apps": [slow]},
        {**base, "name": "conn_close", "client": [["send", hclose]], "apps": [resp]},
        {**base, "name": "bad_name_404", "server_names": ["good"], "client": [["send", hbad]], "apps": [resp]},
        {**base, "name": "malformed", "client": [["send", "BLAH\r\n\r\n"]], "apps": [resp]},
        {**base, "name": "pipelined", "client": [["send", h0 + h1]], "apps": [app_script("sleep_respond", 1.0)]},
        {**base, "name": "websocket", "client": [["send", ws_req]], "apps": [WS_APPS["accept_until_disconnect"]]},
        {**base, "name": "h2_get", "proto": "h2", "client": [["h2req", "/r0", None, True]], "apps": [resp]},
        {**base, "name": "h2_two_rst", "proto": "h2", "client": [["h2req", "/r0", None, True], ["h2req", "/r1", "abc", True], ["h2rst", 0]],
         "apps": [app_script("wait_disconnect", 0), resp]},
        # the client resets the only stream; its streaming application ignores the disconnect and ends the response 0.6 T later
        {**base, "name": "h2_rst_late_finish", "proto": "h2", "client": [["h2req", "/r0", None, True], ["h2rst", 0]],
         "apps": [app_script("finish_after_disconnect", _ms(0.6 * T))]},
        {**base, "name": "h1_reset_late_finish", "client": [["send", h0], ["reset"]], "apps": [app_script("finish_after_disconnect", _ms(0.6 * T))]},
        # cleartext HTTP/2 by prior knowledge: preface and first request in ONE read / the preface on its own first; the response
        # takes longer than the timeout
        {**base, "name": "h2_prior_slow", "proto": "h2", "h2_via": "prior", "client": [["h2req", "/r0", None, True]], "apps": [slow]},
        {**base, "name": "h2_prior_preface_then_slow", "proto": "h2", "h2_via": "prior", "client": [["h2preface"], ["h2req", "/r0", None, True]], "apps": [slow]},
        {**base, "name": "h2_slow", "proto": "h2", "client": [["h2req", "/r0", None, True]], "apps": [slow]},
        {**base, "name": "h2c_slow", "proto": "h2", "h2_via": "h2c", "client": [["h2c_req", "/r0"]], "apps": [slow]},
        {**base, "name": "h2c_then_get", "proto": "h2", "h2_via": "h2c", "client": [["h2c_req", "/r0"], ["h2req", "/r1", None, True]], "apps": [resp]},
        # … the preface arrives after the connection has been idle for 0.6 T
        {**base, "name": "h2_prior_late_preface", "proto": "h2", "h2_via": "prior", "client": [["sleep", _ms(0.6 * T)], ["h2preface"], ["h2req", "/r0", None, True]], "apps": [resp]},
    ]
    # two requests in one read, the reader parks behind the first; its application abandons a response it has started (the
    # connection cannot be recycled: `Closed`, the parked reader must be released and the handler must finish)
    out.append({**base, "name": "pipelined_abandoned", "client": [["send", h0 + h1]], "apps": [app_script("raise_mid", 0)]})
    # the first bytes of the NEXT request's head arrive before the current response is complete (the application answers after
    # min(0.5 s, T / 2)) - in a read of their own or in the read that carried the first request - cut at every point of the head
    later = app_script("sleep_respond", min(0.5, _ms(T / 2)))
    cuts = range(1, len(h1)) if T == 1 else sorted({1, 4, len(h1) // 2, len(h1) - 3, len(h1) - 1})
    for cut in cuts:
        out.append({**base, "name": f"pipelined_partial_head@{cut}", "client": [["send", h0], ["send", h1[:cut]]], "apps": [later]})
        out.append({**base, "name": f"pipelined_partial_head_one_read@{cut}", "client": [["send", h0 + h1[:cut]]], "apps": [later]})
    # shutdown begins (`terminate_at`) while nothing / a request / a WebSocket is in progress; the client does not react to it (an
    # HTTP/2 client that ignores the GOAWAY keeps the connection open and sends nothing).  The response takes T + 0.5 s, shutdown
    # begins T / 2 + 0.1 s after the accept: with the pause behind the request that is in mid-flight, with a pause of about T
    # before it the connection is idle (or already closed) when shutdown begins
    mid = _ms(T / 2) + 0.1
    out += [
        {**base, "name": "shutdown_idle", "terminate_at": mid, "client": [], "apps": [resp]},
        {**base, "name": "h1_shutdown_inflight", "terminate_at": mid, "client": [["send", h0]], "apps": [slow]},
        {**base, "name": "ws_shutdown_open", "terminate_at": mid, "client": [["send", ws_req]], "apps": [WS_APPS["accept_until_disconnect"]]},
        {**base, "name": "h2_shutdown_inflight", "proto": "h2", "terminate_at": mid, "client": [["h2req", "/r0", None, True]], "apps": [slow]},
        {**base, "name": "h2_prior_shutdown_inflight", "proto": "h2", "h2_via": "prior", "terminate_at": mid, "client": [["h2req", "/r0", None, True]], "apps": [slow]},
        {**base, "name": "h2c_shutdown_inflight", "proto": "h2", "h2_via": "h2c", "terminate_at": mid, "client": [["h2c_req", "/r0"]], "apps": [slow]},
        # two streams: one has ended before shutdown begins, the other - the last open stream - ends after
        {**base, "name": "h2_two_shutdown_last_inflight", "proto": "h2", "terminate_at": mid,
         "client": [["h2req", "/r0", None, True], ["h2req", "/r1", "abc", True]], "apps": [resp, slow]},
        # … and a streaming response in mid-body when shutdown begins
        {**base, "name": "h2_shutdown_streaming", "proto": "h2", "terminate_at": mid, "client": [["h2req", "/r0", None, True]],
         "apps": [app_script("start_sleep_body", T + 0.5)]},
    ]
    # the first bytes were sent before the server accepted the connection (they sit in the socket buffer when `TCPServer.run()`
    # starts: the first read returns them without waiting).  With a timeout of (about) 0 that decides whether a request is served
    # at all: the idle task started with the connection is due at once and races the reader
    if T <= 0.001:
        for h in list(out):
            if "@" not in h["name"] and h["client"] and h["client"][0][0] in ("send", "h2req", "h2preface"):
                for sched in (PRELOAD_SCHEDS if T == 0 else PRELOAD_SCHEDS[:1]):
                    out.append({**h, "name": f"{h['name']}+preloaded" + (f"+sched{sched}" if sched else ""), "preload": 1, "sched": sched})
    return out


# trio runs the tasks of one batch in random order; the preloaded histories (reader against an idle task that is due at once) are
# run under several seeds of its scheduler
PRELOAD_SCHEDS = (0, 3, 5)


def closed_twice_corpus() -> List[dict]:
    """HTTP/2: `Closed` is reported more than once and streams are opened in between.  A transport write fails while the
    reader still runs (the failed write reports Closed), requests the client had sent before it left are then read and
    given to new application instances, finally the reader reaches the end (EOF / reset) and reports Closed again."""
    out: List[dict] = []
    for first in ("sleep_respond", "start_sleep_body"):
        for second in ("wait_disconnect", "respond_then_wait", "read_respond"):
            for leave in ("eof", "reset"):
                for via in ("alpn", "prior"):
                    if via == "prior" and (first, leave) != ("sleep_respond", "eof"):
                        continue
                    sc = {"family": "closed_twice", "key": ["h2", first, second, leave, via], "proto": "h2", "T": 1, "cap": 10, "server_names": None,
                          "terminate_at": None, "apps": [app_script(first, 0.5), app_script(second, 0.2)],
                          "client": [["h2req", "/r0", None, True], ["sleep", 0.1], ["fail_writes"], ["sleep", 1.0], ["h2req", "/r1", None, True],
                                     ["sleep", 0.5], [leave], ["sleep", 3]], "tail": 8}
                    if via == "prior":
                        sc["h2_via"] = "prior"
                    out.append(sc)
    # two streams opened after the failed write, and one opened before it that is still waiting
    out.append({"family": "closed_twice", "key": ["h2", "three_streams"], "proto": "h2", "T": 1, "cap": 10, "server_names": None, "terminate_at": None,
                "apps": [app_script("sleep_respond", 0.5), app_script("wait_disconnect", 0), app_script("wait_disconnect", 0), app_script("respond_then_wait", 0)],
                "client": [["h2req", "/r0", None, True], ["h2req", "/r1", None, True], ["sleep", 0.1], ["fail_writes"], ["sleep", 1.0],
                           ["h2req", "/r2", None, True], ["h2req", "/r3", None, True], ["sleep", 0.5], ["eof"], ["sleep", 3]], "tail": 8})
    return out


def blocked_write_corpus() -> List[dict]:
    """the peer does not read (back-pressure): an application's write is accepted by the transport and does not complete; then
    the server decides to close (the request can no longer be completed: malformed chunk header after the response has
    started), or the peer half-closes / resets / reads again.  HTTP/1 requests and a WebSocket."""
    out: List[dict] = []
    head = b2s(C.h1_request("POST", "/r0", [(b"host", b"x"), (b"transfer-encoding", b"chunked")], b""))
    wc = C.WsClient(path="/r0")
    ws_req = b2s(wc.h1_request())
    endings = {"malformed": [["send", "this is not a chunk size\r\n\r\n"]], "eof": [["eof"]], "reset": [["reset"]],
               "malformed_then_reads": [["send", "this is not a chunk size\r\n\r\n"], ["sleep", 0.5], ["resume_writes"]],
               "reads_again": [["resume_writes"]]}
    for app in ("stream_three", "start_sleep_body", "respond"):
        for name, end in endings.items():
            out.append({"family": "blocked_write", "key": ["h1", app, name], "proto": "h1", "T": 1, "cap": 10, "server_names": None, "terminate_at": None,
                        "apps": [app_script(app, 0.2)], "client": [["pause_writes"], ["send", head], ["sleep", 0.3]] + end + [["sleep", 4], ["eof"]], "tail": 8})
    for name in ("eof", "reset", "reads_again"):
        out.append({"family": "blocked_write", "key": ["ws", "accept_echo_close", name], "proto": "h1", "T": 1, "cap": 10, "server_names": None, "terminate_at": None,
                    "apps": [WS_APPS["accept_echo_close"]], "client": [["pause_writes"], ["send", ws_req], ["sleep", 0.3]] + endings[name] + [["sleep", 4], ["eof"]], "tail": 8})
    return out


def write_fault_corpus() -> List[dict]:
    """the peer resets at EVERY write of a response (head, each chunk, the terminator / end of message, error responses, the
    websocket 101 and frames) on HTTP/1; on HTTP/2 the client goes away / resets the stream / sends GOAWAY while the end of
    the body waits for flow-control credit (client window 0)"""
    out: List[dict] = []
    head, chunks = h1_req_bytes(0, "POST", 10)
    wc = C.WsClient(path="/r0")
    ws_req = b2s(wc.h1_request())
    h1_apps = {"stream_three": (app_script("stream_three", 0), 5), "read_respond": (app_script("read_respond", 0), 4),
               "return_early": (app_script("return_early", 0), 3), "raise_mid": (app_script("raise_mid", 0), 3),
               "start_sleep_body": (app_script("start_sleep_body", 0.2), 4)}
    for name, (script, kmax) in h1_apps.items():
        for k in range(1, kmax + 1):
            out.append({"family": "write_fault", "key": ["h1", name, k], "proto": "h1", "T": 1, "cap": 10, "server_names": None, "terminate_at": None,
                        "fail_at_write": k, "apps": [script], "client": [["send", head + "".join(chunks)], ["sleep", 3], ["eof"]], "tail": 8})
    for k in (1, 2):
        out.append({"family": "write_fault", "key": ["h1", "404", k], "proto": "h1", "T": 1, "cap": 10, "server_names": ["good"], "terminate_at": None,
                    "fail_at_write": k, "apps": [app_script("respond", 0)], "client": [["send", h1_req_bytes(0, host="bad")[0]], ["sleep", 3], ["eof"]], "tail": 8})
        out.append({"family": "write_fault", "key": ["ws", "accept_echo_close", k], "proto": "h1", "T": 1, "cap": 10, "server_names": None, "terminate_at": None,
                    "fail_at_write": k, "apps": [WS_APPS["accept_echo_close"]], "client": [["send", ws_req], ["sleep", 3], ["eof"]], "tail": 8})
    for name in ("respond", "stream_three", "return_early"):
        for leave in ("eof", "reset", "h2rst", "h2goaway"):
            act = [leave] if leave in ("eof", "reset", "h2goaway") else ["h2rst", 0]
            out.append({"family": "write_fault", "key": ["h2", name, leave], "proto": "h2", "T": 1, "cap": 10, "server_names": None, "terminate_at": None,
                        "h2_window": 0, "apps": [app_script(name, 0)], "client": [["h2req", "/r0", None, True], ["sleep", 0.5], act, ["sleep", 3], ["eof"]], "tail": 8})
    return out


def ws_sequence_fault_corpus() -> List[dict]:
    """the peer resets at EVERY write of the sequences in which a WebSocket stream answers and closes on its own: the 404 / 400
    to the handshake, the 400 for a frame that arrives before the acceptance (application still working on the handshake /
    waiting for its disconnect), the 500 for an application that has finished, the 403 / the application's own rejection, the
    101 and the close frame 1011 of an application that dies, the echo of the client's close frame"""
    from wsproto import ConnectionType
    from wsproto.connection import Connection
    out: List[dict] = []
    wc = C.WsClient(path="/r0")
    hs = wc.default_headers("h1")
    good = b2s(wc.h1_request(hs))
    no_key = b2s(wc.h1_request([h for h in hs if h[0].lower() != b"sec-websocket-key"]))
    bad_host = b2s(wc.h1_request([(n, (b"bad" if n.lower() == b"host" else v)) for n, v in hs]))
    wc.conn = Connection(ConnectionType.CLIENT, [])
    frame = b2s(wc.message("text", [b"hi"]))
    close = b2s(wc.close(1000))

    def add(name: str, app: str, client: List[list], ks: tuple, names: Optional[List[str]] = None) -> None:
        for k in ks:
            out.append({"family": "ws_sequence_fault", "key": ["ws", name, k], "proto": "h1", "T": 1, "cap": 10, "server_names": names, "terminate_at": None,
                        "fail_at_write": k, "apps": [WS_APPS[app]], "client": client + [["sleep", 3], ["eof"]], "tail": 8})
    add("404", "accept_echo_close", [["send", bad_host]], (1, 2), ["good"])
    add("400", "accept_echo_close", [["send", no_key]], (1, 2))
    add("early_data_400", "slow_accept", [["send", good], ["sleep", 0.1], ["send", frame]], (1, 2))
    add("early_data_400_app_waits", "wait_disconnect_unaccepted", [["send", good], ["sleep", 0.1], ["send", frame]], (1, 2))
    add("exit_500", "exit_handshake", [["send", good]], (1, 2))
    add("reject_403", "reject_403", [["send", good]], (1, 2))
    add("reject_http", "reject_http", [["send", good]], (1, 2, 3))
    add("raise_connected", "raise_connected", [["send", good]], (1, 2))
    add("client_close_echo", "accept_until_disconnect", [["send", good], ["sleep", 0.1], ["send", close]], (1, 2))
    add("message_then_close_echo", "accept_until_disconnect", [["send", good], ["sleep", 0.1], ["send", frame], ["sleep", 0.1], ["send", close]], (2,))
    return out


def with_pause(h: dict, pos: int, d: float, then: Optional[str] = None) -> dict:
    c = [list(a) for a in h["client"]]
    c.insert(pos, ["sleep", d])
    if then:
        c.insert(pos + 1, [then])
    T = h["T"]
    out = {**h, "client": c + [["sleep", 2 * T + 5], ["eof"]], "pause": [pos, d, then]}
    if h.get("preload"):
        out["preload"] = min(int(h["preload"]), pos)      # only what precedes the pause was sent before the accept
    return out


# --------------------------------------------------------------------------------------------------------------
# running cases: implementation + model, comparison, monitors
# --------------------------------------------------------------------------------------------------------------
def revive(o: Any) -> Any:
    """undo the JSON transport of a case (bytes as {"$b": latin1}; header pairs as tuples)"""
    if isinstance(o, dict):
        if set(o) == {"$b"}:
            return s2b(o["$b"])
        return {k: revive(v) for k, v in o.items()}
    if isinstance(o, list):
        r = [revive(x) for x in o]
        if len(r) == 2 and all(isinstance(x, bytes) for x in r):
            return tuple(r)
        return r
    return o


def busy_intervals(an: dict) -> List[list]:
    """[start, end|None, instance]: a complete head has arrived and its response has not ended / the WebSocket is not closed
    (a stream the peer has abandoned - disconnect handed over - is no longer in progress)"""
    out = []
    for x in an["instances"].values():
        ends = [t for t in (x["resp_end"], x["disc_at"]) if t is not None]
        if x["kind"] == "ws":
            ends = [t for t in (x["disc_at"],) if t is not None] + [a[0] for a in x["access"] if a[1] is not None and a[1] >= 400]
            ends += [s[0] for s in x["sends"] if s[1] == "websocket.close" and s[2] == "ok"]
        out.append([x["head_at"], min(ends) if ends else None, x["i"]])
    return out


def run_cases(ctx, cases: List[dict], monitor, workers=("asyncio", "trio"), tag: str = "") -> None:
    pending: List[tuple] = []

    def flush() -> None:
        if not pending:
            return
        outs = ctx.model([p[0] for p in pending])
        for (rq, case, worker, an), o in zip(pending, outs or [None] * len(pending)):
            if o is None:
                continue
            ctx.disagreements_checked += 1
            m = o.get("ok")
            if m is None:
                raise RuntimeError(f"hcdriver: {o}")
            short = {k: v for k, v in case.items()}
            if not m.get("accepted"):
                r = m["rejected"]
                ctx.disagree("conn.accept", {**short, "worker": worker}, {"rejected_label": r["label"], "index": r["index"], "pending": r["pending"][:6],
                                                                        "state": {k: r["state"].get(k) for k in ("rpc", "timer", "live", "now", "blocked", "closers")} if r.get("state") else None},
                             {"labels_before": rq["labels"][max(0, r["index"] - 8): r["index"] + 1]})
            else:
                ctx.traces_validated += 1
                # the observation must agree with one of the model runs that the labels leave possible
                diffs = min((compare({"final": f}, an) for f in (m.get("finals") or [m["final"]])), key=len)
                if diffs:
                    ctx.disagree("conn.projection", {**short, "worker": worker}, diffs[:6], {"closed_at": an["closed_at"], "done_at": an["done_at"]})
        pending.clear()

    for case in cases:
        sc = revive(case)
        for worker in workers:
            res = run_real(worker, sc)
            ctx.evaluations += 1
            if res.get("stuck_session"):
                raise RuntimeError(f"session did not report: {case}")
            rq, facts = to_trace(res, sc, worker)
            an = analyse(res, sc, facts)
            ctx.count("worker", worker)
            ctx.count("proto", sc["proto"])
            ctx.count("T", sc["T"])
            for x in an["instances"].values():
                ctx.count("instance.kind", x["kind"])
            ctx.count("closed_by", "server" if an["closed_at"] is not None and (an["read_gone_at"] is None or an["closed_at"] < an["read_gone_at"]) else
                      ("peer" if an["read_gone_at"] is not None else "none"))
            monitor(ctx, {**case, "worker": worker}, sc, an)
            if an["overtaken"]:
                # outside the model's runtime assumption (blocked putters keep their place): judged by the monitors only
                ctx.count("not_replayed", "put_overtaken_" + worker)
                continue
            if sc["proto"] == "h2" and any(p[1] == "disconnect" for p in an["blocked_puts"]):
                # F08 on HTTP/2: `handle(Closed)` is stuck in its loop before the stream buffers are released, so other
                # streams' senders hang in drain(); the model does not follow the connection beyond that known defect
                ctx.count("not_replayed", "f08_h2_" + worker)
                continue
            if sc["proto"] == "h2" and rq.get("h2_read_after_close"):
                # bytes that had arrived before the server closed the transport are handed to the HTTP/2 reader afterwards: what
                # it does with them ends in a failed flush, and HTTP/2 flushes are not part of the observation (partial, as HTTP/2
                # write failures in general); judged by the monitors only
                ctx.count("not_replayed", "h2_read_after_close_" + worker)
                continue
            pending.append((rq, case, worker, an))
            if len(pending) >= 40:
                flush()
    flush()
