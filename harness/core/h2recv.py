"""C04 support: HTTP/2 frame grammar (hyperframe + hpack, so that legal-but-rare and illegal shapes can both be written),
taps on the third-party classes `h2.connection.H2Connection` and `priority.PriorityTree`, the direct drive of the real
`H2Protocol` with scripted applications, and the translation of a tap log into the operation list of the Lean model
`HC.Proto.H2Recv` (driver command `c04.h2recv`).

A tap log is a flat list of entries in true execution order.  Markers split it into atomic segments, one per model
operation: `evBegin` (the iterator over the list `receive_data` returned hands the next event to `_handle_events`),
`next` (`next(self.priority)` in the send task), `ss+` / `ss-` (a `stream_send` call, possibly nested inside an event when a
stream reacts to input).  Everything else inside a segment is a library call with its outcome: the oracle fields of the
model operation and, at the same time, the calls the model must predict."""
from __future__ import annotations

import asyncio
from typing import Any, Dict, List, Optional, Tuple

import h2.connection
import h2.events
import h2.exceptions
import h2.settings
import priority
from hpack import Encoder
from hyperframe.frame import (ContinuationFrame, DataFrame, GoAwayFrame, HeadersFrame, PingFrame, PriorityFrame, RstStreamFrame,
                              SettingsFrame, WindowUpdateFrame)

from .framework import b2s

PREFACE = b"PRI * HTTP/2.0\r\n\r\nSM\r\n\r\n"

# classes the Lean model knows (`Exn.cls`); anything else is mapped to the first known class of its MRO
KNOWN = ["KeyError", "UnboundLocalError", "UnicodeDecodeError", "RecursionError", "TypeError", "AttributeError",
         "priority.MissingStreamError", "priority.DuplicateStreamError", "priority.TooManyStreamsError", "priority.PriorityLoop",
         "priority.BadWeightError", "priority.PseudoStreamError", "priority.DeadlockError",
         "h2.ProtocolError", "h2.StreamClosedError", "h2.NoSuchStreamError", "h2.FlowControlError", "h2.TooManyStreamsError",
         "h2.NoAvailableStreamIDError", "h2.FrameTooLargeError", "BufferCompleteError"]


def qual(c: type) -> str:
    top = c.__module__.split(".")[0]
    return c.__name__ if top in ("builtins", "hypercorn") else f"{top}.{c.__name__}"


def cls_of(e: BaseException) -> str:
    for c in type(e).__mro__:
        if qual(c) in KNOWN:
            return qual(c)
    return qual(type(e))


# ------------------------------------------------------------------------------------------------------------
# frame grammar
# ------------------------------------------------------------------------------------------------------------
class Frames:
    """serialiser with its own HPACK encoder state (one per connection)"""

    def __init__(self) -> None:
        self.enc = Encoder()

    def preface(self, settings: Optional[Dict[int, int]] = None) -> bytes:
        f = SettingsFrame(0)
        f.settings = dict(settings or {})
        return PREFACE + f.serialize()

    def settings(self, settings: Optional[Dict[int, int]] = None, ack: bool = False) -> bytes:
        f = SettingsFrame(0)
        if ack:
            f.flags.add("ACK")
        else:
            f.settings = dict(settings or {})
        return f.serialize()

    def headers(self, sid: int, headers: List[Tuple[Any, Any]], end_stream: bool = True, pad: int = 0, prio: Optional[Tuple[int, int, bool]] = None,
                cont: int = 0) -> bytes:
        block = self.enc.encode([(n, v) for n, v in headers])
        pieces = [block]
        if cont and len(block) > cont:
            k = max(1, len(block) // (cont + 1))
            pieces = [block[i:i + k] for i in range(0, len(block), k)]
        f = HeadersFrame(sid)
        f.data = pieces[0]
        if end_stream:
            f.flags.add("END_STREAM")
        if len(pieces) == 1:
            f.flags.add("END_HEADERS")
        if pad:
            f.flags.add("PADDED")
            f.pad_length = pad
        if prio is not None:
            f.flags.add("PRIORITY")
            f.depends_on, f.stream_weight, f.exclusive = prio
        out = f.serialize()
        for i, p in enumerate(pieces[1:]):
            c = ContinuationFrame(sid)
            c.data = p
            if i == len(pieces) - 2:
                c.flags.add("END_HEADERS")
            out += c.serialize()
        return out

    def data(self, sid: int, data: bytes, end_stream: bool = False, pad: int = 0) -> bytes:
        f = DataFrame(sid)
        f.data = data
        if end_stream:
            f.flags.add("END_STREAM")
        if pad:
            f.flags.add("PADDED")
            f.pad_length = pad
        return f.serialize()

    def priority(self, sid: int, dep: int, weight: int = 15, exclusive: bool = False) -> bytes:
        f = PriorityFrame(sid)
        f.depends_on, f.stream_weight, f.exclusive = dep, weight, exclusive
        return f.serialize()

    def rst(self, sid: int, code: int = 8) -> bytes:
        f = RstStreamFrame(sid)
        f.error_code = code
        return f.serialize()

    def window_update(self, sid: int, inc: int) -> bytes:
        f = WindowUpdateFrame(sid)
        f.window_increment = inc
        return f.serialize()

    def ping(self, ack: bool = False) -> bytes:
        f = PingFrame(0)
        f.opaque_data = b"12345678"
        if ack:
            f.flags.add("ACK")
        return f.serialize()

    def goaway(self, last: int = 0, code: int = 0) -> bytes:
        f = GoAwayFrame(0)
        f.last_stream_id, f.error_code = last, code
        return f.serialize()


def req_headers(kind: str, rng=None, path: str = "/") -> List[Tuple[Any, Any]]:
    """request header lists by kind; the odd kinds are the property's class U and its neighbours"""
    base = [(":scheme", "http"), (":authority", "x")]
    if kind == "get":
        return [(":method", "GET")] + base + [(":path", path)]
    if kind == "post":
        return [(":method", "POST")] + base + [(":path", path), ("content-type", "text/plain")]
    if kind == "head":
        return [(":method", "HEAD")] + base + [(":path", path)]
    if kind == "connect_plain":               # RFC 9113 8.5: no :scheme, no :path
        return [(":method", "CONNECT"), (":authority", "x:443")]
    if kind == "connect_ws":                  # RFC 8441 extended CONNECT
        return [(":method", "CONNECT"), (":protocol", "websocket")] + base + [(":path", path), ("sec-websocket-version", "13")]
    if kind == "connect_ws_bad":              # extended CONNECT that is not a valid websocket handshake (→ 400 by the stream)
        return [(":method", "CONNECT"), (":protocol", "websocket")] + base + [(":path", path)]
    if kind == "connect_lower":               # `connect` is not CONNECT for h2, but is for hypercorn's upper()
        return [(":method", "connect")] + base + [(":path", path)]
    if kind == "nonascii_path":
        return [(":method", "GET")] + base + [(":path", b"/caf\xc3\xa9")]
    if kind == "nonascii_path_ws":
        return [(":method", "CONNECT"), (":protocol", "websocket")] + base + [(":path", b"/\xff"), ("sec-websocket-version", "13")]
    if kind == "nonascii_method":
        return [(":method", b"G\xc3\x89T")] + base + [(":path", path)]
    if kind == "nonascii_authority":
        return [(":method", "GET"), (":scheme", "http"), (":authority", b"\xffx"), (":path", path)]
    if kind == "te_trailers":
        return [(":method", "POST")] + base + [(":path", path), ("te", "trailers")]
    if kind == "odd_method":
        return [(":method", "BREW")] + base + [(":path", "*")]
    if kind == "query":
        return [(":method", "GET")] + base + [(":path", "/a%2Fb?x=1&y=%ff")]
    if kind == "no_authority_host":
        return [(":method", "GET"), (":scheme", "http"), (":path", path), ("host", "x")]
    if kind == "big_headers":
        return [(":method", "GET")] + base + [(":path", path)] + [("x-h%d" % i, "v" * 50) for i in range(40)]
    raise ValueError(kind)


ODD_KINDS = ["connect_plain", "nonascii_path", "nonascii_path_ws", "nonascii_method"]
PLAIN_KINDS = ["get", "post", "head", "te_trailers", "odd_method", "query", "no_authority_host", "big_headers", "nonascii_authority"]
WS_KINDS = ["connect_ws", "connect_ws_bad", "connect_lower"]


# ------------------------------------------------------------------------------------------------------------
# taps
# ------------------------------------------------------------------------------------------------------------
def ev_json(ev) -> dict:
    if isinstance(ev, h2.events.RequestReceived):
        method = path = None
        for n, v in ev.headers:
            if n == b":method":
                method = v
            elif n == b":path":
                path = v
        is_connect = False
        if method is not None and method.isascii():
            is_connect = method.decode("ascii").upper() == "CONNECT"
        return {"k": "request", "sid": ev.stream_id, "hasMethod": method is not None, "methodAscii": method is None or method.isascii(),
                "isConnect": is_connect, "hasPath": path is not None, "pathAscii": path is None or path.isascii(),
                # the contents (C01 `h2deliver.run`; ignored by `c04.h2recv`)
                "headers": [[bytes(n).decode("latin1"), bytes(v).decode("latin1")] for n, v in ev.headers]}
    if isinstance(ev, h2.events.DataReceived):
        return {"k": "data", "sid": ev.stream_id, "d": bytes(ev.data).decode("latin1"), "flow": ev.flow_controlled_length}
    if isinstance(ev, h2.events.StreamEnded):
        return {"k": "ended", "sid": ev.stream_id}
    if isinstance(ev, h2.events.StreamReset):
        return {"k": "reset", "sid": ev.stream_id}
    if isinstance(ev, h2.events.WindowUpdated):
        return {"k": "window", "sid": ev.stream_id or 0}
    if isinstance(ev, h2.events.PriorityUpdated):
        return {"k": "priority", "sid": ev.stream_id, "dep": ev.depends_on or 0}
    if isinstance(ev, h2.events.RemoteSettingsChanged):
        return {"k": "settings", "iw": h2.settings.SettingCodes.INITIAL_WINDOW_SIZE in ev.changed_settings}
    if isinstance(ev, h2.events.ConnectionTerminated):
        return {"k": "terminated"}
    return {"k": "other", "cls": type(ev).__name__}


class _EvList(list):
    """what the tapped `receive_data` returns: iterating it (as `_handle_events` does) marks event boundaries in the log"""

    def __init__(self, events, log: list) -> None:
        super().__init__(events)
        self._log = log

    def __iter__(self):
        for ev in list.__iter__(self):
            self._log.append(["evBegin", ev_json(ev)])
            yield ev
        self._log.append(["evEnd"])


H2_SEND_CALLS = ["send_headers", "reset_stream", "send_data", "end_stream", "acknowledge_received_data", "local_flow_control_window", "push_stream"]
H2_CONN_CALLS = ["update_settings", "close_connection"]
PRIO_CALLS = ["insert_stream", "reprioritize", "block", "unblock", "remove_stream"]


class Taps:
    """recording wrappers on the *library* classes (no hypercorn name is touched).  Only server-side connections are
    recorded, so the harness's own h2 client objects stay invisible."""

    def __init__(self) -> None:
        self.log: list = []
        self._orig: list = []
        self._depth = 0          # library-internal re-entrance (`_get_or_insert_parent` calls `insert_stream`)

    def install(self) -> None:
        C = h2.connection.H2Connection
        P = priority.PriorityTree
        tap = self

        def wrap(cls, name, fn):
            self._orig.append((cls, name, getattr(cls, name)))
            setattr(cls, name, fn)

        o_recv = C.receive_data

        def receive_data(conn, data):
            if conn.config.client_side:
                return o_recv(conn, data)
            try:
                evs = o_recv(conn, data)
            except BaseException as e:
                # did h2 queue a GOAWAY before it raised (frame type 7 in its pending output)?
                pending = bytes(getattr(conn, "_data_to_send", b""))
                queued, pos = False, 0
                while pos + 9 <= len(pending):
                    ln = int.from_bytes(pending[pos:pos + 3], "big")
                    queued = queued or pending[pos + 3] == 7
                    pos += 9 + ln
                tap.log.append(["recv", cls_of(e), type(e).__name__, queued])
                raise
            tap.log.append(["recv", None, len(evs)])
            return _EvList(evs, tap.log)

        wrap(C, "receive_data", receive_data)

        def mk_h2(name, kind):
            orig = getattr(C, name)

            def f(conn, *a, **k):
                if conn.config.client_side:
                    return orig(conn, *a, **k)
                sid = a[0] if a and name != "acknowledge_received_data" else (a[1] if len(a) > 1 else k.get("stream_id", 0))
                if name == "push_stream":
                    sid = k.get("stream_id", a[0] if a else 0)
                try:
                    r = orig(conn, *a, **k)
                except BaseException as e:
                    tap.log.append([kind, name, sid, cls_of(e)] if kind == "h2" else [kind, name, cls_of(e)])
                    raise
                entry = [kind, name, sid, None] if kind == "h2" else [kind, name, None]
                if name == "acknowledge_received_data":
                    entry.append(a[0] if a else k.get("acknowledged_size"))      # the amount (C01)
                tap.log.append(entry)
                return r
            return f

        for name in H2_SEND_CALLS:
            wrap(C, name, mk_h2(name, "h2"))
        o_dts = C.data_to_send

        def data_to_send(conn, *a, **k):
            if not conn.config.client_side:
                tap.log.append(["flush"])
            return o_dts(conn, *a, **k)

        wrap(C, "data_to_send", data_to_send)
        for name in H2_CONN_CALLS:
            wrap(C, name, mk_h2(name, "conn"))

        def mk_prio(name):
            orig = getattr(P, name)

            def f(tree, *a, **k):
                sid = k.get("stream_id", a[0] if a else None)
                dep = (k.get("depends_on", a[1] if len(a) > 1 else None) or 0) if name in ("insert_stream", "reprioritize") else 0
                if tap._depth:
                    return orig(tree, *a, **k)
                had_dep = dep in tree._streams
                tap._depth += 1
                try:
                    r = orig(tree, *a, **k)
                except BaseException as e:
                    tap._depth -= 1
                    tap.log.append(["prio", name, sid, dep, cls_of(e), (not had_dep) and dep in tree._streams])
                    raise
                tap._depth -= 1
                tap.log.append(["prio", name, sid, dep, None, False])
                return r
            return f

        for name in PRIO_CALLS:
            wrap(P, name, mk_prio(name))
        o_next = P.__next__

        def nxt(tree):
            try:
                r = o_next(tree)
            except priority.DeadlockError:
                tap.log.append(["next", "deadlock", None])
                raise
            except BaseException as e:
                tap.log.append(["next", "raised", cls_of(e)])
                raise
            tap.log.append(["next", "stream", r])
            return r

        wrap(P, "__next__", nxt)

    def remove(self) -> None:
        for cls, name, fn in reversed(self._orig):
            setattr(cls, name, fn)
        self._orig.clear()


# ------------------------------------------------------------------------------------------------------------
# tap log → model operations (+ the calls each operation made, for comparison with the model's prediction)
# ------------------------------------------------------------------------------------------------------------
def _calls(seg: list) -> list:
    """the library calls of a segment as the model prints them (`Driver.C04.outJson`), own level only"""
    out = []
    for e in seg:
        if e[0] == "prio":
            out.append(["prio", e[1], e[2], e[4]])
        elif e[0] == "h2" and e[1] not in ("local_flow_control_window", "push_stream"):
            name = "acknowledge_received_data" if e[1] == "acknowledge_received_data" else e[1]
            out.append(["h2", name, e[2], e[3] is not None])
        elif e[0] == "conn":
            out.append(["conn", e[1], e[2] is not None])
        elif e[0] == "flush":
            out.append(["flush"])
    return out


def segments(log: list) -> List[dict]:
    """split the flat log into operation segments: {"head": marker entry, "body": [library calls of that level]}.
    A `stream_send` nested inside an event (a stream reacting to input) becomes its own segment placed behind the start of
    its parent, and the parent continues when it returns."""
    out: List[dict] = []
    stack: List[Optional[dict]] = []
    cur: Optional[dict] = None
    for e in log:
        k = e[0]
        if k == "ss+":
            stack.append(cur)
            cur = {"head": e, "body": []}
            out.append(cur)
        elif k == "ss-":
            cur = stack.pop() if stack else None
        elif k in ("evBegin", "evEnd", "next", "recv", "closed", "terminate"):
            cur = {"head": e, "body": []}
            out.append(cur)
            if k == "evEnd" or (k == "recv" and e[1] is None):
                pass
        else:
            if cur is None:
                out.append({"head": ["stray"], "body": [e]})      # a library call outside every marker (e.g. `initiate`)
            else:
                cur["body"].append(e)
    return out


def to_ops(log: list) -> Tuple[List[dict], List[list]]:
    """model operations and, aligned with them, the calls observed"""
    ops: List[dict] = []
    seen: List[list] = []
    for seg in segments(log):
        h, body = seg["head"], seg["body"]
        k = h[0]
        calls = _calls(body)
        if k == "recv":
            if h[1] is not None:
                ops.append({"op": "recvRaised", "e": h[1]})
                seen.append(calls)
            continue
        if k == "evEnd":
            ops.append({"op": "batchEnd"})
            seen.append(calls)
        elif k == "evBegin":
            ev = dict(h[1])
            if ev["k"] == "request":
                ins = next((e for e in body if e[0] == "prio" and e[1] == "insert_stream" and e[2] == ev["sid"]), None)
                lib = next((e for e in body if e[0] == "h2" and e[1] in ("send_headers", "reset_stream") and e[2] == ev["sid"]), None)
                ev["ins"] = ins[4] if ins is not None else None
                ev["lib"] = lib[3] if lib is not None else None
                ev["_ins_called"] = ins is not None
            elif ev["k"] == "priority":
                rep = next((e for e in body if e[0] == "prio" and e[1] == "reprioritize"), None)
                ins = next((e for e in body if e[0] == "prio" and e[1] == "insert_stream"), None)
                ev["rep"] = rep[4] if rep is not None else None
                ev["ins"] = ins[4] if ins is not None else None
                ev["parentOnError"] = bool((rep is not None and rep[5]) or (ins is not None and ins[5]))
            ev.pop("cls", None)
            ops.append({"op": "ev", **ev})
            seen.append(calls)
        elif k == "next":
            if h[1] == "deadlock":
                ops.append({"op": "sendTask", "k": "deadlock"})
            elif h[1] == "raised":
                ops.append({"op": "sendTask", "k": "raised", "e": h[2]})
            else:
                sid = h[2]
                win = next((e for e in body if e[0] == "h2" and e[1] == "local_flow_control_window"), None)
                sd = next((e for e in body if e[0] == "h2" and e[1] == "send_data"), None)
                es = next((e for e in body if e[0] == "h2" and e[1] == "end_stream"), None)
                blk = next((e for e in body if e[0] == "prio" and e[1] == "block"), None)
                ops.append({"op": "sendTask", "k": "stream", "sid": sid, "window": win[3] if win else None, "dataEmpty": blk is not None,
                            "send": sd[3] if sd else None, "complete": es is not None, "endStream": es[3] if es else None})
            seen.append(calls)
        elif k == "ss+":
            sid, kind, extra = h[1], h[2], h[3]
            if kind in ("Response", "InformationalResponse", "Trailers"):
                sh = next((e for e in body if e[0] == "h2" and e[1] == "send_headers"), None)
                ops.append({"op": "app", "sid": sid, "k": "headers", "lib": sh[3] if sh else None})
            elif kind in ("Body", "Data"):
                ops.append({"op": "app", "sid": sid, "k": "body", "push": "BufferCompleteError" if extra.get("complete") else None})
            elif kind in ("EndBody", "EndData"):
                ops.append({"op": "app", "sid": sid, "k": "endBody"})
            elif kind == "StreamClosed":
                rs = next((e for e in body if e[0] == "h2" and e[1] == "reset_stream"), None)
                ops.append({"op": "app", "sid": sid, "k": "streamClosed", "abandon": rs is not None, "lib": rs[3] if rs else None})
            else:
                ops.append({"op": "unsupported", "what": kind})
            seen.append(calls)
        elif k == "closed":
            ops.append({"op": "closed"})
            seen.append(calls)
        elif k == "terminate":
            ops.append({"op": "terminate"})
            seen.append(calls)
        elif k == "stray":
            ops.append({"op": "stray"})
            seen.append(calls)
    return ops, seen


def model_calls(outs: list) -> list:
    """projection of the model's outputs onto what the taps can see"""
    res = []
    for o in outs:
        if o[0] in ("prio", "h2", "conn", "flush"):
            res.append(list(o))
    return res


# ------------------------------------------------------------------------------------------------------------
# direct drive of the real H2Protocol
# ------------------------------------------------------------------------------------------------------------
async def drive_h2(cfg: dict, steps: List[dict]) -> dict:
    """steps: {"read": bytes} | {"app": [sid, message|None]} | {"closed": 1} | {"terminate": 1} | {"settle": 1}.
    Applications are driven by the harness (spawn_app is a recording fake), the send task is the real one.
    Returns {"log": tap log, "states": real state after each step, "error": uncaught exception (class) if any, "apps": …}"""
    from hypercorn.asyncio.worker_context import WorkerContext
    from hypercorn.config import Config
    from hypercorn.events import Closed, RawData, Updated
    from hypercorn.protocol.h2 import H2Protocol
    from hypercorn.typing import ConnectionState
    from . import streams as S

    taps = Taps()
    log = taps.log
    config = Config()
    for k, v in cfg.items():
        setattr(config, k, v)
    config._log = S.RecLog([])  # type: ignore
    apps: Dict[int, dict] = {}
    tasks: List[asyncio.Task] = []
    errors: List[str] = []
    stuck: List[int] = []

    class TG:
        async def spawn_app(self, app, config_, scope, send):
            stream = send.__self__
            sid = stream.stream_id
            apps[sid] = {"stream": stream, "puts": [], "scope_type": scope["type"], "spawns": apps.get(sid, {}).get("spawns", 0) + 1, "msgs": [],
                         "scope": {k: (bytes(v).decode("latin1") if isinstance(v, (bytes, bytearray)) else v) for k, v in scope.items()
                                   if k in ("method", "http_version", "raw_path", "query_string")}
                                  | {"headers": [[bytes(n).decode("latin1"), bytes(v).decode("latin1")] for n, v in scope["headers"]]}}
            log.append(["spawn", sid, scope["type"] == "websocket"])

            async def app_put(message):
                apps[sid]["puts"].append(message.get("type"))
                apps[sid]["msgs"].append([message.get("type"), bytes(message.get("body", b"") or b"").decode("latin1") if "body" in message else None,
                                          message.get("more_body")])

            return app_put

        def spawn(self, func, *args):
            t = asyncio.ensure_future(func(*args))
            tasks.append(t)

    sent: list = []

    async def send(ev):
        if isinstance(ev, RawData):
            sent.append(["raw", len(ev.data)])
        elif isinstance(ev, Closed):
            sent.append(["closed"])
        elif isinstance(ev, Updated):
            sent.append(["updated", ev.idle])

    ctx = WorkerContext(None)
    taps.install()
    states: List[dict] = []
    try:
        proto = H2Protocol(object(), config, ctx, TG(), ConnectionState({}), False, ("127.0.0.1", 1), ("10.0.0.1", 80), send)
        # mark `stream_send` calls (the bound method every stream gets as its `send`)
        real_ss = proto.stream_send

        async def stream_send(event):
            sid = getattr(event, "stream_id", 0)
            buf = proto.stream_buffers.get(sid)
            log.append(["ss+", sid, type(event).__name__, {"complete": bool(buf is not None and buf._complete)}])
            try:
                return await real_ss(event)
            finally:
                log.append(["ss-"])

        proto.stream_send = stream_send  # type: ignore
        await proto.initiate()

        async def settle():
            for _ in range(12):
                await asyncio.sleep(0)

        def snap() -> dict:
            tree = proto.priority._streams
            return {"streams": sorted(proto.streams), "buffers": sorted(proto.stream_buffers),
                    "prio": sorted(k for k in tree if k != 0), "active": sorted(k for k, v in tree.items() if k != 0 and v.active),
                    "kar": proto.keep_alive_requests, "mark": len(log)}

        async def guarded(coro):
            try:
                await coro
            except asyncio.CancelledError:
                raise
            except BaseException as e:  # an exception escaping the reader = the handler dies
                errors.append(cls_of(e))

        await settle()
        states.append(snap())
        for st in steps:
            if errors:
                break
            if "read" in st:
                # the reader is a task of its own: a stream reacting to input may wait for the send task (drain)
                rt = asyncio.ensure_future(guarded(proto.handle(RawData(st["read"]))))
                for _ in range(200):
                    await asyncio.sleep(0)
                    if rt.done():
                        break
                if not rt.done():
                    stuck.append(len(states))
                    rt.cancel()
                    try:
                        await rt
                    except BaseException:
                        pass
                    break
            elif "app" in st:
                sid, msg = st["app"]
                a = apps.get(sid)
                if a is None:
                    states.append(snap())
                    continue

                async def call(a=a, msg=msg):
                    try:
                        await a["stream"].app_send(None if msg is None else dict(msg))
                    except asyncio.CancelledError:
                        raise
                    except Exception as e:      # raised into the application: contained (C05/C12), except for `send(None)`
                        if msg is None:
                            errors.append(cls_of(e))
                tasks.append(asyncio.ensure_future(call()))
            elif "closed" in st:
                log.append(["closed"])
                await guarded(proto.handle(Closed()))
            elif "terminate" in st:
                log.append(["terminate"])
                await ctx.terminated.set()
            await settle()
            for t in tasks:
                if t.done() and not t.cancelled() and t.exception() is not None:
                    errors.append(cls_of(t.exception()))
            tasks[:] = [t for t in tasks if not t.done()]
            states.append(snap())
        for t in tasks:
            t.cancel()
        for t in tasks:
            try:
                await t
            except BaseException:
                pass
    finally:
        taps.remove()
    return {"log": log, "states": states, "error": errors[0] if errors else None, "sent": sent, "stuck": stuck,
            "apps": {sid: {"puts": a["puts"], "type": a["scope_type"], "msgs": a["msgs"], "scope": a["scope"], "spawns": a["spawns"]} for sid, a in apps.items()}}


def run(coro):
    loop = asyncio.new_event_loop()
    try:
        return loop.run_until_complete(coro)
    finally:
        loop.close()


# ------------------------------------------------------------------------------------------------------------
# deterministic classifier of an input (used in violation signatures, so that a known finding only masks itself)
# ------------------------------------------------------------------------------------------------------------
def trigger_of(proto: str, data: bytes) -> str:
    """"h2c_bad_settings": an HTTP/1 h2c upgrade request whose HTTP2-Settings value is not a base64url SETTINGS payload that h2
    accepts (F43).
    (F44 is recognised from the taps: `next(self.priority)` raised RecursionError.)"""
    import base64
    import re
    if proto == "h1":
        m = re.search(rb"(?im)^http2-settings:[ \t]*([^\r\n]*)", data)
        if m and re.search(rb"(?im)^upgrade:[ \t]*h2c", data):
            v = m.group(1).strip()
            try:
                raw = base64.urlsafe_b64decode(v.decode("ascii") + "=" * (-len(v) % 4))
                ok = len(raw) % 6 == 0 and re.fullmatch(rb"[A-Za-z0-9_\-=]*", v) is not None
                if ok:
                    # … and every (identifier, value) pair is one h2 accepts (InvalidSettingsValueError otherwise: same defect,
                    # the value is handed to h2 after the 101 has been written)
                    from h2.settings import _validate_setting
                    for k in range(0, len(raw), 6):
                        if _validate_setting(int.from_bytes(raw[k:k + 2], "big"), int.from_bytes(raw[k + 2:k + 6], "big")) != 0:
                            ok = False
            except Exception:
                ok = False
            if not ok:
                return "h2c_bad_settings"
    return "other"
