"""HTTP/1 session generator + adaptive op policy + model comparison for the direct drive of `H11Protocol`."""
from __future__ import annotations

import asyncio
from typing import Any, Dict, List, Optional, Tuple

from . import clients as C
from . import h11drive as H
from .framework import Ctx, b2s

METHODS = ["GET", "POST", "PUT", "HEAD", "DELETE", "OPTIONS", "get", "PoSt", "BREW"]
TARGETS = ["/", "/a", "/a/b?x=1&y=2", "/p%41th?%3F", "/%C3%A9?", "/x?a?b", "*", "/a%2Fb", "/long/" + "s" * 100]
WS_KEY = b"dGhlIHNhbXBsZSBub25jZQ=="


def gen_request(rng, idx: int, opts: dict) -> dict:
    """one semantic request description (JSON-able)"""
    kind = rng.choices(["plain", "body_cl", "body_chunked", "close", "http10", "expect", "head", "ws", "h2c", "h2c_body", "bad_server_name"],
                       weights=opts.get("weights", [6, 4, 4, 2, 2, 1, 2, 1, 1, 1, 0]))[0]
    method = rng.choice(METHODS[:4]) if kind not in ("head", "ws") else ("HEAD" if kind == "head" else "GET")
    if rng.random() < 0.15 and kind in ("plain", "body_cl"):
        method = rng.choice(METHODS)
    target = rng.choice(opts.get("targets") or TARGETS)      # a property may bring its own pool of request targets
    if target == "*" and method != "OPTIONS":
        target = "/star"
    headers = [["Host", "x"]]
    extra = rng.choice([[], [["X-Mixed-Case", "v1"], ["x-mixed-case", "v2"]], [["accept", ""], ["Cookie", "a=1; b=2"]], [["x-pad", "  v  "]]])
    headers += extra
    version = "1.1"
    body = ""
    chunks = None
    if kind in ("body_cl", "h2c_body"):
        n = rng.choice([0, 1, 2, 100, 5000, 70000]) if opts.get("big", True) else rng.choice([0, 1, 2, 30])
        body = "".join(chr(97 + (i * 7 + idx) % 26) for i in range(n))
        method = method if method not in ("GET", "HEAD") else "POST"
    elif kind == "body_chunked":
        k = rng.choice([1, 2, 3, 12, 40]) if opts.get("big", True) else rng.choice([1, 2, 3])
        chunks = ["".join(chr(65 + (j + i) % 26) for i in range(rng.choice([1, 2, 7, 300]))) for j in range(k)]
        method = method if method not in ("GET", "HEAD") else "POST"
    if kind == "close":
        headers.append(["Connection", rng.choice(["close", "Close", "keep-alive, close"])])
    if kind == "http10":
        version = "1.0"
    if kind == "expect":
        headers.append(["Expect", "100-continue"])
        body = "expected-body"
        method = "POST"
    if kind == "ws":
        headers += [["Upgrade", rng.choice(["websocket", "WebSocket"])], ["Connection", rng.choice(["Upgrade", "keep-alive, upgrade"])],
                    ["Sec-WebSocket-Key", WS_KEY.decode()], ["Sec-WebSocket-Version", "13"]]
    if kind in ("h2c", "h2c_body"):
        headers += [["Upgrade", "h2c"], ["Connection", "Upgrade, HTTP2-Settings"], ["HTTP2-Settings", rng.choice(["", "AAMAAABkAAQAAP__"])]]
    if kind == "bad_server_name":
        headers[0] = ["Host", "other.example"]
    return {"kind": kind, "method": method, "target": target, "headers": headers, "version": version, "body": body, "chunks": chunks}


# ways a request can be malformed / aborted after a well-formed start (all of them make h11's `next_event()` raise
# RemoteProtocolError; checked against h11 in server role by `malformed_is_rejected`)
BAD_CHUNK_TAILS = ["zz\r\n", "-1\r\n", "1g\r\nx\r\n", "5\r\nabcdeXY\r\n", "\r\n\r\n", "0x5\r\nabcde\r\n", "this is not a chunk size\r\n\r\n"]
BAD_HEADS = ["BLAH\r\n\r\n", "GET /\x00 HTTP/1.1\r\nHost: x\r\n\r\n", "GET / HTTP/1.1\r\nHost: x\r\nbad header line\r\n\r\n",
             "POST / HTTP/1.1\r\nHost: x\r\nContent-Length: -1\r\n\r\n", "POST / HTTP/1.1\r\nHost: x\r\nContent-Length: 1\r\nContent-Length: 2\r\n\r\n"]


def make_malformed(rng, r: dict, how: str, idx: int = 0) -> dict:
    """turn a generated request into a malformed / aborted one (optional fields read by `request_bytes` / `request_body`):
    bad_chunk: a chunked body that goes wrong after 0..k good chunks; truncated: a content-length body that ends early
    (only meaningful as the last request, followed by EOF); bad_head: bytes that are no request head at all"""
    r = dict(r)
    if how == "bad_head":
        return {**r, "kind": "bad_head", "method": "GET", "raw": rng.choice(BAD_HEADS), "body": "", "chunks": None, "malformed": "head"}
    r["headers"] = [h for h in r["headers"] if h[0].lower() not in ("upgrade", "http2-settings", "sec-websocket-key", "sec-websocket-version", "expect")
                    and not (h[0].lower() == "connection" and "pgrade" in h[1])]
    r["method"] = r["method"] if r["method"].upper() not in ("GET", "HEAD") else "POST"
    if how == "bad_chunk":
        k = rng.choice([0, 0, 1, 2, 5])
        r.update(kind="bad_chunk", body="", chunks=["".join(chr(65 + (j + i + idx) % 26) for i in range(rng.choice([1, 2, 7, 300]))) for j in range(k)],
                 bad_tail=rng.choice(BAD_CHUNK_TAILS), malformed="body")
    else:
        n = rng.choice([1, 2, 30, 5000])
        r.update(kind="truncated", chunks=None, body="".join(chr(97 + (i * 7 + idx) % 26) for i in range(n)), cut=rng.randint(1, n), malformed="body")
    return r


def request_bytes(r: dict) -> bytes:
    if r.get("raw") is not None:
        return r["raw"].encode("latin1")
    hs = [(n.encode("latin1"), v.encode("latin1")) for n, v in r["headers"]]
    chunks = None if r["chunks"] is None else [c.encode("latin1") for c in r["chunks"]]
    data = C.h1_request(r["method"], r["target"], hs, r["body"].encode("latin1"), version=r["version"], chunks=chunks)
    if r.get("bad_tail") is not None:
        assert chunks is not None and data.endswith(b"0\r\n\r\n")
        data = data[:-5] + r["bad_tail"].encode("latin1")
    if r.get("cut"):
        data = data[:-r["cut"]]
    return data


def request_body(r: dict) -> bytes:
    """the body bytes the client sent (for a malformed / aborted request: the well-formed part of it)"""
    if r.get("raw") is not None:
        return b""
    if r["chunks"] is not None:
        good = "".join(r["chunks"]).encode("latin1")
        tail = (r.get("bad_tail") or "").encode("latin1")
        # a bad tail may begin with a well-formed chunk header and its data (the chunk's END is what is wrong): those bytes are body
        size, sep, rest = tail.partition(b"\r\n")
        if sep and size and all(c in b"0123456789abcdefABCDEF" for c in size) and len(rest) >= int(size, 16):
            good += rest[:int(size, 16)]
        return good
    body = r["body"].encode("latin1")
    return body[:len(body) - r["cut"]] if r.get("cut") else body


def malformed_is_rejected(r: dict) -> bool:
    """oracle: h11 in server role raises RemoteProtocolError on these bytes (followed by EOF for a truncated body)"""
    import h11
    conn = h11.Connection(h11.SERVER)
    conn.receive_data(request_bytes(r))
    if r.get("cut"):
        conn.receive_data(b"")
    try:
        while True:
            ev = conn.next_event()
            if ev is h11.NEED_DATA or ev is h11.PAUSED or isinstance(ev, h11.ConnectionClosed):
                return False
    except h11.RemoteProtocolError:
        return True


def gen_app(rng, r: dict, opts: dict) -> dict:
    """how the application owning the stream behaves"""
    when = rng.choice(["after_body", "after_body", "eager", "mid", "never_read"])
    status = rng.choice([200, 200, 201, 204, 404, 500])
    chunks = rng.choice([[], ["ok"], ["a", "", "bc"], ["x" * 3000]])
    use_cl = rng.random() < 0.5
    crash = rng.choice([None, None, None, "before_start", "after_start", "after_first_chunk", "return_before_start"])
    if opts.get("no_crash"):
        crash = None
    return {"when": when, "status": status, "chunks": chunks, "content_length": use_cl, "crash": crash,
            "ws": rng.choice(["accept_echo", "accept_close", "close", "deny"])}


def app_messages(r: dict, a: dict) -> List[Optional[dict]]:
    """the sends the application will make, in order (None = exits)"""
    if r["kind"] == "ws":
        if a["ws"] == "close":
            return [{"type": "websocket.close"}, None]
        if a["ws"] == "deny":
            return [{"type": "websocket.http.response.start", "status": 403, "headers": [(b"x-why", b"no")]},
                    {"type": "websocket.http.response.body", "body": b"denied"}, None]
        msgs: List[Optional[dict]] = [{"type": "websocket.accept"}, {"type": "websocket.send", "text": "hello"}]
        if a["ws"] == "accept_close":
            msgs.append({"type": "websocket.close", "code": 1000})
        return msgs + [None]
    body_len = sum(len(c) for c in a["chunks"])
    headers = [(b"x-app", b"1")]
    if a.get("conn_close"):
        # the application itself asks to close the connection after this response
        headers.append((a.get("conn_close_name", "connection").encode(), a["conn_close"].encode()))
    if a["content_length"] and a["status"] not in (204,) and a["crash"] is None:
        headers.append((b"content-length", str(body_len).encode()))
    msgs = []
    if a["crash"] in ("before_start", "return_before_start"):
        return [None]
    msgs.append({"type": "http.response.start", "status": a["status"], "headers": headers})
    if a["crash"] == "after_start":
        return msgs + [None]
    if not a["chunks"]:
        msgs.append({"type": "http.response.body"})
    for i, c in enumerate(a["chunks"]):
        msgs.append({"type": "http.response.body", "body": c.encode(), "more_body": i < len(a["chunks"]) - 1})
        if a["crash"] == "after_first_chunk" and i == 0 and len(a["chunks"]) > 1:
            return msgs + [None]
    return msgs + [None]


def split_bytes(rng, data: bytes, mode: str) -> List[bytes]:
    if mode == "one" or len(data) <= 1:
        return [data]
    if mode == "bytewise":
        return [data[i:i + 1] for i in range(len(data))]
    if mode.startswith("two:"):
        k = int(mode[4:])
        return [data[:k], data[k:]]
    k = rng.randint(2, min(12, len(data)))
    cuts = sorted(rng.sample(range(1, len(data)), k - 1))
    out, prev = [], 0
    for c in cuts + [len(data)]:
        out.append(data[prev:c])
        prev = c
    return out


class Policy:
    """adaptive interleaving of client reads and application progress"""

    def __init__(self, rng, reads: List[bytes], requests: List[dict], apps: List[dict], eof: bool = True, closed_at_end: bool = True,
                 terminate_at: Optional[int] = None) -> None:
        self.rng = rng
        self.reads = list(reads)
        self.requests = requests
        self.apps = apps
        self.eof = eof
        self.closed_at_end = closed_at_end
        self.terminate_at = terminate_at
        self.pending: Dict[int, List[Optional[dict]]] = {}
        self.sent_eof = False
        self.sent_closed = False
        self.spawn_order: List[int] = []
        self.dropped = False
        self.sent_n: Dict[int, int] = {}
        # had the protocol itself asked to close (`Closed` sent upwards) when the harness, with nothing left to do, gave the connection up?
        self.closed_by_server_first: Optional[bool] = None

    def _body_over(self, view, oid: int) -> bool:
        puts = view["puts"].get(oid, [])
        return any(p[0] == "http.request" and p[2] is False for p in puts) or any(p[0] == "http.disconnect" for p in puts)

    def _ready(self, view, oid: int, k: int) -> bool:
        a = self.apps[k % len(self.apps)]
        puts = view["puts"].get(oid, [])
        if view["kinds"].get(oid) == "websocket":
            return True
        if a["when"] in ("eager", "never_read"):
            return True
        if a["when"] == "echo":
            # a streaming application: it BEGINS its response (`early` messages: the head, perhaps a first piece of the body) while the
            # request body is still arriving and goes on only when that body has ended - or when it is told that the client is gone
            return self.sent_n.get(oid, 0) < a.get("early", 1) or self._body_over(view, oid)
        if a["when"] == "mid":
            return len(puts) >= 1
        return any(p[0] == "http.request" and p[2] is False for p in puts) or any(p[0] == "http.disconnect" for p in puts)

    def __call__(self, view) -> Optional[dict]:
        if self.terminate_at is not None and view["steps"] == self.terminate_at:
            self.terminate_at = None
            return {"terminate": 1}
        for oid in view["spawned"]:
            if oid not in self.pending:
                k = len(self.spawn_order)
                self.spawn_order.append(oid)
                self.pending[oid] = app_messages(self.requests[min(k, len(self.requests) - 1)], self.apps[k % len(self.apps)])
        for k, oid in enumerate(self.spawn_order):
            a = self.apps[k % len(self.apps)]
            puts = view["puts"].get(oid, [])
            if (a["when"] == "echo" and self.pending[oid] and self.pending[oid] != [None] and any(p[0] == "http.disconnect" for p in puts)
                    and not any(p[0] == "http.request" and p[2] is False for p in puts)):
                # told http.disconnect before its request body ended, a streaming application gives up: it returns
                self.pending[oid] = [None]
            if a["when"] == "echo" and self.pending[oid] and self.sent_n.get(oid, 0) < a.get("early", 1) and not self._body_over(view, oid):
                # the early part of a streaming application's response goes out before the next read (deterministically)
                self.sent_n[oid] = self.sent_n.get(oid, 0) + 1
                return {"send": [oid, self.pending[oid].pop(0)]}
        choices = []
        if self.reads and not view["parked"] and not view["up_closed"]:
            choices.append("read")
        for k, oid in enumerate(self.spawn_order):
            if self.pending[oid] and self._ready(view, oid, k):
                choices.append(("app", oid))
        if not choices:
            if not self.reads and self.eof and not self.sent_eof and not view["parked"]:
                self.sent_eof = True
                return {"data": b""}
            if self.reads and view["up_closed"]:
                self.reads = []
                self.dropped = True       # the server closed: what the client still had to say is never read
            if any(self.pending[o] for o in self.pending):
                # applications that wait for a body that will never complete: let them run now
                # (not a streaming application: that one waits until it is TOLD - its disconnect is the server's business)
                for k, oid in enumerate(self.spawn_order):
                    if self.pending[oid] and (self.apps[k % len(self.apps)]["when"] != "echo" or self._ready(view, oid, k)):
                        return {"send": [oid, self.pending[oid].pop(0)]}
            if self.closed_at_end and not self.sent_closed and not view.get("switched"):
                self.sent_closed = True
                self.closed_by_server_first = bool(view["up_closed"])
                return {"closed": 1}
            if any(self.pending[o] for o in self.pending) and self.sent_closed:
                for k, oid in enumerate(self.spawn_order):
                    if self.pending[oid]:
                        return {"send": [oid, self.pending[oid].pop(0)]}
            return None
        c = self.rng.choice(choices)
        if c == "read":
            return {"data": self.reads.pop(0)}
        oid = c[1]
        return {"send": [oid, self.pending[oid].pop(0)]}


SERVER_HEADERS = [["date", "<date>"], ["server", "hypercorn-h11"]]


def run_session(cfg: dict, policy) -> Tuple[List[dict], List[dict], dict]:
    return asyncio.run(H.drive_h11(cfg, policy))


def group_ops(mops: List[dict], obs: List[Optional[dict]], model: Optional[list]):
    """pair each observation with the concatenated model outputs of the ops it covers"""
    groups = []
    acc_outs: list = []
    acc_ops: list = []
    rejected = False
    last_m = None
    for i, (mo, o) in enumerate(zip(mops, obs)):
        m = model[i] if model is not None else None
        acc_ops.append(mo)
        if m is not None:
            if m.get("rejected"):
                rejected = True
            else:
                acc_outs += m["outs"]
                last_m = m
        if o is not None:
            groups.append({"ops": acc_ops, "obs": o, "model_outs": acc_outs, "model_last": last_m, "rejected": rejected})
            acc_outs, acc_ops, rejected = [], [], False
    return groups


def compare_with_model(ctx: Ctx, case: dict, cfg: dict, mops, obs, lib) -> Optional[list]:
    """returns the grouped ops (for the monitors); records a disagreement when model and implementation differ"""
    model = ctx.model([H.h11_model_req(cfg, mops, lib, SERVER_HEADERS)])
    mres = None
    if model is not None:
        ctx.disagreements_checked += 1
        mres = model[0].get("ok")
        if mres is None:
            ctx.disagree("proto.h11", case, model[0], None)
    groups = group_ops(mops, obs, mres)
    if mres is not None:
        for g in groups:
            o, m = g["obs"], g["model_last"]
            if o.get("handler_exception"):
                # an uncaught exception in the connection handler: the model says "rejected" (not a run h11 + glue can complete)
                if not g["rejected"]:
                    ctx.disagree("proto.h11.exception", case, m, o)
                break
            impl = H.normalise_outs(o["outs"])
            mod = H.normalise_outs(g["model_outs"])
            same = (not g["rejected"] and m is not None and impl == mod and o["error"] == (m["error"] if g["ops"][-1]["op"].startswith("send") else o["error"])
                    and (o["their"] is None or o["their"] == m["their"]) and (o["our"] is None or o["our"] == m["our"])
                    and o["parked"] == (m["pc"] != "idle") and o["cur"] == m["cur"] and o["kar"] == m["kar"])
            if not same:
                ctx.disagree("proto.h11", case, {"outs": mod, "last": {k: v for k, v in (m or {}).items() if k != "outs"}, "rejected": g["rejected"]},
                             {"outs": impl, **{k: o[k] for k in ("error", "their", "our", "parked", "cur", "kar")}, "ops": [x.get("op") + ":" + str(x.get("k", "")) for x in g["ops"]]})
                break
    return groups
