"""C13: the real `ProtocolWrapper` (with the real H11Protocol / H2Protocol behind it) driven read by read, observed through taps on
the *library* classes only (h11.Connection, h2.connection.H2Connection), next to the Lean model `HC.Proto.Wrapper.run`
(driver command `c13.run`); the sampling of the model's parser assumption against the installed h11; the sampling of the Lean
model of "h2 accepts this HTTP2-Settings payload" (`c13.settings`) against the installed h2 / hyperframe / binascii."""
from __future__ import annotations

import asyncio
import base64
import struct
from typing import Any, Dict, List, Optional, Tuple

import h11
import h2.config
import h2.connection
import h2.exceptions
import hyperframe.exceptions

from .framework import b2s

BIG = 1 << 30


# ------------------------------------------------------------------------------------------------------------
# the installed h11 as a function of the receive buffer (fresh server connection)
# ------------------------------------------------------------------------------------------------------------
def req_json(ev: h11.Request) -> dict:
    return {"method": b2s(ev.method), "target": b2s(ev.target), "headers": [[b2s(bytes(n)), b2s(bytes(v))] for n, v in ev.headers],
            "raw_headers": [[b2s(bytes(n)), b2s(bytes(v))] for n, v in ev.headers.raw_items()], "version": b2s(ev.http_version)}


def h11_parse(buf: bytes, limit: int = BIG) -> tuple:
    """("need",) | ("head", request-json, n) | ("bad", hint) - what h11.Connection(SERVER) answers with `buf` in its buffer"""
    c = h11.Connection(h11.SERVER, max_incomplete_event_size=limit)
    if buf:
        c.receive_data(buf)
    try:
        ev = c.next_event()
    except h11.RemoteProtocolError as e:
        return ("bad", e.error_status_hint)
    if ev is h11.NEED_DATA:
        return ("need",)
    if isinstance(ev, h11.Request):
        return ("head", req_json(ev), len(buf) - len(c.trailing_data[0]))
    return ("other", type(ev).__name__)


def oracle_of(data: bytes) -> dict:
    """the parameters of the model's `oracle` parser for a session whose bytes are `data`: the head h11 finds in the whole"""
    o = h11_parse(data)
    if o[0] == "head":
        return {"head": b2s(data[:o[2]]), "req": o[1], "bad": False}
    if o[0] == "bad":
        # the shortest malformed prefix (bisection; that "bad" is monotone in the prefix is what `check_parser_laws` samples)
        lo, hi = 0, len(data)
        while lo < hi:
            mid = (lo + hi) // 2
            if h11_parse(data[:mid])[0] == "bad":
                hi = mid
            else:
                lo = mid + 1
        return {"head": b2s(data[:lo]), "req": None, "bad": True}
    return {"head": "", "req": None, "bad": False}


def check_parser_laws(data: bytes) -> Tuple[Optional[str], Dict[str, int]]:
    """the fields of `HC.Proto.Wrapper.HeadParser` on every prefix of `data`; returns (first violated law | None, counts)"""
    outs = [h11_parse(data[:k]) for k in range(len(data) + 1)]
    counts = {"prefixes": len(outs), "need": sum(1 for o in outs if o[0] == "need"), "head": sum(1 for o in outs if o[0] == "head"),
              "bad": sum(1 for o in outs if o[0] == "bad")}
    if outs[0] != ("need",):
        return f"nil_need: {outs[0]}", counts
    first = next((k for k, o in enumerate(outs) if o[0] != "need"), None)
    if first is None:
        return None, counts
    o = outs[first]
    if o[0] == "other":
        return f"unexpected event {o}", counts
    if o[0] == "head" and o[2] > first:
        return f"head_le: n={o[2]} > {first}", counts
    for k in range(first + 1, len(outs)):
        same = outs[k] == o if o[0] == "head" else outs[k][0] == "bad"
        if not same:
            return f"{o[0]}_stable: prefix {first} gives {str(o)[:80]}, prefix {k} gives {str(outs[k])[:80]}", counts
    # … and the model's concrete parser is this function: head/bad exactly from the first complete prefix on
    orc = oracle_of(data)
    if (orc["head"] != b2s(data[:o[2]] if o[0] == "head" else data[:first])) or orc["bad"] != (o[0] == "bad"):
        return f"oracle: {orc['head'][:40]!r} bad={orc['bad']} vs first={first} {o[0]}", counts
    return None, counts


# ------------------------------------------------------------------------------------------------------------
# library taps
# ------------------------------------------------------------------------------------------------------------
class LibTaps:
    def __init__(self) -> None:
        self.h11_in = b""
        self.h2_in = b""
        self.init: List[Any] = []          # "plain" | ["upgrade", settings, raised-class | None]
        self.goaway: List[int] = []
        self.h11_sent: List[Any] = []
        self._depth = 0
        self._o: Optional[tuple] = None

    def install(self) -> None:
        taps = self
        H, C = h11.Connection, h2.connection.H2Connection
        self._o = (H.receive_data, H.send, C.receive_data, C.initiate_connection, C.initiate_upgrade_connection, C.close_connection)
        o_rd, o_send, o_h2rd, o_ic, o_iuc, o_cc = self._o

        def rd(conn, data):
            if conn.our_role is h11.SERVER:
                taps.h11_in += bytes(data)
            return o_rd(conn, data)

        def send(conn, event):
            if conn.our_role is h11.SERVER:
                taps.h11_sent.append((type(event).__name__, getattr(event, "status_code", None)))
            return o_send(conn, event)

        def h2rd(conn, data):
            if not conn.config.client_side:
                taps.h2_in += bytes(data)
            return o_h2rd(conn, data)

        def ic(conn):
            if not conn.config.client_side and taps._depth == 0:
                taps.init.append("plain")
            return o_ic(conn)

        def iuc(conn, settings_header=None):
            if conn.config.client_side:
                return o_iuc(conn, settings_header)
            taps._depth += 1
            try:
                r = o_iuc(conn, settings_header)
                taps.init.append(["upgrade", settings_header, None])
                return r
            except BaseException as e:
                taps.init.append(["upgrade", settings_header, type(e).__name__])
                raise
            finally:
                taps._depth -= 1

        def cc(conn, error_code=0, *a, **k):
            if not conn.config.client_side:
                taps.goaway.append(int(error_code))
            return o_cc(conn, error_code, *a, **k)

        H.receive_data, H.send, C.receive_data, C.initiate_connection, C.initiate_upgrade_connection, C.close_connection = rd, send, h2rd, ic, iuc, cc

    def remove(self) -> None:
        H, C = h11.Connection, h2.connection.H2Connection
        if self._o is not None:
            H.receive_data, H.send, C.receive_data, C.initiate_connection, C.initiate_upgrade_connection, C.close_connection = self._o
            self._o = None


class _Log:
    def __getattr__(self, name):
        async def f(*a, **k):
            return None
        return f


async def _drive(alpn: Optional[str], reads: List[bytes], cfg: dict) -> List[dict]:
    from hypercorn.asyncio.worker_context import WorkerContext
    from hypercorn.config import Config
    from hypercorn.events import Closed, RawData, Updated
    from hypercorn.protocol import ProtocolWrapper
    from hypercorn.typing import ConnectionState
    config = Config()
    for k, v in cfg.items():
        setattr(config, k, v)
    config._log = _Log()  # type: ignore
    scopes: List[dict] = []
    up: List[Any] = []

    class TG:
        async def spawn_app(self, app, config_, scope, send):
            scopes.append({"type": scope["type"], "http_version": scope.get("http_version"), "method": scope.get("method"),
                           "raw_path": b2s(scope.get("raw_path") or b""), "query": b2s(scope.get("query_string") or b""),
                           "headers": [[b2s(bytes(n)), b2s(bytes(v))] for n, v in scope["headers"]]})

            async def app_put(message):
                return None
            return app_put

        def spawn(self, func, *args):
            return None

    async def send(ev):
        if isinstance(ev, RawData):
            up.append(["raw", bytes(ev.data)])
        elif isinstance(ev, Closed):
            up.append(["closed"])
        elif isinstance(ev, Updated):
            up.append(["updated", ev.idle])

    taps = LibTaps()
    taps.install()
    obs: List[dict] = []
    task: Optional[asyncio.Task] = None
    try:
        w = ProtocolWrapper(object(), config, WorkerContext(None), TG(), ConnectionState({}), False, ("127.0.0.1", 1), ("10.0.0.1", 80), send, alpn)  # type: ignore
        await w.initiate()

        def snap(err: Optional[str], parked: bool) -> dict:
            stream = getattr(w.protocol, "stream", None)
            return {"proto": type(w.protocol).__name__, "h11_in": taps.h11_in, "h2_in": taps.h2_in, "init": list(taps.init), "goaway": list(taps.goaway),
                    "wrote101": ("InformationalResponse", 101) in taps.h11_sent, "closed": ["closed"] in up, "stream": None if stream is None else type(stream).__name__,
                    "scopes": list(scopes), "error": err, "parked": parked,
                    "h2_streams": sorted(getattr(w.protocol, "streams", {}).keys()) if type(w.protocol).__name__ == "H2Protocol" else None,
                    "out": b"".join(x[1] for x in up if x[0] == "raw")}
        obs.append(snap(None, False))
        for d in reads:
            err = None
            task = asyncio.ensure_future(w.handle(RawData(d)))
            for _ in range(12):
                await asyncio.sleep(0)
                if task.done():
                    break
            parked = not task.done()
            if task.done() and task.exception() is not None:
                err = type(task.exception()).__name__
            obs.append(snap(err, parked))
            if parked or err or ["closed"] in up or getattr(w.protocol, "stream", None) is not None:
                break                     # the shell would not deliver another read now / the rest is the HTTP/1 session (C06's model)
    finally:
        taps.remove()
        if task is not None and not task.done():
            task.cancel()
            try:
                await task
            except BaseException:
                pass
    return obs


def drive_wrapper(alpn: Optional[str], reads: List[bytes], cfg: Optional[dict] = None) -> List[dict]:
    loop = asyncio.new_event_loop()
    try:
        return loop.run_until_complete(_drive(alpn, reads, cfg or {}))
    finally:
        loop.close()


def run_req(alpn: Optional[str], data: bytes, reads: List[bytes], limit: int) -> dict:
    o = oracle_of(data)
    return {"cmd": "c13.run", "alpn": alpn, "limit": limit, "head": o["head"], "req": o["req"], "bad": o["bad"], "reads": [b2s(r) for r in reads]}


def filter_pseudo(hs: List[List[str]]) -> List[List[str]]:
    """`hypercorn.utils.filter_pseudo_headers` (C16's function) on JSON headers, written out independently"""
    authority, host, rest = None, "", []
    for n, v in hs:
        if n == ":authority":
            authority = v
        elif n == "host":
            host = v
        elif not n.startswith(":"):
            rest.append([n, v])
    return [["host", authority if authority is not None else host]] + rest


def compare_trace(model: dict, obs: List[dict]) -> Optional[Tuple[int, str, Any, Any]]:
    """the model's state after each read vs the observation after each read; returns the first difference"""
    states = [model["init"]] + model["trace"]
    for i, o in enumerate(obs):
        m = states[i]
        want_proto = "H2Protocol" if m["proto"] == "h2" else "H11Protocol"
        if o["error"]:
            return (i, "exception", None, o["error"])
        if o["proto"] != want_proto:
            return (i, "proto", m["proto"], o["proto"])
        if b2s(o["h11_in"]) != m["h11_input"]:
            return (i, "h11_input", m["h11_input"][-60:], b2s(o["h11_in"])[-60:])
        if b2s(o["h2_in"]) != m["h2_input"]:
            return (i, "h2_input", m["h2_input"][:80], b2s(o["h2_in"])[:80])
        if o["wrote101"] != m["wrote101"]:
            return (i, "wrote101", m["wrote101"], o["wrote101"])
        init = None
        if o["init"]:
            x = o["init"][0]
            init = "plain" if x == "plain" else ["upgrade", x[1]]
        if len(o["init"]) > 1 or init != m["init"]:
            return (i, "init", m["init"], o["init"])
        refused = bool(o["goaway"]) and bool(o["init"]) and o["init"][0] != "plain" and o["init"][0][2] is not None
        if refused != m["refused"] or (m["refused"] and (o["goaway"] != [1] or not o["closed"] or o["scopes"] or o["h2_streams"])):
            return (i, "refused", m["refused"], {"goaway": o["goaway"], "init": o["init"], "closed": o["closed"], "scopes": o["scopes"], "streams": o["h2_streams"]})
        sel = m["sel"]
        kind = ("h11bad" if o["closed"] else ("h11ws" if o["stream"] == "WSStream" else ("h11" if o["stream"] == "HTTPStream" else "h11wait"))) \
            if o["proto"] == "H11Protocol" else None
        if kind is not None and kind != sel:
            return (i, "sel", sel, kind)
        if kind is None and sel not in ("alpn", "prior", "h2c", "h2c_refused"):
            return (i, "sel", sel, o["proto"])
        if m["stream1"] is not None and states[i - 1]["stream1"] is None:
            sc = o["scopes"][0] if o["scopes"] else None
            hs = dict((n, v) for n, v in m["stream1"])
            want = {"method": hs.get(":method", "").upper(), "raw_path": hs.get(":path", "").partition("?")[0], "headers": filter_pseudo(m["stream1"]), "http_version": "2"}
            got = None if sc is None else {k: sc[k] for k in ("method", "raw_path", "headers", "http_version")}
            if got != want or 1 not in (o["h2_streams"] or []):
                return (i, "stream1", want, {"scope": got, "streams": o["h2_streams"]})
        elif sel in ("alpn", "prior") and i == 0 and o["scopes"]:
            return (i, "stream made up", None, o["scopes"])
    return None


# ------------------------------------------------------------------------------------------------------------
# h2's acceptance of an HTTP2-Settings value
# ------------------------------------------------------------------------------------------------------------
def h2_accepts(value: bytes) -> dict:
    """what `H2Protocol.initiate(headers, value.decode('latin1'))` meets in h2: a throw-away server connection"""
    c = h2.connection.H2Connection(config=h2.config.H2Configuration(client_side=False))
    s = value.decode("latin1")
    try:
        c.initiate_upgrade_connection(s)
    except (ValueError, hyperframe.exceptions.InvalidFrameError, h2.exceptions.InvalidSettingsValueError) as e:
        return {"accepts": False, "error": type(e).__name__}
    except Exception as e:  # anything else escapes H2Protocol.initiate
        return {"accepts": None, "error": type(e).__name__}
    decoded = None
    if s:
        try:
            decoded = base64.urlsafe_b64decode(s)
        except Exception:
            decoded = None
    return {"accepts": True, "error": None, "decoded": decoded, "remote": {int(k): int(v) for k, v in c.remote_settings.items()}}


def gen_settings_value(rng) -> bytes:
    ids = [1, 2, 3, 4, 5, 6, 8, 0, 7, 9, 16, 0xffff, rng.randrange(0x10000)]
    edge = {2: [0, 1, 2, 0xffffffff], 4: [0, 65535, 0x7fffffff, 0x80000000, 0xffffffff], 5: [0, 16383, 16384, 16777215, 16777216, 0xffffffff],
            8: [0, 1, 2, 77], 1: [0, 4096, 0xffffffff], 3: [0, 100, 0xffffffff], 6: [0, 16384, 0xffffffff]}
    n = rng.choice([0, 1, 1, 2, 2, 3, 5])
    raw = b""
    for _ in range(n):
        i = rng.choice(ids)
        good = {2: [0, 1], 4: [0, 65535, 0x7fffffff], 5: [16384, 16777215, 65536], 8: [0, 1]}
        pool = edge.get(i, [0, 1, rng.randrange(1 << 32)])
        v = rng.choice(good[i]) if i in good and rng.random() < 0.6 else rng.choice(pool)
        raw += struct.pack("!HL", i, v)
    how = rng.random()
    if how < 0.1:
        raw = raw + bytes(rng.randrange(256) for _ in range(rng.randint(1, 5)))          # not a multiple of 6
    enc = base64.urlsafe_b64encode(raw)
    m = rng.random()
    if m < 0.30:
        pass
    elif m < 0.40:
        enc = enc.rstrip(b"=")
    elif m < 0.50:
        enc = base64.b64encode(raw)                                                       # + and /
    elif m < 0.62:
        k = rng.randrange(len(enc) + 1)
        enc = enc[:k] + rng.choice([b"=", b"==", b" ", b"!", b"\t", b".", b"~", b"=A", b"\xe9", b"\x80"]) + enc[k:]
    elif m < 0.70:
        enc = enc[:rng.randrange(len(enc) + 1)]
    elif m < 0.78:
        enc = enc + rng.choice([b"=", b"==", b"===", b"A", b"AA", b"AAA", b"=AAAA", b"A=", b"A==", b"AA=", b"AA==", b"AAA="])
    elif m < 0.88:
        alpha = b"ABCDEFGHabcdefgh0123456789-_+/=  !\xff"
        enc = bytes(rng.choice(alpha) for _ in range(rng.randint(0, 24)))
    elif m < 0.94:
        b = bytearray(enc)
        if b:
            b[rng.randrange(len(b))] = rng.randrange(1, 256)
        enc = bytes(b)
    else:
        enc = rng.choice([b"abcd", b"AAAA", b"\xff\xfe", b"AAMAAABkAAQAAP__", b"AAMAAABkAAQAAP", b"=", b"A", b"====", b"AAUAAAAAAAUAAEAA", b"AAUAAEAAAAUAAAAA"])
    return enc


def compare_settings(model: dict, real: dict, value: bytes) -> Optional[str]:
    if real["accepts"] is None:
        return f"h2 raised {real['error']}, which H2Protocol.initiate does not catch"
    if model["accepts"] != real["accepts"]:
        return f"accepts: model {model['accepts']}, h2 {real['accepts']} ({real['error']})"
    if real["accepts"]:
        if value and real.get("decoded") is not None and model["decoded"] != b2s(real["decoded"]):
            return f"decoded: model {model['decoded']!r}, base64 {real['decoded']!r}"
        if model["applied"] is None:
            return "applied: model none"
        final: Dict[int, int] = {}
        for i, v in model["applied"]:
            final[i] = v
        for i, v in final.items():
            if real["remote"].get(i) != v:
                return f"setting {i}: model {v}, h2 {real['remote'].get(i)}"
    return None
