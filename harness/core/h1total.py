"""C04, HTTP/1 + WebSocket whole-flow totality: adversarial direct drive of the real `H11Protocol` (reads cut anywhere, WebSocket
frames of every kind, ANY application message to ANY stream object at any time, closes, shutdown), the tap log replayed through
`c04.h1total` (LibWf / escape site / rejected per op, from `HC.Proto.H11.enabled` / `escapeT` / `stepT`) and `proto.h11` (state).

What is compared, per op group:
  * LibWf holds of every tapped library result (`wf`): h11 / wsproto / the scheduler did nothing the theorem's hypothesis excludes;
  * the model names an escape site  <=>  an exception left the real reader (`handler_exception`);
  * the model never says "rejected" for a run the real code completed, h11's two states agree after every group."""
from __future__ import annotations

import asyncio
from typing import Any, Dict, List, Optional

from . import h11drive as H
from . import h11sessions as HS
from .framework import Ctx, b2s, s2b

WS_KEY = "dGhlIHNhbXBsZSBub25jZQ=="

HTTP_MSGS = [
    # (no content-length among the application's headers: h11's body-framing checks — too much / too little data for a declared
    #  Content-Length, raised into the application's send — are outside the state machine H11M models)
    {"type": "http.response.start", "status": 200, "headers": [(b"x-a", b"1")]},
    {"type": "http.response.start", "status": 200, "headers": []},
    {"type": "http.response.start", "status": 204, "headers": []},
    {"type": "http.response.start", "status": 101, "headers": []},
    {"type": "http.response.start", "status": 150, "headers": []},
    {"type": "http.response.start", "status": 200, "headers": [(b"connection", b"close")]},
    {"type": "http.response.start", "status": 200, "headers": [(b"x\r\n", b"1")]},
    {"type": "http.response.start", "headers": []},
    {"type": "http.response.body", "body": b"ok"},
    {"type": "http.response.body", "body": b"a", "more_body": True},
    {"type": "http.response.body"},
    {"type": "http.response.body", "body": "str"},
    {"type": "http.response.trailers", "headers": []},
    {"type": "http.response.push", "path": "/p", "headers": []},
    {"type": "http.response.early_hint", "links": [b"</x>"]},
    {"type": "websocket.accept"},
    {"type": "nonsense"},
    None,
]
WS_MSGS = [
    {"type": "websocket.accept"},
    {"type": "websocket.accept", "subprotocol": "nope"},
    {"type": "websocket.accept", "headers": [(b"x-a", b"1")]},
    {"type": "websocket.http.response.start", "status": 403, "headers": [(b"x-why", b"no")]},
    {"type": "websocket.http.response.start", "status": 150, "headers": []},
    {"type": "websocket.http.response.start", "status": 101, "headers": []},
    {"type": "websocket.http.response.start", "status": 204, "headers": []},
    {"type": "websocket.http.response.start", "headers": []},
    {"type": "websocket.http.response.body", "body": b"denied"},
    {"type": "websocket.http.response.body", "body": b"d", "more_body": True},
    {"type": "websocket.http.response.body"},
    {"type": "websocket.send", "text": "hello"},
    {"type": "websocket.send", "bytes": b"\x00\x01"},
    {"type": "websocket.send", "text": 5},
    {"type": "websocket.send"},
    {"type": "websocket.close"},
    {"type": "websocket.close", "code": 4000},
    {"type": "http.response.start", "status": 200, "headers": []},
    {"type": "nonsense"},
    None,
]


def request_bytes(rng, kind: str) -> bytes:
    if kind == "plain":
        return b"GET /a?x=1 HTTP/1.1\r\nHost: x\r\n\r\n"
    if kind == "head":
        return b"HEAD /h HTTP/1.1\r\nHost: x\r\n\r\n"
    if kind == "body":
        return b"POST /b HTTP/1.1\r\nHost: x\r\nContent-Length: 5\r\n\r\nhello"
    if kind == "chunked":
        return b"POST /c HTTP/1.1\r\nHost: x\r\nTransfer-Encoding: chunked\r\n\r\n3\r\nabc\r\n0\r\n\r\n"
    if kind == "expect":
        return b"POST /e HTTP/1.1\r\nHost: x\r\nExpect: 100-continue\r\nContent-Length: 3\r\n\r\nabc"
    if kind == "close":
        return b"GET /c HTTP/1.1\r\nHost: x\r\nConnection: close\r\n\r\n"
    if kind == "http10":
        return b"GET /o HTTP/1.0\r\n\r\n"
    if kind == "connect":
        return b"CONNECT x:80 HTTP/1.1\r\nHost: x\r\n\r\n"
    if kind == "upgrade_other":
        return b"GET /u HTTP/1.1\r\nHost: x\r\nUpgrade: foo\r\nConnection: upgrade\r\n\r\n"
    if kind == "ws":
        up = rng.choice(["websocket", "WebSocket", " websocket "])
        return (f"GET /ws HTTP/1.1\r\nHost: x\r\nUpgrade: {up}\r\nConnection: keep-alive, Upgrade\r\nSec-WebSocket-Key: {WS_KEY}\r\n"
                f"Sec-WebSocket-Version: 13\r\n\r\n").encode()
    if kind == "ws_bad":
        return (f"GET /ws HTTP/1.1\r\nHost: x\r\nUpgrade: websocket\r\nConnection: Upgrade\r\nSec-WebSocket-Version: 12\r\n\r\n").encode()
    if kind == "ws_expect":
        return (f"GET /ws HTTP/1.1\r\nHost: x\r\nUpgrade: websocket\r\nConnection: Upgrade\r\nSec-WebSocket-Key: {WS_KEY}\r\n"
                f"Sec-WebSocket-Version: 13\r\nExpect: 100-continue\r\nContent-Length: 2\r\n\r\n").encode()
    if kind == "h2c":
        return b"GET / HTTP/1.1\r\nHost: x\r\nUpgrade: h2c\r\nConnection: Upgrade, HTTP2-Settings\r\nHTTP2-Settings: \r\n\r\n"
    if kind == "prior":
        return b"PRI * HTTP/2.0\r\n\r\nSM\r\n\r\n"
    if kind == "bad_name":
        return b"GET /n HTTP/1.1\r\nHost: other\r\n\r\n"
    if kind == "garbage":
        return rng.choice([b"\x00\x01\x02 garbage\r\n\r\n", b"GET / HTTP/9.9\r\n\r\n", b"GET /\x80 HTTP/1.1\r\nHost: x\r\n\r\n", b"G" * 70000,
                           b"GET / HTTP/1.1\r\nHost: x\r\nContent-Length: x\r\n\r\n"])
    raise KeyError(kind)


REQ_KINDS = ["plain", "head", "body", "chunked", "expect", "close", "http10", "connect", "upgrade_other", "ws", "ws", "ws_bad", "ws_expect",
             "h2c", "prior", "bad_name", "garbage"]

# --- bytes 0x80-0xff (obs-text: h11 accepts them in field values) in the VALUES of the headers hypercorn interprets itself ---------
INTERPRETED = [b"Connection", b"Upgrade", b"Host", b"Expect", b"Content-Length", b"Transfer-Encoding", b"HTTP2-Settings",
               b"Sec-WebSocket-Key", b"Sec-WebSocket-Version", b"Sec-WebSocket-Protocol", b"Sec-WebSocket-Extensions"]
# latin-1 whitespace (NEL, NBSP), letters with and without a case partner, the two ends of the range, a UTF-8 pair
OBS_BYTES = [b"\x80", b"\x85", b"\xa0", b"\xb5", b"\xc9", b"\xdf", b"\xe9", b"\xff", b"\xc3\xa9"]
OBS_HOWS = ["replace", "prefix", "suffix", "token", "whole", "second_header"]


def obs_text(head: bytes, name: bytes, how: str, ob: bytes) -> bytes:
    """`head` (a request head ending in CRLF CRLF, possibly followed by a body) with a non-ASCII byte put into the value of header
    `name` (added when the request does not carry it): one character replaced / value prefixed / suffixed / an extra comma token /
    the whole value / a second header line of that name"""
    end = head.find(b"\r\n\r\n")
    if end < 0:
        return head
    lines = head[:end].split(b"\r\n")
    rest = head[end:]
    idx = next((i for i, l in enumerate(lines[1:], 1) if l.split(b":", 1)[0].strip().lower() == name.lower()), None)
    if idx is None:
        lines.append(name + b": " + ob + (b"x" if how in ("prefix", "token") else b""))
        return b"\r\n".join(lines) + rest
    n, v = lines[idx].split(b":", 1)
    v = v.strip()
    if how == "replace" and len(v) > 1:
        v = v[:1] + ob + v[2:]
    elif how == "prefix":
        v = ob + v
    elif how == "suffix":
        v = v + ob
    elif how == "token":
        v = v + b", " + ob
    elif how == "second_header":
        lines.insert(idx + 1, n + b": " + ob)
    else:
        v = ob
    lines[idx] = n + b": " + v
    return b"\r\n".join(lines) + rest


def obs_corpus() -> List[dict]:
    """deterministic: every interpreted header x (plain request, WebSocket handshake, h2c upgrade, request with a body) x placement;
    a good request follows on the same connection where it can"""
    import random
    rng = random.Random(7)
    out: List[dict] = []
    k = 0
    for base in ("plain", "ws", "h2c", "body", "chunked", "expect", "close"):
        for name in INTERPRETED:
            for how in OBS_HOWS:
                k += 1
                if base in ("h2c", "body", "chunked", "expect", "close") and k % 3:
                    continue         # the two main bases carry the full grid, the others a third of it
                ob = OBS_BYTES[k % len(OBS_BYTES)]
                data = obs_text(request_bytes(rng, base), name, how, ob)
                steps = [{"data": b2s(data)}, {"send": [0, 0]}, {"send": [0, 8]}, {"data": b2s(request_bytes(rng, "plain"))}, {"send": [1, 0]},
                         {"send": [1, 8]}, {"data": ""}]
                out.append({"family": "h1direct", "kinds": [base + "+obs:" + name.decode().lower()], "split": "one", "steps": steps, "ws_max": 16777216,
                            "keep_alive_max": 1000, "server_names": ["x"] if name == b"Host" and k % 2 else [], "raw_headers": k % 5 == 0,
                            "ping": False, "seed": k, "obs": [[name.decode(), how, b2s(ob)]]})
    return out


# --- header NAMES in the case the client chose (field names are case-insensitive; with `h11_pass_raw_headers` they reach the streams as
#     written, while h11 / `_create_stream` / `_check_protocol` work on the lower-cased ones) -----------------------------------------
NAME_STYLES = {"lower": lambda n: n.lower(), "Cap": lambda n: b"-".join(p.capitalize() for p in n.lower().split(b"-")), "UPPER": lambda n: n.upper(),
               "mIxEd": lambda n: bytes(c ^ 0x20 if (i % 2 and chr(c).isalpha()) else c for i, c in enumerate(n.lower()))}


def recase_names(req: bytes, style_of) -> bytes:
    """`req` (a request head ending in CRLF CRLF, possibly followed by a body) with every header name rewritten in the style
    `style_of(lower-case name)` names (a key of NAME_STYLES; None = as it is)"""
    end = req.find(b"\r\n\r\n")
    if end < 0:
        return req
    lines = req[:end].split(b"\r\n")
    for i in range(1, len(lines)):
        if b":" not in lines[i]:
            continue
        n, v = lines[i].split(b":", 1)
        st = style_of(n.strip().lower())
        if st is not None:
            lines[i] = NAME_STYLES[st](n) + b":" + v
    return b"\r\n".join(lines) + req[end:]


def names_corpus() -> List[dict]:
    """deterministic direct-drive sessions: a WebSocket handshake (accepted by the application, then a frame and the client's close) and
    a plain request whose header names are written per header in another case - each interpreted header alone in another style than the
    rest, all in one style - with `h11_pass_raw_headers` on (every one) and off (a third); a good request follows where it can"""
    import random
    rng = random.Random(11)
    ws = (f"GET /ws HTTP/1.1\r\nhost: x\r\nupgrade: websocket\r\nconnection: keep-alive, Upgrade\r\nsec-websocket-key: {WS_KEY}\r\n"
          f"sec-websocket-version: 13\r\nsec-websocket-protocol: chat\r\n\r\n").encode()
    ws_nokey = ws.replace(f"sec-websocket-key: {WS_KEY}\r\n".encode(), b"")
    plain = b"POST /b HTTP/1.1\r\nhost: x\r\nconnection: keep-alive\r\ncontent-length: 2\r\nexpect: 100-continue\r\n\r\nhi"
    names = [b"host", b"upgrade", b"connection", b"sec-websocket-key", b"sec-websocket-version", b"sec-websocket-protocol", b"content-length", b"expect"]
    patterns = [(f"all_{st}", (lambda n, st=st: st)) for st in ("Cap", "UPPER", "mIxEd")]
    for nm in names:
        for st in ("Cap", "UPPER"):
            patterns.append((f"only_{nm.decode()}_{st}", (lambda n, nm=nm, st=st: st if n == nm else "lower")))
        patterns.append((f"only_{nm.decode()}_lower", (lambda n, nm=nm: "lower" if n == nm else "Cap")))
    out: List[dict] = []
    k = 0
    for base, req in (("ws", ws), ("ws_nokey", ws_nokey), ("body", plain)):
        for pname, style in patterns:
            for raw in (True, False):
                k += 1
                if not raw and k % 3:
                    continue
                data = recase_names(req, style)
                if data == req:
                    continue          # the request does not carry that header
                steps = [{"data": b2s(data)}, {"send": [0, 0]}]
                if base == "ws":
                    steps += [{"data": b2s(ws_frames(rng, 2))}, {"send": [0, 11]}, {"data": ""}]
                else:
                    steps += [{"send": [0, 8]}, {"data": b2s(request_bytes(rng, "plain"))}, {"send": [1, 0]}, {"send": [1, 8]}, {"data": ""}]
                out.append({"family": "h1direct", "kinds": [base + "+names:" + pname], "split": "one", "steps": steps, "ws_max": 16777216,
                            "keep_alive_max": 1000, "server_names": ["x"] if k % 4 == 0 else [], "raw_headers": raw,
                            "ping": False, "seed": k, "obs": []})
    return out


def ws_frames(rng, n: int) -> bytes:
    """client frames: text / binary, fragmented or not, control frames in between, closes, some garbage"""
    from wsproto.connection import Connection, ConnectionType
    from wsproto.events import BytesMessage, CloseConnection, Ping, Pong, TextMessage
    c = Connection(ConnectionType.CLIENT)
    out = b""
    for _ in range(n):
        k = rng.choice(["text", "text_frag", "bytes", "bytes_frag", "ping", "pong", "close", "big", "garbage", "bad_utf8"])
        try:
            if k == "text":
                out += c.send(TextMessage(data="hi"))
            elif k == "text_frag":
                out += c.send(TextMessage(data="a", message_finished=False))
                if rng.random() < 0.5:
                    out += c.send(Ping(payload=b"p"))
                out += c.send(TextMessage(data="b", message_finished=rng.random() < 0.8))
            elif k == "bytes":
                out += c.send(BytesMessage(data=b"\x00\x01"))
            elif k == "bytes_frag":
                out += c.send(BytesMessage(data=b"x", message_finished=False))
                out += c.send(BytesMessage(data=b"y", message_finished=True))
            elif k == "ping":
                out += c.send(Ping(payload=b"12"))
            elif k == "pong":
                out += c.send(Pong(payload=b""))
            elif k == "close":
                out += c.send(CloseConnection(code=rng.choice([1000, 1001, 4000])))
            elif k == "big":
                out += c.send(BytesMessage(data=b"z" * 300))
            elif k == "garbage":
                out += bytes(rng.randrange(256) for _ in range(rng.choice([1, 2, 7])))
            elif k == "bad_utf8":
                out += b"\x81\x82\x00\x00\x00\x00\xff\xfe"
        except Exception:
            out += b"\x88\x80\x00\x00\x00\x00"        # the client library refused (already closing): a bare close frame
    return out


def gen_case(rng, idx: int) -> dict:
    kinds = [rng.choice(REQ_KINDS) for _ in range(rng.choice([1, 1, 2, 2, 3]))]
    ws_max = rng.choice([16777216, 16777216, 100, 1])
    data = b""
    obs = []
    cased = False
    for k in kinds:
        req = request_bytes(rng, k)
        if k not in ("prior", "garbage") and rng.random() < 0.2:
            o = (rng.choice(INTERPRETED), rng.choice(OBS_HOWS), rng.choice(OBS_BYTES))
            req = obs_text(req, *o)
            obs.append([o[0].decode(), o[1], b2s(o[2])])
        if k not in ("prior", "garbage") and rng.random() < 0.25:
            # header names in a case of the client's choosing, per header
            pick = {}
            req = recase_names(req, lambda n: pick.setdefault(n, rng.choice(["lower", "lower", "Cap", "UPPER", "mIxEd", None])))
            cased = True
        data += req
        if k in ("ws", "ws_expect", "ws_bad") and rng.random() < 0.8:
            # with a small message limit: several messages of both kinds, so that something follows the one that went over it
            data += ws_frames(rng, rng.choice([1, 2, 4]) if ws_max > 100 else rng.choice([3, 5, 8]))
    split = rng.choice(["one", "random", "random", "per_request"])
    steps: List[dict] = []
    if kinds[0] in ("ws", "ws_expect") and rng.random() < 0.6:
        # an accepted WebSocket: the handshake alone, the application's accept (message 0 of the pool), then everything else
        head = data[:data.find(b"\r\n\r\n") + 4] if (obs or cased) else request_bytes(rng, kinds[0])
        rest = data[len(head):] if data.startswith(head) else ws_frames(rng, 4)
        steps += [{"data": b2s(head)}, {"send": [0, 0]}]
        data = rest if rest else ws_frames(rng, 3)
    reads = HS.split_bytes(rng, data, split if split != "per_request" else "random")
    pending = [{"data": b2s(r)} for r in reads]
    n_sends = rng.choice([2, 4, 6, 9])
    total = len(pending) + n_sends
    closed_at = rng.choice([None, None, total, rng.randrange(total + 1)])
    term_at = rng.choice([None, None, None, rng.randrange(total + 1)])
    deferred_at = rng.choice([None, rng.randrange(total + 1), total])
    for pos in range(total + 1):
        if deferred_at == pos:
            steps.append({"deferred": 1})
        if closed_at == pos:
            steps.append({"closed": 1})
        if term_at == pos:
            steps.append({"terminate": 1})
        if pos == total:
            break
        if pending and (rng.random() < len(pending) / (len(pending) + n_sends + 0.01) or n_sends == 0):
            steps.append(pending.pop(0))
        else:
            n_sends -= 1
            oid = rng.choice([0, 0, 0, 1, 1, 2])
            steps.append({"send": [oid, rng.randrange(1000)]})       # the message is chosen by the kind of object at run time
    steps += pending
    if rng.random() < 0.5:
        steps.append({"data": ""})
    if rng.random() < 0.5:
        steps.append({"deferred": 1})
    return {"family": "h1direct", "kinds": kinds, "split": split, "steps": steps, "ws_max": ws_max,
            "keep_alive_max": rng.choice([1, 2, 1000]), "server_names": rng.choice([[], [], ["x"]]), "raw_headers": rng.random() < 0.3,
            "ping": rng.random() < 0.2, "seed": rng.randrange(1 << 30), "obs": obs}


def _jsonable_msg(m: Optional[dict]) -> Any:
    if m is None:
        return None
    out = {}
    for k, v in m.items():
        if isinstance(v, bytes):
            out[k] = {"b": b2s(v)}
        elif isinstance(v, list):
            out[k] = [[b2s(a), b2s(b)] if isinstance(a, bytes) else [a, b] for a, b in v] if v and isinstance(v[0], tuple) else [
                {"b": b2s(x)} if isinstance(x, bytes) else x for x in v]
        else:
            out[k] = v
    return out


async def _drive(case: dict):
    """like H.drive_h11 with a policy: the message of a `send` step is drawn for the kind of the object it goes to"""
    import random
    rng = random.Random(case["seed"])
    cfg: Dict[str, Any] = {"keep_alive_max_requests": case["keep_alive_max"], "websocket_max_message_size": case["ws_max"]}
    if case["server_names"]:
        cfg["server_names"] = case["server_names"]
    if case["raw_headers"]:
        cfg["h11_pass_raw_headers"] = True
    if case["ping"]:
        cfg["websocket_ping_interval"] = 1000.0
    steps = list(case["steps"])
    sent: List[Any] = []

    def policy(view):
        while steps:
            st = steps.pop(0)
            if "data" in st:
                if view["parked"] or view["up_closed"]:
                    continue
                return {"data": s2b(st["data"])}
            if "send" in st:
                oid, pick = st["send"]
                if oid >= view["objs"]:
                    continue
                kind = view["kinds"].get(oid)
                pool = WS_MSGS if kind == "websocket" else HTTP_MSGS
                if kind is None:
                    continue          # a stream that answered by itself: no application was started for it
                msg = pool[pick % len(pool)]
                sent.append(_jsonable_msg(msg))
                return {"send": [oid, msg]}
            return st
        return None

    mops, obs, lib = await H.drive_h11(cfg, policy)
    return cfg, mops, obs, lib


def run_case(case: dict):
    return asyncio.run(_drive(case))


def check(ctx: Ctx, cases: List[dict]) -> None:
    runs = []
    reqs: List[dict] = []
    for case in cases:
        cfg, mops, obs, lib = run_case(case)
        ctx.evaluations += 1
        for k in case["kinds"]:
            ctx.count("h1direct.request", k)
        for o in case.get("obs") or []:
            ctx.count("h1direct.obs_text", f"{o[0].lower()}:{o[1]}")
        # trusted library fact behind `fieldAscii` (h1_decode_sites_total): request-line fields and header names are ASCII
        for mo in mops:
            if mo.get("k") == "request":
                fields = [mo["method"], mo["target"], mo.get("version", "")] + [h[0] for h in mo["headers"]]
                if any(ord(c) > 127 for f in fields for c in f):
                    ctx.disagree("c04.h1total(LibWf: h11 handed over a non-ASCII method / target / version / header name)",
                                 {"family": "h1direct", "seed": case["seed"], "case": case}, None, {"request": mo})
        req = H.h11_model_req(cfg, mops, lib, HS.SERVER_HEADERS)
        reqs += [{**req, "cmd": "c04.h1total"}, req]
        runs.append((case, mops, obs))
    allres = ctx.model(reqs) if reqs else None          # one driver process for the whole batch
    for n, (case, mops, obs) in enumerate(runs):
        short = {"family": "h1direct", "seed": case["seed"], "kinds": case["kinds"], "case": case}
        if allres is None:
            continue
        res = allres[2 * n: 2 * n + 2]
        ctx.disagreements_checked += 1
        tot, st = res[0].get("ok"), res[1].get("ok")
        if tot is None or st is None:
            ctx.disagree("c04.h1total", short, res, None)
            continue
        # group ops by observation
        acc: List[int] = []
        impl_exc = None
        ok = True
        for i, o in enumerate(obs):
            acc.append(i)
            if o is None:
                continue
            t = [tot[j] for j in acc if tot[j] is not None]
            wf_bad = [j for j in acc if tot[j] is not None and not tot[j]["wf"]]
            escapes = [tot[j]["escape"] for j in acc if tot[j] is not None and tot[j]["escape"]]
            rejected = any(x["rejected"] for x in t) or len(t) < len(acc)
            kinds = [mops[j]["op"] + (":" + mops[j]["k"] if "k" in mops[j] else "") for j in acc]
            for kname in kinds:
                ctx.count("h1direct.op", kname)
            if wf_bad:
                # a library result / schedule the hypothesis of total_h1 excludes was observed on the real libraries
                ctx.disagree("c04.h1total(LibWf)", short, {"ops": [mops[j] for j in wf_bad][:3], "kinds": kinds}, {"obs": {k: o.get(k) for k in ("their", "our", "cur")}})
                ok = False
                break
            exc = o.get("handler_exception")
            if exc:
                impl_exc = exc        # judged on the implementation, whatever the model says
            if bool(escapes) != bool(exc):
                ctx.disagree("c04.h1total(escape)", short, {"escape": escapes, "kinds": kinds}, {"handler_exception": exc})
                ok = False
                break
            if exc:
                break
            if rejected:
                ctx.disagree("c04.h1total(rejected)", short, {"kinds": kinds, "tot": t[-3:]}, {"outs": o["outs"][-6:]})
                ok = False
                break
            m = st[acc[-1]]
            if m.get("rejected") or (o["their"] is not None and o["their"] != m["their"]) or (o["our"] is not None and o["our"] != m["our"]) \
                    or o["cur"] != m["cur"]:
                ctx.disagree("c04.h1total(state)", short, {k: m.get(k) for k in ("their", "our", "cur", "rejected")},
                             {k: o.get(k) for k in ("their", "our", "cur")})
                ok = False
                break
            acc = []
        if impl_exc:
            # the property itself, judged on the implementation: an exception left the connection handler
            ctx.violation("handler_exception", short, {"error": impl_exc}, {"family": "h1direct", "error": impl_exc})
        elif ok:
            ctx.traces_validated += 1
            evs = [m.get("k") for m in mops if m["op"] == "ev"]
            if "wsData" in evs or "protoError" in evs or len([k for k in evs if k == "request"]) > 1:
                ctx.distinct(["h1direct", sorted(set(case["kinds"])), sorted(set(e for e in evs if e))])
        ctx.sample({"family": "h1direct", "kinds": case["kinds"], "ops": len(mops)}, cap=2)
