"""Independent client-side parsers (h11 / h2 / wsproto in CLIENT role): the oracle for "what the client sees"."""
from __future__ import annotations

from typing import Any, Dict, List, Optional, Tuple

import h11
import h2.config
import h2.connection
import h2.events
import h2.exceptions
import h2.settings

from .framework import b2s


# ------------------------------------------------------------------------------------------------------------
# HTTP/1
# ------------------------------------------------------------------------------------------------------------
def h1_request(method: str, target: str, headers: List[Tuple[bytes, bytes]], body: bytes = b"", version: str = "1.1",
               chunks: Optional[List[bytes]] = None) -> bytes:
    """Serialise by hand (so that odd but legal shapes can be produced); `chunks` → chunked transfer coding."""
    lines = [f"{method} {target} HTTP/{version}".encode("latin1")]
    hs = list(headers)
    if chunks is not None:
        hs.append((b"transfer-encoding", b"chunked"))
    elif body or method in ("POST", "PUT", "PATCH"):
        if not any(n.lower() == b"content-length" for n, _ in hs):
            hs.append((b"content-length", str(len(body)).encode()))
    for n, v in hs:
        lines.append(n + b": " + v)
    head = b"\r\n".join(lines) + b"\r\n\r\n"
    if chunks is not None:
        out = head
        for c in chunks:
            if c:
                out += f"{len(c):x}".encode() + b"\r\n" + c + b"\r\n"
        return out + b"0\r\n\r\n"
    return head + body


def parse_h1(out: bytes, methods: List[str], server_closed: bool = True) -> dict:
    """Parse the server's byte stream as the responses to `methods` (in order)."""
    conn = h11.Connection(h11.CLIENT)
    responses: List[dict] = []
    error = None
    fed = False
    trailing = b""
    for method in methods:
        try:
            conn.send(h11.Request(method=method, target="/", headers=[("host", "x")]))
            conn.send(h11.EndOfMessage())
        except h11.LocalProtocolError as e:
            break
        if not fed:
            conn.receive_data(out)
            if server_closed:
                conn.receive_data(b"")
            fed = True
        cur: Optional[dict] = None
        done = False
        try:
            while True:
                ev = conn.next_event()
                if ev is h11.NEED_DATA or ev is h11.PAUSED:
                    break
                if isinstance(ev, h11.InformationalResponse):
                    responses.append({"informational": True, "status": ev.status_code, "headers": [[b2s(n), b2s(v)] for n, v in ev.headers]})
                elif isinstance(ev, h11.Response):
                    cur = {"status": ev.status_code, "headers": [[b2s(n), b2s(v)] for n, v in ev.headers], "body": b"", "complete": False,
                           "http_version": ev.http_version.decode()}
                    responses.append(cur)
                elif isinstance(ev, h11.Data):
                    if cur is not None:
                        cur["body"] += bytes(ev.data)
                elif isinstance(ev, h11.EndOfMessage):
                    if cur is not None:
                        cur["complete"] = True
                        cur["trailers"] = [[b2s(n), b2s(v)] for n, v in ev.headers]
                    done = True
                    break
                elif isinstance(ev, h11.ConnectionClosed):
                    break
        except h11.RemoteProtocolError as e:
            # the connection ended where a response (or the rest of one) was still expected
            if cur is None and "ConnectionClosed" in str(e):
                break
            error = str(e)
            break
        if not done:
            break
        if conn.our_state is h11.DONE and conn.their_state is h11.DONE:
            try:
                conn.start_next_cycle()
            except h11.LocalProtocolError:
                break
        else:
            break
    try:
        trailing = conn.trailing_data[0]
    except Exception:
        pass
    for r in responses:
        if "body" in r:
            r["body"] = b2s(r["body"])
    return {"responses": responses, "error": error, "their_state": str(conn.their_state), "trailing": b2s(trailing)}


# ------------------------------------------------------------------------------------------------------------
# HTTP/2
# ------------------------------------------------------------------------------------------------------------
class H2Client:
    """h2 in client role; raises (h2 exceptions) on any flow-control / framing violation by the server."""

    def __init__(self, initial_window: Optional[int] = None, max_frame: Optional[int] = None, enable_push: bool = False,
                 auto_window: bool = True) -> None:
        self.conn = h2.connection.H2Connection(config=h2.config.H2Configuration(client_side=True, header_encoding=None))
        settings = {h2.settings.SettingCodes.ENABLE_PUSH: int(enable_push)}
        if initial_window is not None:
            settings[h2.settings.SettingCodes.INITIAL_WINDOW_SIZE] = initial_window
        if max_frame is not None:
            settings[h2.settings.SettingCodes.MAX_FRAME_SIZE] = max_frame
        self.conn.local_settings.update(settings)
        self.conn.initiate_connection()
        self.auto_window = auto_window
        self.streams: Dict[int, dict] = {}
        self.goaway: Optional[dict] = None
        self.error: Optional[str] = None
        self.events: List[list] = []
        self.unacked: Dict[int, int] = {}
        self.remote_settings: Dict[int, int] = {}
        self.pending: Dict[int, list] = {}
        self._sent: Dict[int, bool] = {}

    def out(self) -> bytes:
        return self.conn.data_to_send()

    def _st(self, sid: int) -> dict:
        return self.streams.setdefault(sid, {"headers": None, "informational": [], "data": b"", "frames": [], "ended": False, "reset": None,
                                              "trailers": None, "pushed": []})

    def request(self, headers: List[Tuple[bytes, bytes]], body: Optional[bytes] = None, end: bool = True, sid: Optional[int] = None) -> int:
        sid = sid or self.conn.get_next_available_stream_id()
        self.conn.send_headers(sid, headers, end_stream=(body is None and end))
        self._st(sid)
        if body is not None:
            self.send_data(sid, body, end)
        return sid

    def send_data(self, sid: int, body: bytes, end: bool) -> None:
        """queue request body; `flush()` sends what the server's windows allow"""
        self.pending.setdefault(sid, [b"", False])
        self.pending[sid][0] += body
        self.pending[sid][1] = end
        self.flush()

    def flush(self) -> None:
        for sid in list(self.pending):
            body, end = self.pending[sid]
            while True:
                if not body:
                    if end:
                        self.conn.send_data(sid, b"", end_stream=True) if self._sent.get(sid) is None else self.conn.end_stream(sid)
                    del self.pending[sid]
                    break
                try:
                    room = min(self.conn.local_flow_control_window(sid), self.conn.max_outbound_frame_size)
                except Exception:
                    del self.pending[sid]
                    break
                if room <= 0:
                    self.pending[sid][0] = body
                    break
                chunk, body = body[:room], body[room:]
                last = end and not body
                self.conn.send_data(sid, chunk, end_stream=last)
                self._sent[sid] = True
                if last:
                    del self.pending[sid]
                    break

    async def pump(self, io, rounds: int = 50) -> None:
        """exchange bytes with the server until nothing moves"""
        for _ in range(rounds):
            data = io.take()
            self.receive(data)
            self.flush()
            out = self.out()
            if not data and not out:
                return
            if out:
                await io.send(out)
            else:
                await io.settle()

    def receive(self, data: bytes) -> None:
        if not data or self.error:
            return
        try:
            events = self.conn.receive_data(data)
        except h2.exceptions.ProtocolError as e:
            self.error = f"{type(e).__name__}: {e}"
            return
        for ev in events:
            if isinstance(ev, h2.events.ResponseReceived):
                self._st(ev.stream_id)["headers"] = [[b2s(n), b2s(v)] for n, v in ev.headers]
                self.events.append(["headers", ev.stream_id])
            elif isinstance(ev, h2.events.InformationalResponseReceived):
                self._st(ev.stream_id)["informational"].append([[b2s(n), b2s(v)] for n, v in ev.headers])
            elif isinstance(ev, h2.events.TrailersReceived):
                self._st(ev.stream_id)["trailers"] = [[b2s(n), b2s(v)] for n, v in ev.headers]
            elif isinstance(ev, h2.events.DataReceived):
                st = self._st(ev.stream_id)
                st["data"] += ev.data
                st["frames"].append(len(ev.data))
                self.events.append(["data", ev.stream_id, len(ev.data)])
                if self.auto_window and ev.flow_controlled_length:
                    self.conn.acknowledge_received_data(ev.flow_controlled_length, ev.stream_id)
                else:
                    self.unacked[ev.stream_id] = self.unacked.get(ev.stream_id, 0) + ev.flow_controlled_length
            elif isinstance(ev, h2.events.StreamEnded):
                self._st(ev.stream_id)["ended"] = True
                self.events.append(["end", ev.stream_id])
            elif isinstance(ev, h2.events.StreamReset):
                self._st(ev.stream_id)["reset"] = int(ev.error_code)
                self.events.append(["reset", ev.stream_id])
            elif isinstance(ev, h2.events.PushedStreamReceived):
                self._st(ev.parent_stream_id)["pushed"].append(ev.pushed_stream_id)
                self._st(ev.pushed_stream_id)["push_headers"] = [[b2s(n), b2s(v)] for n, v in ev.headers]
            elif isinstance(ev, h2.events.ConnectionTerminated):
                self.goaway = {"error_code": int(ev.error_code), "last_stream_id": ev.last_stream_id}
                self.events.append(["goaway", ev.last_stream_id])
            elif isinstance(ev, h2.events.RemoteSettingsChanged):
                for k, v in ev.changed_settings.items():
                    self.remote_settings[int(k)] = v.new_value

    def summary(self) -> dict:
        out = {}
        for sid, st in self.streams.items():
            d = dict(st)
            d["data"] = b2s(st["data"])
            out[str(sid)] = d
        return {"streams": out, "goaway": self.goaway, "error": self.error, "remote_settings": self.remote_settings}


def h2_headers(method: str, path: str, authority: str = "x", scheme: str = "http", extra: Optional[List[Tuple[bytes, bytes]]] = None,
               protocol: Optional[str] = None) -> List[Tuple[bytes, bytes]]:
    hs = [(b":method", method.encode()), (b":scheme", scheme.encode()), (b":authority", authority.encode()), (b":path", path.encode("latin1"))]
    if protocol:
        hs.insert(1, (b":protocol", protocol.encode()))
    return hs + list(extra or [])
