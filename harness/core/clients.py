"""Independent client-side parsers (h11 / h2 / wsproto in CLIENT role): the oracle for "what the client sees"."""
from __future__ import annotations

from typing import Any, Dict, List, Optional, Tuple

import h11
import h2.config
import h2.connection
import h2.events
import h2.exceptions
import h2.settings

from .framework import b2s


# ------------------------------------------------------------------------------------------------------------
# HTTP/1
# ------------------------------------------------------------------------------------------------------------
def h1_request(method: str, target: str, headers: List[Tuple[bytes, bytes]], body: bytes = b"", version: str = "1.1",
               chunks: Optional[List[bytes]] = None) -> bytes:
    """Serialise by hand (so that odd but legal shapes can be produced); `chunks` → chunked transfer coding."""
    lines = [f"{method} {target} HTTP/{version}".encode("latin1")]
    hs = list(headers)
    if chunks is not None:
        hs.append((b"transfer-encoding", b"chunked"))
    elif body or method in ("POST", "PUT", "PATCH"):
        if not any(n.lower() == b"content-length" for n, _ in hs):
            hs.append((b"content-length", str(len(body)).encode()))
    for n, v in hs:
        lines.append(n + b": " + v)
    head = b"\r\n".join(lines) + b"\r\n\r\n"
    if chunks is not None:
        out = head
        for c in chunks:
            if c:
                out += f"{len(c):x}".encode() + b"\r\n" + c + b"\r\n"
        return out + b"0\r\n\r\n"
    return head + body


def parse_h1(out: bytes, methods: List[str], server_closed: bool = True) -> dict:
    """Parse the server's byte stream as the responses to `methods` (in order)."""
    conn = h11.Connection(h11.CLIENT)
    responses: List[dict] = []
    error = None
    fed = False
    trailing = b""
    for method in methods:
        try:
            conn.send(h11.Request(method=method, target="/", headers=[("host", "x")]))
            conn.send(h11.EndOfMessage())
        except h11.LocalProtocolError as e:
            break
        if not fed:
            conn.receive_data(out)
            if server_closed:
                conn.receive_data(b"")
            fed = True
        cur: Optional[dict] = None
        done = False
        try:
            while True:
                ev = conn.next_event()
                if ev is h11.NEED_DATA or ev is h11.PAUSED:
                    break
                if isinstance(ev, h11.InformationalResponse):
                    responses.append({"informational": True, "status": ev.status_code, "headers": [[b2s(n), b2s(v)] for n, v in ev.headers]})
                elif isinstance(ev, h11.Response):
                    cur = {"status": ev.status_code, "headers": [[b2s(n), b2s(v)] for n, v in ev.headers], "body": b"", "complete": False,
                           "http_version": ev.http_version.decode()}
                    responses.append(cur)
                elif isinstance(ev, h11.Data):
                    if cur is not None:
                        cur["body"] += bytes(ev.data)
                elif isinstance(ev, h11.EndOfMessage):
                    if cur is not None:
                        cur["complete"] = True
                        cur["trailers"] = [[b2s(n), b2s(v)] for n, v in ev.headers]
                    done = True
                    break
                elif isinstance(ev, h11.ConnectionClosed):
                    break
        except h11.RemoteProtocolError as e:
            # the connection ended where a response (or the rest of one) was still expected
            if cur is None and "ConnectionClosed" in str(e):
                break
            error = str(e)
            break
        if not done:
            break
        if conn.our_state is h11.DONE and conn.their_state is h11.DONE:
            try:
                conn.start_next_cycle()
            except h11.LocalProtocolError:
                break
        else:
            break
    try:
        trailing = conn.trailing_data[0]
    except Exception:
        pass
    for r in responses:
        if "body" in r:
            r["body"] = b2s(r["body"])
    return {"responses": responses, "error": error, "their_state": str(conn.their_state), "trailing": b2s(trailing)}


# ------------------------------------------------------------------------------------------------------------
# HTTP/2
# ------------------------------------------------------------------------------------------------------------
class H2Client:
    """h2 in client role; raises (h2 exceptions) on any flow-control / framing violation by the server."""

    def __init__(self, initial_window: Optional[int] = None, max_frame: Optional[int] = None, enable_push: bool = False,
                 auto_window: bool = True, validate_outbound: bool = True, upgrade: bool = False) -> None:
        self.conn = h2.connection.H2Connection(config=h2.config.H2Configuration(
            client_side=True, header_encoding=None, validate_outbound_headers=validate_outbound,
            normalize_outbound_headers=validate_outbound))
        settings = {h2.settings.SettingCodes.ENABLE_PUSH: int(enable_push)}
        self.conn.local_settings.update(settings)
        # `upgrade`: the connection starts as an HTTP/1.1 request with `Upgrade: h2c`; `upgrade_settings` is the value of its
        # HTTP2-Settings header, the request is stream 1 (half-closed on this side) once the server has answered 101
        self.upgrade_settings: Optional[bytes] = None
        if upgrade:
            self.upgrade_settings = self.conn.initiate_upgrade_connection()
        else:
            self.conn.initiate_connection()
        # INITIAL_WINDOW_SIZE / MAX_FRAME_SIZE must actually reach the server: `local_settings.update()` before
        # `initiate_connection()` only queues a *pending* local value (h2 sends the current ones), so the client would
        # believe in a window the server never heard of.  A second SETTINGS frame right behind the preface carries them;
        # the client applies them when the server's ack arrives (the server applies them on receipt).
        wire = {}
        if initial_window is not None:
            wire[h2.settings.SettingCodes.INITIAL_WINDOW_SIZE] = initial_window
        if max_frame is not None:
            wire[h2.settings.SettingCodes.MAX_FRAME_SIZE] = max_frame
        if wire:
            self.conn.update_settings(wire)
        self.auto_window = auto_window
        self.streams: Dict[int, dict] = {}
        self.goaway: Optional[dict] = None
        self.error: Optional[str] = None
        self.events: List[list] = []
        self.unacked: Dict[int, int] = {}
        self.remote_settings: Dict[int, int] = {}
        self.pending: Dict[int, list] = {}
        self._sent: Dict[int, bool] = {}

    def out(self) -> bytes:
        return self.conn.data_to_send()

    def _st(self, sid: int) -> dict:
        return self.streams.setdefault(sid, {"headers": None, "informational": [], "data": b"", "frames": [], "ended": False, "reset": None,
                                              "trailers": None, "pushed": []})

    def request(self, headers: List[Tuple[bytes, bytes]], body: Optional[bytes] = None, end: bool = True, sid: Optional[int] = None) -> int:
        sid = sid or self.conn.get_next_available_stream_id()
        self.conn.send_headers(sid, headers, end_stream=(body is None and end))
        self._st(sid)
        if body is not None:
            self.send_data(sid, body, end)
        return sid

    def send_data(self, sid: int, body: bytes, end: bool) -> None:
        """queue request body; `flush()` sends what the server's windows allow"""
        self.pending.setdefault(sid, [b"", False])
        self.pending[sid][0] += body
        self.pending[sid][1] = end
        self.flush()

    def flush(self) -> None:
        for sid in list(self.pending):
            body, end = self.pending[sid]
            while True:
                if not body:
                    if end:
                        self.conn.send_data(sid, b"", end_stream=True) if self._sent.get(sid) is None else self.conn.end_stream(sid)
                    del self.pending[sid]
                    break
                try:
                    room = min(self.conn.local_flow_control_window(sid), self.conn.max_outbound_frame_size)
                except Exception:
                    del self.pending[sid]
                    break
                if room <= 0:
                    self.pending[sid][0] = body
                    break
                chunk, body = body[:room], body[room:]
                last = end and not body
                self.conn.send_data(sid, chunk, end_stream=last)
                self._sent[sid] = True
                if last:
                    del self.pending[sid]
                    break

    async def pump(self, io, rounds: int = 50) -> None:
        """exchange bytes with the server until nothing moves"""
        for _ in range(rounds):
            data = io.take()
            self.receive(data)
            self.flush()
            out = self.out()
            if not data and not out:
                return
            if out:
                await io.send(out)
            else:
                await io.settle()

    def receive(self, data: bytes) -> None:
        if not data or self.error:
            return
        try:
            events = self.conn.receive_data(data)
        except h2.exceptions.ProtocolError as e:
            self.error = f"{type(e).__name__}: {e}"
            return
        for ev in events:
            if isinstance(ev, h2.events.ResponseReceived):
                self._st(ev.stream_id)["headers"] = [[b2s(n), b2s(v)] for n, v in ev.headers]
                self.events.append(["headers", ev.stream_id])
            elif isinstance(ev, h2.events.InformationalResponseReceived):
                self._st(ev.stream_id)["informational"].append([[b2s(n), b2s(v)] for n, v in ev.headers])
            elif isinstance(ev, h2.events.TrailersReceived):
                self._st(ev.stream_id)["trailers"] = [[b2s(n), b2s(v)] for n, v in ev.headers]
            elif isinstance(ev, h2.events.DataReceived):
                st = self._st(ev.stream_id)
                st["data"] += ev.data
                st["frames"].append(len(ev.data))
                self.events.append(["data", ev.stream_id, len(ev.data)])
                if self.auto_window and self.auto_window != "connection" and ev.flow_controlled_length:
                    self.conn.acknowledge_received_data(ev.flow_controlled_length, ev.stream_id)
                else:
                    self.unacked[ev.stream_id] = self.unacked.get(ev.stream_id, 0) + ev.flow_controlled_length
                    if self.auto_window == "connection" and ev.flow_controlled_length:
                        # credit goes back to the connection only (a client whose consumer of THIS stream is slow or busy
                        # elsewhere): the stream's own window is opened by `grant()` alone
                        self.conn.increment_flow_control_window(ev.flow_controlled_length)
            elif isinstance(ev, h2.events.StreamEnded):
                self._st(ev.stream_id)["ended"] = True
                self.events.append(["end", ev.stream_id])
            elif isinstance(ev, h2.events.StreamReset):
                self._st(ev.stream_id)["reset"] = int(ev.error_code)
                self.events.append(["reset", ev.stream_id])
            elif isinstance(ev, h2.events.PushedStreamReceived):
                self._st(ev.parent_stream_id)["pushed"].append(ev.pushed_stream_id)
                self._st(ev.pushed_stream_id)["push_headers"] = [[b2s(n), b2s(v)] for n, v in ev.headers]
            elif isinstance(ev, h2.events.ConnectionTerminated):
                self.goaway = {"error_code": int(ev.error_code), "last_stream_id": ev.last_stream_id}
                self.events.append(["goaway", ev.last_stream_id])
            elif isinstance(ev, h2.events.RemoteSettingsChanged):
                for k, v in ev.changed_settings.items():
                    self.remote_settings[int(k)] = v.new_value

    def grant(self, sid: int, n: int) -> bool:
        """WINDOW_UPDATE for one stream (nothing for the connection); False when the stream is gone on this side"""
        try:
            self.conn.increment_flow_control_window(n, sid)
            return True
        except (h2.exceptions.ProtocolError, KeyError):      # closed / reset; h2 has forgotten a closed stream: KeyError
            return False

    def summary(self) -> dict:
        out = {}
        for sid, st in self.streams.items():
            d = dict(st)
            d["data"] = b2s(st["data"])
            out[str(sid)] = d
        return {"streams": out, "goaway": self.goaway, "error": self.error, "remote_settings": self.remote_settings}


def h2_headers(method: str, path: str, authority: str = "x", scheme: str = "http", extra: Optional[List[Tuple[bytes, bytes]]] = None,
               protocol: Optional[str] = None) -> List[Tuple[bytes, bytes]]:
    hs = [(b":method", method.encode()), (b":scheme", scheme.encode()), (b":authority", authority.encode()), (b":path", path.encode("latin1"))]
    if protocol:
        hs.insert(1, (b":protocol", protocol.encode()))
    return hs + list(extra or [])


# ------------------------------------------------------------------------------------------------------------
# WebSocket
# ------------------------------------------------------------------------------------------------------------
class WsClient:
    """Independent WebSocket client: wsproto `Connection(ConnectionType.CLIENT, …)` parses what the server sends;
    the opening handshake is written by hand (HTTP/1.1 upgrade) or carried by `H2Client` (RFC 8441 extended CONNECT);
    outgoing frames are serialised here (RFC 6455 §5.2: FIN/RSV/opcode, 7/16/64-bit length, client mask taken from the
    harness RNG) so that a text message can be cut *inside* a UTF-8 code point and every byte is reproducible;
    permessage-deflate goes through wsproto's `PerMessageDeflate` extension object.

    Collected: `messages` [(kind, payload)], `pongs`, `pings` (from the server), `close_code` / `close_reason`,
    `handshake` {status, headers, body, complete}, `accept_oracle` (what wsproto's own client handshake says about the
    101 response: "accepted" / "rejected" / "error: …")."""

    OP_CONT, OP_TEXT, OP_BIN, OP_CLOSE, OP_PING, OP_PONG = 0, 1, 2, 8, 9, 10

    def __init__(self, rng=None, deflate: bool = False, subprotocols: Optional[List[str]] = None, path: str = "/ws", host: str = "x") -> None:
        from wsproto import ConnectionType, WSConnection
        from wsproto.events import Request as WsRequest
        from wsproto.extensions import PerMessageDeflate
        if rng is None:
            import random
            rng = random.Random(0)
        self.rng = rng
        self.path, self.host = path, host
        self.subprotocols = list(subprotocols or [])
        self.ext = PerMessageDeflate() if deflate else None
        # wsproto's own client handshake: source of the nonce and oracle for the server's 101
        self.shadow = WSConnection(ConnectionType.CLIENT)
        shadow_req = self.shadow.send(WsRequest(host=host, target=path, subprotocols=self.subprotocols,
                                                extensions=[PerMessageDeflate()] if deflate else []))
        self.key = next(l.split(b":", 1)[1].strip() for l in bytes(shadow_req).split(b"\r\n") if l.lower().startswith(b"sec-websocket-key"))
        self.conn = None
        self.handshake: Optional[dict] = None
        self.accept_oracle: Optional[str] = None
        self.accepted_subprotocol: Optional[str] = None
        self.messages: List[Tuple[str, Any]] = []
        self.pongs: List[bytes] = []
        self.pings: List[bytes] = []
        self.close_code: Optional[int] = None
        self.close_reason: Optional[str] = None
        self.closes = 0
        self.error: Optional[str] = None
        self._cur: Optional[list] = None
        self._h1buf = b""
        self._h11 = None
        self.eof_before_response = False
        self._first_sent = False       # a fragmented message is in progress (next data frame is a continuation)
        self.carrier: Optional[str] = None

    # ---------------- opening handshake -----------------
    def offer_value(self) -> Optional[bytes]:
        if self.ext is None:
            return None
        return (self.ext.name + "; " + self.ext.offer()).encode()

    def default_headers(self, carrier: str) -> List[Tuple[bytes, bytes]]:
        """the headers of a valid handshake on that carrier (the generators permute / damage this list)"""
        hs: List[Tuple[bytes, bytes]] = []
        if carrier == "h1":
            hs += [(b"Host", self.host.encode()), (b"Upgrade", b"websocket"), (b"Connection", b"Upgrade"), (b"Sec-WebSocket-Key", self.key)]
        hs.append((b"Sec-WebSocket-Version" if carrier == "h1" else b"sec-websocket-version", b"13"))
        if self.subprotocols:
            hs.append((b"Sec-WebSocket-Protocol" if carrier == "h1" else b"sec-websocket-protocol", ", ".join(self.subprotocols).encode()))
        off = self.offer_value()
        if off is not None:
            hs.append((b"Sec-WebSocket-Extensions" if carrier == "h1" else b"sec-websocket-extensions", off))
        return hs

    def h1_request(self, headers: Optional[List[Tuple[bytes, bytes]]] = None, method: str = "GET", version: str = "1.1") -> bytes:
        self.carrier = "h1"
        hs = self.default_headers("h1") if headers is None else headers
        self._h11 = h11.Connection(h11.CLIENT)
        # the parser of the *response* only needs to know that a protocol switch was proposed
        self._h11.send(h11.Request(method="GET", target="/", headers=[("host", "x"), ("upgrade", "websocket"), ("connection", "upgrade")]))
        return h1_request(method, self.path, hs, version=version)

    def h2_request_headers(self, headers: Optional[List[Tuple[bytes, bytes]]] = None, method: str = "CONNECT",
                           protocol: Optional[str] = "websocket", scheme: str = "http") -> List[Tuple[bytes, bytes]]:
        self.carrier = "h2"
        hs = self.default_headers("h2") if headers is None else headers
        return h2_headers(method, self.path, authority=self.host, scheme=scheme, extra=hs, protocol=protocol)

    def _negotiated(self, headers: List[List[str]]) -> None:
        from wsproto import ConnectionType
        from wsproto.connection import Connection
        exts = []
        for n, v in headers:
            if n.lower() == "sec-websocket-extensions" and self.ext is not None:
                for piece in v.split(","):
                    if piece.split(";", 1)[0].strip() == self.ext.name:
                        self.ext.finalize(piece.strip())
                        exts = [self.ext]
            if n.lower() == "sec-websocket-protocol":
                self.accepted_subprotocol = v
        self.deflate_on = bool(exts)
        self.conn = Connection(ConnectionType.CLIENT, exts)

    def feed_h1(self, data: bytes, eof: bool = False) -> None:
        """bytes from the server on the HTTP/1.1 carrier: response head (h11 client parser), then frames"""
        if self.error:
            return
        if self.conn is not None:
            self._frames(data)
            return
        self._h1buf += data
        try:
            if data:
                self._h11.receive_data(data)
            if eof:
                self._h11.receive_data(b"")
            while True:
                ev = self._h11.next_event()
                if ev is h11.NEED_DATA or ev is h11.PAUSED:
                    break
                if isinstance(ev, h11.InformationalResponse) and ev.status_code == 101:
                    self.handshake = {"status": 101, "headers": [[b2s(n), b2s(v)] for n, v in ev.headers], "body": "", "complete": True}
                    self._oracle()
                    self._negotiated(self.handshake["headers"])
                    rest = self._h11.trailing_data[0]
                    if rest:
                        self._frames(rest)
                    return
                if isinstance(ev, h11.InformationalResponse):
                    continue
                if isinstance(ev, h11.Response):
                    self.handshake = {"status": ev.status_code, "headers": [[b2s(n), b2s(v)] for n, v in ev.headers], "body": "", "complete": False}
                elif isinstance(ev, h11.Data) and self.handshake is not None:
                    self.handshake["body"] += b2s(bytes(ev.data))
                elif isinstance(ev, h11.EndOfMessage):
                    if self.handshake is not None:
                        self.handshake["complete"] = True
                    break
                elif isinstance(ev, h11.ConnectionClosed):
                    break
        except h11.RemoteProtocolError as e:
            if eof and self.handshake is None:
                self.eof_before_response = True      # the server closed without answering at all
            else:
                self.error = f"h11: {e}"

    def _oracle(self) -> None:
        """does wsproto's own client accept this 101 (token for *its* key, subprotocol among the offered ones)?"""
        from wsproto.events import AcceptConnection, RejectConnection
        from wsproto.utilities import RemoteProtocolError
        head = self._h1buf.split(b"\r\n\r\n", 1)[0] + b"\r\n\r\n"
        try:
            self.shadow.receive_data(head)
            evs = list(self.shadow.events())
            if any(isinstance(e, AcceptConnection) for e in evs):
                self.accept_oracle = "accepted"
            elif any(isinstance(e, RejectConnection) for e in evs):
                self.accept_oracle = "rejected"
            else:
                self.accept_oracle = "incomplete"
        except RemoteProtocolError as e:
            self.accept_oracle = f"error: {e}"

    def feed_h2(self, h2c: "H2Client", sid: int) -> None:
        """take what `H2Client` collected for stream `sid`: the response head, then DATA = frames"""
        st = h2c.streams.get(sid)
        if st is None or self.error:
            return
        if self.handshake is None and st["headers"] is not None:
            hs = st["headers"]
            status = int(dict((n, v) for n, v in hs).get(":status", "0"))
            self.handshake = {"status": status, "headers": [h for h in hs if not h[0].startswith(":")], "body": "", "complete": False}
            if status == 200:
                self._negotiated(self.handshake["headers"])
                self.handshake["complete"] = True
        data = st["data"][getattr(self, "_h2taken", 0):]
        self._h2taken = len(st["data"])
        if self.handshake is not None:
            if self.conn is not None:
                self._frames(bytes(data))
            else:
                self.handshake["body"] += b2s(bytes(data))
                if st["ended"]:
                    self.handshake["complete"] = True

    # ---------------- frames from the server -----------------
    def _frames(self, data: bytes) -> None:
        from wsproto.events import BytesMessage, CloseConnection, Ping, Pong, TextMessage
        if not data:
            return
        self.conn.receive_data(data)
        for ev in self.conn.events():
            if isinstance(ev, (TextMessage, BytesMessage)):
                kind = "text" if isinstance(ev, TextMessage) else "bytes"
                if self._cur is None:
                    self._cur = [kind, "" if kind == "text" else b""]
                self._cur[1] += ev.data if kind == "text" else bytes(ev.data)
                if ev.message_finished:
                    self.messages.append((self._cur[0], self._cur[1]))
                    self._cur = None
            elif isinstance(ev, Ping):
                self.pings.append(bytes(ev.payload))
            elif isinstance(ev, Pong):
                self.pongs.append(bytes(ev.payload))
            elif isinstance(ev, CloseConnection):
                self.closes += 1
                if self.close_code is None:
                    self.close_code, self.close_reason = int(ev.code), ev.reason

    # ---------------- frames to the server -----------------
    def _frame(self, opcode: int, payload: bytes, fin: bool = True) -> bytes:
        import struct
        from wsproto.frame_protocol import Opcode, RsvBits
        rsv1 = False
        if self.ext is not None and getattr(self, "deflate_on", False) and opcode in (0, 1, 2):
            rsv, payload = self.ext.frame_outbound(self.conn._proto, Opcode(opcode), RsvBits(False, False, False), bytes(payload), fin)
            rsv1 = bool(rsv.rsv1)
        b0 = (0x80 if fin else 0) | (0x40 if rsv1 else 0) | opcode
        n = len(payload)
        if n <= 125:
            head = bytes([b0, 0x80 | n])
        elif n <= 0xFFFF:
            head = bytes([b0, 0x80 | 126]) + struct.pack("!H", n)
        else:
            head = bytes([b0, 0x80 | 127]) + struct.pack("!Q", n)
        mask = bytes(self.rng.randrange(256) for _ in range(4))
        return head + mask + bytes(c ^ mask[i % 4] for i, c in enumerate(payload))

    def data_frame(self, kind: str, payload: bytes, fin: bool) -> bytes:
        op = self.OP_CONT if self._first_sent else (self.OP_TEXT if kind == "text" else self.OP_BIN)
        self._first_sent = not fin
        return self._frame(op, payload, fin)

    def message(self, kind: str, frags: List[bytes], ctl: Optional[List[List[Tuple[str, bytes]]]] = None) -> bytes:
        """one message as the given fragments (raw bytes; text = UTF-8, may be cut inside a code point);
        `ctl[i]` = control frames [("ping"|"pong", payload)] put before fragment i"""
        out = b""
        for i, f in enumerate(frags):
            for k, p in (ctl[i] if ctl else []):
                out += self.ping(p) if k == "ping" else self.pong(p)
            out += self.data_frame(kind, f, i == len(frags) - 1)
        return out

    def ping(self, payload: bytes = b"") -> bytes:
        return self._frame(self.OP_PING, payload)

    def pong(self, payload: bytes = b"") -> bytes:
        return self._frame(self.OP_PONG, payload)

    def close(self, code: Optional[int] = None, reason: str = "") -> bytes:
        import struct
        payload = b"" if code is None else struct.pack("!H", code) + reason.encode()
        return self._frame(self.OP_CLOSE, payload)

    def summary(self) -> dict:
        return {"handshake": self.handshake, "accept_oracle": self.accept_oracle, "subprotocol": self.accepted_subprotocol,
                "messages": [[k, (p if k == "text" else b2s(p))] for k, p in self.messages], "pongs": [b2s(p) for p in self.pongs],
                "pings": [b2s(p) for p in self.pings], "close_code": self.close_code, "closes": self.closes, "error": self.error, "eof_before_response": self.eof_before_response,
                "partial": None if self._cur is None else self._cur[0]}
