"""Direct drive of the real `H2Protocol` send path (src/hypercorn/protocol/h2.py) under a controllable, replayable schedule.

What runs is the REAL code: `H2Protocol` with its real `HTTPStream` objects, the real `send_task`, the real
`StreamBuffer`s, h2 and priority.  What the harness owns: the transport (`send` callback = FIFO lock + write, as both
`TCPServer.protocol_send` do), the task group, the applications (scripts of ASGI messages sent through the real
`HTTPStream.app_send`, one asyncio task per stream), the client (an independent `h2` connection in client role plus a
raw frame ledger), and the *schedule*: extra loop turns are injected at every point at which the real workers can
suspend (event `wait()`, transport write/drain, between application steps, between client frames), drawn from a seeded
RNG, so a scenario + seed replays exactly.

From taps on library classes (`priority.PriorityTree.__next__/block/unblock/insert_stream/remove_stream`,
`h2.connection.H2Connection.send_data/end_stream/reset_stream`), on `StreamBuffer` (wrapped from outside) and on the
event objects handed out through `context.event_class`, the totally ordered list of *model ops* actually taken is
reconstructed (DESIGN.md A.7, trace acceptance), together with a projection of the real state taken at the start of
every op (= the state after the previous op).  `lean/Driver/H2Send.lean` replays the list through `H2Send.step`.

Nothing in /repo is edited; hypercorn attribute names read here are the anchored state of C08/C09
(`stream_buffers`, `priority`, `has_data`, `streams`, `connection`, `closed`).
"""
from __future__ import annotations

import asyncio
import random
import struct
from typing import Any, Callable, Dict, List, Optional, Tuple

import h2.connection
import h2.events
import h2.exceptions
import h2.settings
import priority

from . import clients as C


def b2s(b: bytes) -> str:
    return bytes(b).decode("latin1")


def s2b(s: str) -> bytes:
    return s.encode("latin1")

SENDTASK = "sendtask"
READER = "reader"


class HarnessError(Exception):
    pass


class Runaway(BaseException):
    """more tap events than any terminating scenario produces: something loops without suspending (BaseException so
    that no `except` clause of the code under test swallows it)"""


EVENT_BUDGET = 200000
OP_BUDGET = 5000


# --------------------------------------------------------------------------------------------------------------
# schedule
# --------------------------------------------------------------------------------------------------------------
class Sched:
    """extra loop turns at suspension points; all randomness from the seed in the scenario"""

    def __init__(self, seed: int, density: float, trio_like: bool) -> None:
        self.rng = random.Random(seed)
        self.density = density
        self.trio_like = trio_like
        self.points = 0

    def turns(self) -> int:
        r = self.rng.random()
        if r >= self.density:
            return 0
        return self.rng.choice([1, 1, 1, 2, 2, 3, 5, 9])

    async def point(self, kind: str) -> None:
        self.points += 1
        for _ in range(self.turns()):
            await asyncio.sleep(0)


# --------------------------------------------------------------------------------------------------------------
# raw frame ledger: the harness's own accounting of what the server put on the wire
# --------------------------------------------------------------------------------------------------------------
def parse_frames(data: bytes) -> List[Tuple[int, int, int, bytes]]:
    """(type, flags, stream id, payload) of every complete frame in `data` (the client preface is skipped)"""
    if data.startswith(b"PRI * HTTP/2.0\r\n\r\nSM\r\n\r\n"):
        data = data[24:]
    out = []
    while len(data) >= 9:
        ln = int.from_bytes(data[0:3], "big")
        if len(data) < 9 + ln:
            break
        out.append((data[3], data[4], int.from_bytes(data[5:9], "big") & 0x7FFFFFFF, data[9:9 + ln]))
        data = data[9 + ln:]
    return out


class Ledger:
    """The harness's own flow-control accounting, from the two byte streams only.

    Credit: a stream's window = the client's INITIAL_WINDOW_SIZE in force when the stream was opened + its WINDOW_UPDATEs
    + the deltas of later SETTINGS - DATA received; the connection window = 65535 + WINDOW_UPDATEs(0) - DATA received.
    A WINDOW_UPDATE counts from the moment the client sends it (delivery is immediate here).  A SETTINGS change counts
    from the moment the server's ACK for it appears in the server's byte stream: frames the server had already queued
    when it processed the SETTINGS precede the ACK and were legal under the old value (RFC 7540 6.9.2), frames behind the
    ACK are bound by the new one.  A DATA frame longer than the stream window, the connection window or MAX_FRAME_SIZE
    as they stand when it appears is a violation."""

    def __init__(self) -> None:
        self.buf = b""
        self.max_frame = 16384
        self.conn_win = 65535
        self.iw_fed = 65535                      # value after every SETTINGS the client has sent so far
        self.iw_acked = 65535                    # value after every SETTINGS the server has acknowledged so far
        self.pending: List[dict] = []            # SETTINGS sent, not yet acknowledged
        self.nfed = 0
        self.nacked = 0
        self.epoch: Dict[int, int] = {}          # stream -> number of SETTINGS sent before it was opened
        self.win: Dict[int, int] = {}
        self.data: Dict[int, int] = {}           # bytes of DATA payload per stream
        self.payload: Dict[int, bytearray] = {}  # the DATA payload itself, in wire order
        self.frames: Dict[int, List[int]] = {}
        self.end_stream: Dict[int, int] = {}
        self.rst: Dict[int, int] = {}
        self.headers: Dict[int, int] = {}
        self.data_after_end: List[int] = []
        self.violations: List[dict] = []
        self.goaway = 0
        self.order: List[Tuple[str, int, int]] = []      # (kind, sid, n) in wire order
        self.up_frames: List[Tuple[int, int, int]] = []  # DATA frames the client sent: (sid, flow-controlled length, payload bytes)
        self.up_credit: Dict[int, int] = {}              # WINDOW_UPDATE increments the server sent, per stream (0 = connection)

    # ---- what the client sends ----
    def client_sends(self, data: bytes) -> None:
        for typ, flags, sid, payload in parse_frames(data):
            if typ == 0:
                pad = (payload[0] + 1) if (flags & 0x8 and payload) else 0
                self.up_frames.append((sid, len(payload), len(payload) - pad))
                continue
            if typ == 1 and sid not in self.win:
                self.win[sid] = self.iw_fed
                self.epoch[sid] = self.nfed
            elif typ == 4 and not flags & 0x1:
                st: Dict[str, int] = {}
                for k in range(0, len(payload) - 5, 6):
                    ident, val = int.from_bytes(payload[k:k + 2], "big"), int.from_bytes(payload[k + 2:k + 6], "big")
                    if ident == 4:
                        st["iw"] = val
                        self.iw_fed = val
                    elif ident == 5:
                        st["mf"] = val
                self.pending.append(st)
                self.nfed += 1
            elif typ == 8:
                inc = int.from_bytes(payload[0:4], "big") & 0x7FFFFFFF
                if sid == 0:
                    self.conn_win += inc
                elif sid in self.win:
                    self.win[sid] += inc

    # ---- what the server sends ----
    def feed(self, data: bytes) -> None:
        self.buf += data
        while len(self.buf) >= 9:
            ln = int.from_bytes(self.buf[0:3], "big")
            if len(self.buf) < 9 + ln:
                return
            typ, flags = self.buf[3], self.buf[4]
            sid = int.from_bytes(self.buf[5:9], "big") & 0x7FFFFFFF
            payload = self.buf[9:9 + ln]
            self.buf = self.buf[9 + ln:]
            if typ == 0:       # DATA
                pad = (payload[0] + 1) if (flags & 0x8 and payload) else 0
                n = ln - pad
                if sid in self.end_stream or sid in self.rst:
                    self.data_after_end.append(sid)
                w = self.win.get(sid, 0)
                if ln > self.max_frame or ln > max(0, w) and ln > 0 or ln > max(0, self.conn_win) and ln > 0:
                    self.violations.append({"sid": sid, "frame": ln, "stream_window": w, "conn_window": self.conn_win, "max_frame": self.max_frame})
                self.win[sid] = w - ln
                self.conn_win -= ln
                self.data[sid] = self.data.get(sid, 0) + n
                self.payload.setdefault(sid, bytearray()).extend(payload[1:1 + n] if flags & 0x8 else payload)
                self.frames.setdefault(sid, []).append(ln)
                self.order.append(("data", sid, n))
                if flags & 0x1:
                    self.end_stream[sid] = self.end_stream.get(sid, 0) + 1
                    self.order.append(("end", sid, 0))
            elif typ == 1:     # HEADERS
                self.headers[sid] = self.headers.get(sid, 0) + 1
                self.order.append(("headers", sid, flags & 0x1))
                if flags & 0x1:
                    self.end_stream[sid] = self.end_stream.get(sid, 0) + 1
                    self.order.append(("end", sid, 0))
            elif typ == 3:
                self.rst[sid] = self.rst.get(sid, 0) + 1
                self.order.append(("rst", sid, 0))
            elif typ == 4 and flags & 0x1 and self.pending:
                st = self.pending.pop(0)
                self.nacked += 1
                if "iw" in st:
                    d = st["iw"] - self.iw_acked
                    self.iw_acked = st["iw"]
                    for s_, e in self.epoch.items():
                        if e < self.nacked:
                            self.win[s_] += d
                if "mf" in st:
                    self.max_frame = st["mf"]
            elif typ == 7:
                self.goaway += 1
            elif typ == 8:
                self.up_credit[sid] = self.up_credit.get(sid, 0) + (int.from_bytes(payload[0:4], "big") & 0x7FFFFFFF)


# --------------------------------------------------------------------------------------------------------------
# the driver
# --------------------------------------------------------------------------------------------------------------
class H2Drive:
    """One connection.  `ops` / `snaps` are the reconstructed model op list and the state projections (snaps[k] = real
    state at the start of op k; snaps[len(ops)] = final state)."""

    def __init__(self, scenario: dict) -> None:
        self.sc = scenario
        self.sched = Sched(scenario.get("seed", 0), scenario.get("density", 0.3), bool(scenario.get("trio_like", False)))
        self.ops: List[dict] = []
        self.snaps: List[dict] = []
        self.log: List[list] = []                 # raw tap log (debugging / replay files)
        self.ids: List[int] = []                  # every stream id mentioned so far
        self.pusher: Dict[int, str] = {}          # tracked pc of each application's pending send
        self.task_pc: Any = "running"
        self.pick_cur: Optional[int] = None       # stream the send task is in `_send_data` for
        self.pick_flushes = 0
        self.pick_ended = False
        self.buf_sid: Dict[int, int] = {}         # id(StreamBuffer) -> stream id
        self.ev_owner: Dict[int, Tuple[Any, str]] = {}
        self.next_calls = 0
        self.lib_calls = 0
        self.app_state: Dict[int, dict] = {}      # per stream: sends called/returned, bytes accepted, messages put
        self.up: List[list] = []                  # Closed / Updated passed up
        self.held_max: Dict[int, int] = {}
        self.max_write: Dict[int, int] = {}
        self.fail_writes = False
        self.transport_closed = False
        self.errors: List[str] = []
        self.sendtask_error: Optional[str] = None
        self.reader_error: Optional[str] = None
        self.turns = 0
        self.client = C.H2Client(initial_window=scenario.get("initial_window"), max_frame=scenario.get("max_frame"), auto_window=False)
        self.ledger = Ledger()
        self.proto = None
        self.lock: Optional[asyncio.Lock] = None
        self.tasks: List[asyncio.Task] = []
        self.sendtask: Optional[asyncio.Task] = None
        self.wire_events_at: List[int] = []
        self.skipped: List[dict] = []
        self.runaway = False
        self.same_pick = 0
        self.in_closed: Dict[str, int] = {}
        self.ghost_at: Optional[int] = None       # first answer of next(priority) that is no unblocked member of the tree (any kind)
        self.unmodelled_at: Optional[int] = None  # … first one the model has no step for (a *blocked member*); a non-member is `rebuild`
        self.rebuilds = 0
        self.acks: List[list] = []                # acknowledge_received_data calls: [stream id, amount]
        self.data_events: List[list] = []         # DataReceived events h2 handed to the protocol: [stream id, flow-controlled length, payload bytes]
        self.upload_stalls: List[dict] = []       # upload frames the client could not send for want of window at quiescence
        self.uploaded: Dict[int, int] = {}        # upload frames sent per stream
        self.client_rst: List[int] = []
        self.heads: List[dict] = []               # stream events that carry no model op of `h2send.run`: Response / Trailers, with the
                                                  # position (op index) at which `stream_send` was called (C02: `h2wire.run`)

    # ---------------- naming -----------------
    @staticmethod
    def me() -> str:
        t = asyncio.current_task()
        return t.get_name() if t is not None else "?"

    def rec(self, *a: Any) -> None:
        if self.runaway:
            return
        self.log.append([self.me(), *a])
        if len(self.log) > EVENT_BUDGET:
            self.runaway = True
            raise Runaway(f"more than {EVENT_BUDGET} tap events; last: {self.log[-3:]}")

    def sid_of_buf(self, buf: Any) -> Optional[int]:
        k = self.buf_sid.get(id(buf))
        if k is not None:
            return k
        for sid, b in self.proto.stream_buffers.items():
            if b is buf:
                self.buf_sid[id(buf)] = sid
                return sid
        return None

    # ---------------- state projection -----------------
    def note_id(self, sid: int) -> None:
        if sid and sid not in self.ids:
            self.ids.append(sid)

    def snapshot(self) -> dict:
        p = self.proto
        conn = p.connection
        streams = {}
        for sid in self.ids:
            buf = p.stream_buffers.get(sid)
            node = p.priority._streams.get(sid)
            h2s = conn.streams.get(sid)
            win = None
            if h2s is not None and not h2s.closed:
                win = h2s.outbound_flow_control_window
            streams[str(sid)] = {
                "hasBuf": buf is not None,
                "buf": len(buf.buffer) if buf is not None else 0,
                "complete": bool(buf._complete) if buf is not None else None,
                "pausedEv": buf._paused.is_set() if buf is not None else None,
                "emptyEv": buf._is_empty.is_set() if buf is not None else None,
                "bufClosed": getattr(buf, "_closed", None) if buf is not None else None,
                "pusher": self.pusher.get(sid, "idle"),
                "inTree": node is not None,
                "blocked": (not node.active) if node is not None else None,
                "window": win,
                "live": sid in p.streams,
            }
            if buf is not None:
                self.buf_sid[id(buf)] = sid
                if len(buf.buffer) > self.held_max.get(sid, 0):
                    self.held_max[sid] = len(buf.buffer)
        return {"str": streams, "connWin": conn.outbound_flow_control_window, "maxFrame": conn.max_outbound_frame_size,
                "hasData": p.has_data.is_set(), "task": self.task_pc, "closed": bool(p.closed)}

    def emit(self, op: dict) -> None:
        for k in ("i", "p"):
            if k in op:
                self.note_id(op[k])
        if self.runaway:
            return                      # already reported; the rest of the run is not recorded
        if self.ops and op.get("op") in ("pick", "pickRaise", "rebuild") and self.ops[-1].get("op") in ("pick", "pickRaise", "rebuild"):
            self.same_pick += 1         # picks with nothing in between (each either sends or blocks a stream): no progress is being made
        else:
            self.same_pick = 0
        if len(self.ops) > OP_BUDGET or self.same_pick > 100:
            self.runaway = True
            raise Runaway(f"more than {OP_BUDGET} ops; last: {self.ops[-3:]}")
        self.snaps.append(self.snapshot())
        self.ops.append(op)
        self.log.append([self.me(), "OP", op])

    # ---------------- taps -----------------
    def install(self) -> None:
        from hypercorn.protocol import h2 as hh2
        d = self
        PT = priority.PriorityTree
        HC = h2.connection.H2Connection
        SB = hh2.StreamBuffer
        self._orig = {"pt": {n: getattr(PT, n) for n in ("__next__", "block", "unblock", "insert_stream", "remove_stream", "reprioritize")},
                      "hc": {n: getattr(HC, n) for n in ("send_data", "end_stream", "reset_stream", "local_flow_control_window", "send_headers",
                                                     "acknowledge_received_data")},
                      "sb": {n: getattr(SB, n) for n in ("__init__", "push", "pop", "drain", "close", "set_complete")}}
        o = self._orig
        o["hc_receive"] = HC.receive_data

        def mine(tree) -> bool:
            return d.proto is not None and tree is d.proto.priority

        def pt_next(tree):
            if not mine(tree):
                return o["pt"]["__next__"](tree)
            d.next_calls += 1
            d.lib_calls += 1
            try:
                sid = o["pt"]["__next__"](tree)
            except priority.DeadlockError:
                d.rec("next", "deadlock")
                d.emit({"op": "park"})
                d.task_pc = "parked"
                raise
            d.rec("next", sid)
            node = tree._streams.get(sid)
            if node is None or not node.active:
                # the library assumption "next() returns an unblocked member of the tree" fails (priority 2.0.0 after a
                # dependency loop keeps a removed node scheduled)
                if d.ghost_at is None:
                    d.ghost_at = len(d.ops)
                if node is None:
                    # a stream the tree does not know: `_send_data` finds no buffer, `remove_stream` raises MissingStreamError and
                    # the tree is rebuilt from the buffered streams - one step of the extended model (`XOp.rebuild`)
                    d.rebuilds += 1
                    d.emit({"op": "rebuild", "i": sid})
                    d.pick_cur = None
                    return sid
                if d.unmodelled_at is None:
                    d.unmodelled_at = len(d.ops)      # a blocked member: the model cannot follow from here; the monitors still judge
            d.emit({"op": "pick", "i": sid})
            d.pick_cur, d.pick_flushes, d.pick_ended = sid, 0, False
            return sid

        def pt_simple(name):
            def f(tree, *a, **k):
                if not mine(tree):
                    return o["pt"][name](tree, *a, **k)
                d.lib_calls += 1
                try:
                    r = o["pt"][name](tree, *a, **k)
                except Exception as e:
                    d.rec("prio." + name, a, k, type(e).__name__)
                    raise
                d.rec("prio." + name, a, k)
                return r
            return f

        def hc_simple(name):
            def f(conn, *a, **k):
                if d.proto is None or conn is not d.proto.connection:
                    return o["hc"][name](conn, *a, **k)
                d.lib_calls += 1
                try:
                    r = o["hc"][name](conn, *a, **k)
                except Exception as e:
                    d.rec("h2." + name, a[0] if a else None, type(e).__name__)
                    if name == "local_flow_control_window" and d.me() == SENDTASK and d.ops and d.ops[-1].get("op") == "pick":
                        d.ops[-1] = {"op": "pickRaise", "i": d.ops[-1]["i"]}      # h2 no longer knows the stream
                    raise
                d.rec("h2." + name, a[0] if a else None, len(a[1]) if name == "send_data" else None)
                if name == "acknowledge_received_data":
                    d.acks.append([a[1] if len(a) > 1 else k.get("stream_id"), a[0] if a else k.get("acknowledged_size")])
                me = d.me()
                if (name == "end_stream" or (name == "send_headers" and k.get("end_stream"))) and me == SENDTASK:
                    d.pick_ended = True          # `_end_stream`: the empty DATA frame, or the trailers HEADERS frame, with END_STREAM
                if name == "reset_stream" and me.startswith("app-"):
                    d.pusher[a[0] if a else k.get("stream_id")] = "inAbandon"
                return r
            return f

        def hc_receive(conn, data):
            evs = o["hc_receive"](conn, data)
            if d.proto is not None and conn is d.proto.connection:
                for ev in evs:
                    if isinstance(ev, h2.events.DataReceived):
                        d.data_events.append([ev.stream_id, ev.flow_controlled_length, len(ev.data)])
            return evs

        def sb_init(buf, *a, **k):              # whatever the constructor takes: the tap must not pin its signature
            o["sb"]["__init__"](buf, *a, **k)
            d.ev_owner[id(buf._paused)] = (buf, "paused")
            d.ev_owner[id(buf._is_empty)] = (buf, "empty")

        async def sb_push(buf, data):
            d.rec("sb.push", d.sid_of_buf(buf), len(data))
            return await o["sb"]["push"](buf, data)

        async def sb_pop(buf, n):
            r = await o["sb"]["pop"](buf, n)
            d.rec("sb.pop", d.sid_of_buf(buf), n, len(r))
            return r

        async def sb_drain(buf):
            d.rec("sb.drain", d.sid_of_buf(buf))
            return await o["sb"]["drain"](buf)

        async def sb_close(buf):
            sid = d.sid_of_buf(buf)
            me = d.me()
            d.rec("sb.close", sid)
            if me.startswith("app-") and sid is not None and d.pusher.get(sid) == "inAbandon" and me == f"app-{sid}" and not d.in_closed.get(me):
                d.emit({"op": "abandonFin", "i": sid})
                d.pusher[sid] = "idle"
            return await o["sb"]["close"](buf)

        def sb_set_complete(buf):
            d.rec("sb.set_complete", d.sid_of_buf(buf))
            return o["sb"]["set_complete"](buf)

        PT.__next__ = pt_next
        for n in ("block", "unblock", "insert_stream", "remove_stream", "reprioritize"):
            setattr(PT, n, pt_simple(n))
        for n in ("send_data", "end_stream", "reset_stream", "local_flow_control_window", "send_headers", "acknowledge_received_data"):
            setattr(HC, n, hc_simple(n))
        HC.receive_data = hc_receive
        SB.__init__, SB.push, SB.pop, SB.drain, SB.close, SB.set_complete = sb_init, sb_push, sb_pop, sb_drain, sb_close, sb_set_complete
        self._classes = (PT, HC, SB)

    def remove(self) -> None:
        PT, HC, SB = self._classes
        for n, f in self._orig["pt"].items():
            setattr(PT, n, f)
        for n, f in self._orig["hc"].items():
            setattr(HC, n, f)
        HC.receive_data = self._orig["hc_receive"]
        for n, f in self._orig["sb"].items():
            setattr(SB, n, f)

    def event_class(self):
        d = self

        class TapEvent:
            def __init__(self) -> None:
                self._e = asyncio.Event()

            def is_set(self) -> bool:
                return self._e.is_set()

            async def set(self) -> None:          # never suspends in either worker (extracted: Atomic.lean)
                self._e.set()

            async def clear(self) -> None:        # never suspends in either worker
                me = d.me()
                if d.proto is not None and self is d.proto.has_data:
                    if me == SENDTASK:
                        d.emit({"op": "wake"})
                        d.task_pc = "running"
                else:
                    own = d.ev_owner.get(id(self))
                    if own is not None and own[1] == "paused" and me.startswith("app-"):
                        sid = d.sid_of_buf(own[0])
                        if sid is None:
                            sid = int(me[4:])
                        d.emit({"op": "pushWake", "i": sid})
                        d.pusher[sid] = "idle"
                self._e.clear()

            async def wait(self) -> None:
                me = d.me()
                own = d.ev_owner.get(id(self))
                if own is not None and me.startswith("app-"):
                    sid = int(me[4:])
                    d.pusher[sid] = "inPush" if own[1] == "paused" else "inDrain"
                if d.sched.trio_like:
                    await asyncio.sleep(0)        # trio's Event.wait() is always a checkpoint
                await self._e.wait()
                await d.sched.point("wake")
                if own is not None and own[1] == "empty" and me.startswith("app-"):
                    sid = int(me[4:])
                    d.emit({"op": "drainWake", "i": sid})
                    d.pusher[sid] = "idle"

        return TapEvent

    # ---------------- transport (what TCPServer.protocol_send does: FIFO lock, write, drain) -----------------
    async def up_send(self, ev) -> None:
        from hypercorn.events import Closed, RawData, Updated
        me = self.me()
        if isinstance(ev, RawData):
            self.rec("sendEnter", len(ev.data))
            if me == SENDTASK and self.pick_cur is not None:
                self.task_pc = ["ending" if self.pick_ended else "sending", self.pick_cur]
            async with self.lock:
                if self.fail_writes or self.transport_closed:
                    # write error: both workers call protocol.handle(Closed()) from inside protocol_send
                    self.rec("writeFail")
                    self.emit({"op": "closed"})
                    self.in_closed[me] = self.in_closed.get(me, 0) + 1
                    try:
                        await self.proto.handle(Closed())
                    finally:
                        self.in_closed[me] -= 1
                else:
                    self.wire(ev.data)
                    await self.sched.point("send")
            self.rec("sendReturn")
            if me == SENDTASK and self.pick_cur is not None:
                self.pick_flushes += 1
                if isinstance(self.task_pc, list) and self.task_pc[0] == "ending":
                    self.emit({"op": "endSent", "i": self.pick_cur})
                    self.pick_cur = None
                else:
                    self.emit({"op": "sent", "i": self.pick_cur})
                self.task_pc = "running"
        elif isinstance(ev, Closed):
            self.up.append(["closed"])
            self.rec("upClosed")
        elif isinstance(ev, Updated):
            self.up.append(["updated", ev.idle])

    def wire(self, data: bytes) -> None:
        n0 = len(self.client.events)
        self.ledger.feed(data)
        self.client.receive(data)
        self.wire_events_at.append(len(self.ops))
        for ev in self.client.events[n0:]:
            self.rec("wire", ev)
        # the client's own output here is only SETTINGS acks etc.; it is delivered with the next client action
        for sid, st in self.client.streams.items():
            pass

    # ---------------- applications -----------------
    def task_group(self):
        d = self

        class TG:
            async def spawn_app(self, app, config, scope, send):
                stream = send.__self__
                sid = stream.stream_id
                st = d.app_state.setdefault(sid, {"sends": [], "puts": [], "accepted": 0, "written": 0, "done": False, "stream": stream, "scope_type": scope["type"]})
                orig_send = stream.send

                async def marked(ev):
                    from hypercorn.protocol.events import Body, Data, EndBody, EndData, InformationalResponse, Response, StreamClosed, Trailers
                    if isinstance(ev, (Response, InformationalResponse)):
                        d.heads.append({"at": len(d.ops), "op": "head", "i": ev.stream_id, "status": ev.status_code,
                                        "headers": [[b2s(n), b2s(v)] for n, v in ev.headers]})
                    elif isinstance(ev, Trailers):
                        d.heads.append({"at": len(d.ops), "op": "trailers", "i": ev.stream_id, "headers": [[b2s(n), b2s(v)] for n, v in ev.headers]})
                    if isinstance(ev, (Body, Data)):
                        d.emit({"op": "push", "i": ev.stream_id, "n": len(ev.data)})
                        st["written"] += len(ev.data)
                        d.max_write[sid] = max(d.max_write.get(sid, 0), len(ev.data))
                    elif isinstance(ev, (EndBody, EndData)):
                        d.emit({"op": "end", "i": ev.stream_id})
                    elif isinstance(ev, StreamClosed):
                        d.emit({"op": "abandon", "i": ev.stream_id})
                    try:
                        await orig_send(ev)
                    finally:
                        if isinstance(ev, StreamClosed) and d.pusher.get(sid) == "inAbandon":
                            # reset_stream succeeded but buffer.close() was never reached: cannot happen (close follows the flush)
                            d.errors.append(f"abandon of {sid} did not reach buffer.close()")

                stream.send = marked

                async def app_put(message):
                    st["puts"].append(message.get("type"))

                return app_put

            def spawn(self, func, *args):
                async def run():
                    try:
                        await func(*args)
                    except BaseException as e:  # noqa
                        if isinstance(e, asyncio.CancelledError):
                            raise
                        d.sendtask_error = type(e).__name__
                        d.task_pc = "crashed"
                        d.rec("sendtaskCrash", type(e).__name__, str(e)[:80])
                        return
                    # leaving the loop and the `finally` that closes the buffers happen in the same step as the task's last op:
                    # the state in between is not observable
                    if d.ops and not d.runaway:
                        d.ops[-1] = {**d.ops[-1], "_mid": True}
                    d.emit({"op": "exit"})
                    d.task_pc = "exited"

                t = asyncio.get_event_loop().create_task(run(), name=SENDTASK)
                d.sendtask = t
                d.tasks.append(t)

        return TG()

    def start_app(self, sid: int, script: List[dict]) -> None:
        """script: [{"start": status} | {"body": n, "more": bool} | {"exit": 1} | {"turns": k}] run through the real HTTPStream.app_send"""
        st = self.app_state.get(sid)
        if st is None:
            return
        stream = st["stream"]
        d = self

        async def run():
            try:
                for step in script:
                    await d.sched.point("app")
                    if "turns" in step:
                        for _ in range(step["turns"]):
                            await asyncio.sleep(0)
                        continue
                    if "start" in step:
                        msg = {"type": "http.response.start", "status": step["start"],
                               "headers": [(b"x-s", str(sid).encode())] + [(s2b(n), s2b(v)) for n, v in step.get("headers", [])]}
                        if step.get("trailers"):
                            msg["trailers"] = True
                    elif "trailers" in step:
                        msg = {"type": "http.response.trailers", "headers": [(s2b(n), s2b(v)) for n, v in step["trailers"]],
                               "more_trailers": bool(step.get("more", False))}
                    elif "body" in step:
                        payload = bytes([(sid * 7 + st["accepted"] + k) & 0xFF for k in range(min(step["body"], 64))])
                        payload = (payload * (step["body"] // max(1, len(payload)) + 1))[: step["body"]] if step["body"] else b""
                        msg = {"type": "http.response.body", "body": payload, "more_body": bool(step.get("more", True))}
                    elif "exit" in step:
                        msg = None
                    else:
                        raise HarnessError(f"app step {step}")
                    entry = {"msg": None if msg is None else msg["type"], "n": len(msg.get("body", b"")) if msg else 0, "ret": None, "at": len(d.ops)}
                    st["sends"].append(entry)
                    try:
                        await stream.app_send(msg)
                        entry["ret"] = "ok"
                    except asyncio.CancelledError:
                        entry["ret"] = "cancelled"
                        raise
                    except Exception as e:  # noqa
                        entry["ret"] = type(e).__name__
                        break
                    entry["ret_at"] = len(d.ops)
                    if msg is not None and msg["type"] == "http.response.body" and not msg.get("more_body"):
                        # the send of the end of the body has returned: is END_STREAM on the wire (or the stream / connection gone)?
                        entry["final"] = True
                        entry["end_on_wire"] = bool(sid in d.ledger.end_stream or sid in d.ledger.rst or sid in d.client_rst or d.proto.closed
                                                    or d.fail_writes or d.transport_closed)
                    if msg is not None and msg["type"] == "http.response.body":
                        st["accepted"] += len(msg["body"])
                    if msg is None:
                        break
                st["done"] = True
            except asyncio.CancelledError:
                raise

        t = asyncio.get_event_loop().create_task(run(), name=f"app-{sid}")
        st["task"] = t
        self.tasks.append(t)

    # ---------------- client frames → reader -----------------
    async def feed(self, data: bytes, ops: Optional[List[dict]]) -> None:
        """one read: the reader task handles `data`; `ops` are the model ops the frames in it stand for (None = derive
        them from the frames, at the moment the read is handled)"""
        from hypercorn.events import RawData

        async def run():
            nonlocal ops
            if ops is None:
                ops = self.client_ops(data)
                for op in ops:
                    for key in ("i", "p"):
                        if key in op:
                            self.note_id(op[key])
            for k, op in enumerate(ops):
                if k < len(ops) - 1:
                    op = {**op, "_mid": True}      # several frames in one read: only the state after the last one is observable
                self.emit(op)
            try:
                await self.proto.handle(RawData(data))
            except BaseException as e:  # noqa
                if isinstance(e, asyncio.CancelledError):
                    raise
                self.reader_error = f"{type(e).__name__}: {e}"[:200]

        t = asyncio.get_event_loop().create_task(run(), name=READER)
        self.tasks.append(t)
        await t

    def client_ops(self, data: bytes) -> List[dict]:
        """the model ops the frames in `data` stand for, given what the server's h2 connection regards as open"""
        conn = self.proto.connection
        iw = conn.remote_settings.initial_window_size
        opened_now: set = set()
        closed_now: set = set()

        def srv_open(sid: int) -> bool:
            st = conn.streams.get(sid)
            return sid in opened_now or (st is not None and not st.closed and sid not in closed_now)

        ops: List[dict] = []
        for typ, flags, sid, payload in parse_frames(data):
            if typ == 1:
                ops.append({"op": "open", "i": sid, "w": iw})
                opened_now.add(sid)
                if flags & 0x20:
                    off = 1 if flags & 0x8 else 0
                    ops.append({"op": "prio", "i": sid, "p": int.from_bytes(payload[off:off + 4], "big") & 0x7FFFFFFF})
            elif typ == 2:
                ops.append({"op": "prio", "i": sid, "p": int.from_bytes(payload[0:4], "big") & 0x7FFFFFFF})
            elif typ == 3:
                if srv_open(sid):
                    ops.append({"op": "rst", "i": sid})
                    closed_now.add(sid)
            elif typ == 4 and not flags & 0x1:
                for k in range(0, len(payload) - 5, 6):
                    ident, val = int.from_bytes(payload[k:k + 2], "big"), int.from_bytes(payload[k + 2:k + 6], "big")
                    if ident == 4:
                        ops.append({"op": "settings", "d": val - iw})
                        iw = val
                    elif ident == 5:
                        ops.append({"op": "maxFrame", "m": val})
            elif typ == 8:
                inc = int.from_bytes(payload[0:4], "big") & 0x7FFFFFFF
                if sid == 0:
                    ops.append({"op": "winConn", "k": inc})
                elif srv_open(sid):
                    ops.append({"op": "winStream", "i": sid, "k": inc})
        return ops

    async def upload(self, act: dict) -> None:
        """the client sends one DATA frame of a request body if its own view of the windows allows; if not, it first lets
        the server come to rest (every WINDOW_UPDATE the server will ever send for what it has received is then in) and
        tries once more; a frame that still does not fit is an upload stalled for want of credit"""
        sid, n, pad = act["sid"], act["n"], act.get("pad")
        need = n + (0 if pad is None else pad + 1)
        conn = self.client.conn
        if any(x["sid"] == sid for x in self.upload_stalls):
            self.skipped.append(act)          # already reported for this stream
            return
        for attempt in (0, 1):
            st = conn.streams.get(sid)
            if st is None or st.closed or self.client.error or self.proto.closed:
                self.skipped.append(act)
                return
            try:
                room = conn.local_flow_control_window(sid)
            except h2.exceptions.ProtocolError:
                self.skipped.append(act)
                return
            if need <= room and need <= conn.max_outbound_frame_size:
                try:
                    conn.send_data(sid, bytes([(sid + n) & 0xFF]) * n, end_stream=bool(act.get("end")), pad_length=pad)
                except h2.exceptions.ProtocolError:
                    self.skipped.append(act)
                    return
                self.uploaded[sid] = self.uploaded.get(sid, 0) + 1
                await self.client_flush()
                return
            if need > conn.max_outbound_frame_size:
                self.skipped.append(act)
                return
            if attempt == 0:
                await self.settle()
                await self.client_flush()
                await self.settle()
        try:
            cw = conn.outbound_flow_control_window
            sw = conn.streams[sid].outbound_flow_control_window
        except Exception:  # noqa
            cw = sw = None
        self.upload_stalls.append({"sid": sid, "frame": need, "client_stream_window": sw, "client_conn_window": cw, "frames_sent": self.uploaded.get(sid, 0),
                                   "flow_controlled_bytes_sent": sum(f[1] for f in self.ledger.up_frames),
                                   "window_updates_received": dict(self.ledger.up_credit)})

    def settings_ok(self, v: int) -> bool:
        """the h2 library in client role cannot represent a negative receive window (it raises FlowControlError when a
        smaller INITIAL_WINDOW_SIZE is acknowledged), so a decrease is only sent when every open stream can absorb it"""
        d = v - self.ledger.iw_fed
        if d >= 0:
            return True
        if self.ledger.pending:
            return False
        for st in self.client.conn.streams.values():
            if not st.closed and st._inbound_window_manager.current_window_size + d < 0:
                return False
        return True

    async def client_flush(self) -> None:
        """deliver what the client connection has produced as one read"""
        data = self.client.out()
        if not data:
            return
        self.ledger.client_sends(data)
        await self.feed(data, None)

    async def settle(self, cap: int = 4000) -> bool:
        """run the loop until nothing is ready (quiescent); False if it never becomes quiet (spinning)"""
        loop = asyncio.get_event_loop()
        quiet = 0
        for _ in range(cap):
            await asyncio.sleep(0)
            self.turns += 1
            if len(loop._ready) == 0:     # type: ignore[attr-defined]
                quiet += 1
                if quiet >= 2:
                    return True
            else:
                quiet = 0
        return False

    # ---------------- one scenario -----------------
    async def run(self, installed: bool = False) -> dict:
        from hypercorn.asyncio.worker_context import WorkerContext
        from hypercorn.config import Config
        from hypercorn.events import Closed
        from hypercorn.protocol.h2 import H2Protocol
        from hypercorn.typing import ConnectionState
        sc = self.sc
        if not installed:
            self.install()
        quiescent: List[dict] = []
        try:
            self.lock = asyncio.Lock()
            config = Config()
            from .streams import RecLog
            config._log = RecLog([])  # type: ignore
            ctx = WorkerContext(None)
            ctx.event_class = self.event_class()   # type: ignore
            self.proto = H2Protocol(object(), config, ctx, self.task_group(), ConnectionState({}), True, ("127.0.0.1", 1), ("10.0.0.1", 443), self.up_send)
            asyncio.current_task().set_name("main")
            init_task = asyncio.get_event_loop().create_task(self.proto.initiate(), name=READER)
            await init_task
            # client preface + SETTINGS (+ the server's SETTINGS ack)
            # client preface + SETTINGS, then the ack of the server's SETTINGS: part of the trace like everything else
            await self.settle()
            await self.client_flush()
            await self.settle()
            await self.client_flush()
            await self.settle()
            self.next_calls = 0
            self.lib_calls = 0
            for act in sc["actions"]:
                k = act["do"]
                if k == "settle":
                    ok = await self.settle()
                    quiescent.append(self.quiescent_view(ok, act.get("tag")))
                    continue
                if k == "turns":
                    for _ in range(act["n"]):
                        await asyncio.sleep(0)
                        self.turns += 1
                    continue
                await self.sched.point("client")
                if self.reader_error or self.runaway:
                    break
                if k == "open":
                    sid = act["sid"]
                    hdrs = C.h2_headers(act.get("method", "GET"), f"/s{sid}", extra=[(b"te", b"trailers")] if act.get("te") else None)
                    kw = {}
                    if act.get("prio"):
                        pr = act["prio"]
                        kw = {"priority_weight": pr.get("weight", 16), "priority_depends_on": pr.get("dep", 0), "priority_exclusive": bool(pr.get("excl", False))}
                    if act.get("upload"):
                        hdrs = C.h2_headers("POST", f"/s{sid}", extra=[(b"te", b"trailers")] if act.get("te") else None)
                    try:
                        self.client.conn.send_headers(sid, hdrs, end_stream=not act.get("upload"), **kw)
                    except h2.exceptions.ProtocolError:
                        self.skipped.append(act)
                        continue
                    self.client._st(sid)
                    await self.client_flush()
                    if "app" in act:
                        self.start_app(sid, act["app"])
                elif k == "data":              # request body: one DATA frame (payload n bytes, `pad` = pad length or None, END_STREAM?)
                    await self.upload(act)
                elif k == "app":
                    self.start_app(act["sid"], act["app"])
                elif k == "win":
                    try:
                        self.client.conn.increment_flow_control_window(act["n"], stream_id=act["sid"])
                    except (h2.exceptions.ProtocolError, ValueError, KeyError):
                        self.skipped.append(act)          # the client already regards the stream as closed
                        continue
                    await self.client_flush()
                elif k == "winconn":
                    try:
                        self.client.conn.increment_flow_control_window(act["n"])
                    except (h2.exceptions.ProtocolError, ValueError):
                        self.skipped.append(act)
                        continue
                    await self.client_flush()
                elif k == "settings":
                    if not self.settings_ok(act["v"]):
                        self.skipped.append(act)
                        continue
                    try:
                        self.client.conn.update_settings({h2.settings.SettingCodes.INITIAL_WINDOW_SIZE: act["v"]})
                    except h2.exceptions.ProtocolError:
                        self.skipped.append(act)
                        continue
                    await self.client_flush()
                elif k == "maxframe":
                    try:
                        self.client.conn.update_settings({h2.settings.SettingCodes.MAX_FRAME_SIZE: act["v"]})
                    except h2.exceptions.ProtocolError:
                        self.skipped.append(act)
                        continue
                    await self.client_flush()
                elif k == "rst":
                    try:
                        self.client.conn.reset_stream(act["sid"], error_code=8)
                    except (h2.exceptions.ProtocolError, KeyError):
                        self.skipped.append(act)
                        continue
                    self.client_rst.append(act["sid"])
                    await self.client_flush()
                elif k == "prio":
                    try:
                        self.client.conn.prioritize(act["sid"], weight=act.get("weight", 16), depends_on=act.get("dep", 0), exclusive=bool(act.get("excl", False)))
                    except h2.exceptions.ProtocolError:
                        self.skipped.append(act)
                        continue
                    await self.client_flush()
                elif k == "multi":             # several client frames in one read
                    for sub in act["acts"]:
                        try:
                            if sub["do"] == "win":
                                self.client.conn.increment_flow_control_window(sub["n"], stream_id=sub["sid"])
                            elif sub["do"] == "winconn":
                                self.client.conn.increment_flow_control_window(sub["n"])
                            elif sub["do"] == "settings" and self.settings_ok(sub["v"]):
                                self.client.conn.update_settings({h2.settings.SettingCodes.INITIAL_WINDOW_SIZE: sub["v"]})
                            elif sub["do"] == "rst":
                                self.client.conn.reset_stream(sub["sid"], error_code=8)
                                self.client_rst.append(sub["sid"])
                            elif sub["do"] == "prio":
                                self.client.conn.prioritize(sub["sid"], weight=sub.get("weight", 16), depends_on=sub.get("dep", 0), exclusive=bool(sub.get("excl", False)))
                        except (h2.exceptions.ProtocolError, ValueError, KeyError):
                            self.skipped.append(sub)
                    await self.client_flush()
                elif k == "closed":            # client EOF / reset: the reader loop ends and calls handle(Closed)
                    async def closed():
                        self.emit({"op": "closed"})
                        await self.proto.handle(Closed())
                    t = asyncio.get_event_loop().create_task(closed(), name=READER)
                    self.tasks.append(t)
                    await t
                elif k == "fail_writes":
                    self.fail_writes = True
                elif k == "drain_all":         # open the windows until nothing moves any more
                    for _round in range(12):
                        await self.settle()
                        before = sum(self.ledger.data.values()) + sum(self.ledger.end_stream.values())
                        if self.client.error or self.client.goaway or self.proto.closed:
                            break
                        if self.ledger.conn_win < 400000:
                            try:
                                self.client.conn.increment_flow_control_window(600000)
                            except h2.exceptions.ProtocolError as e:
                                self.errors.append(f"client connection unusable: {e}")
                                break
                        for sid in list(self.ledger.win):
                            if sid in self.ledger.end_stream or sid in self.ledger.rst or sid in self.client_rst:
                                continue
                            if self.ledger.win[sid] < 400000:
                                try:
                                    self.client.conn.increment_flow_control_window(600000, stream_id=sid)
                                except (h2.exceptions.ProtocolError, KeyError, ValueError):
                                    continue
                        await self.client_flush()
                        await self.settle()
                        after = sum(self.ledger.data.values()) + sum(self.ledger.end_stream.values())
                        if after == before and _round > 0:
                            break
                elif k == "ack":               # deliver what the client has to say (SETTINGS acks)
                    await self.client_flush()
                else:
                    raise HarnessError(f"action {k}")
            ok = await self.settle()
            quiescent.append(self.quiescent_view(ok, "final"))
            self.snaps.append(self.snapshot())
        finally:
            for t in self.tasks:
                if not t.done():
                    t.cancel()
            for t in self.tasks:
                try:
                    await t
                except BaseException:  # noqa
                    pass
            if not installed:
                self.remove()
        return self.result(quiescent)

    def quiescent_view(self, ok: bool, tag: Any) -> dict:
        """what the implementation looks like when the loop has nothing to run"""
        p = self.proto
        apps = {}
        for sid, st in self.app_state.items():
            pend = [s for s in st["sends"] if s["ret"] is None]
            apps[str(sid)] = {"waiting": bool(pend), "waiting_msg": pend[0]["msg"] if pend else None, "done": st["done"], "accepted": st["accepted"],
                              "written": st["written"]}
        bufs = {str(sid): len(b.buffer) for sid, b in p.stream_buffers.items()}
        return {"quiet": ok, "tag": tag, "at": len(self.ops), "apps": apps, "bufs": bufs, "task": self.task_pc if isinstance(self.task_pc, str) else list(self.task_pc),
                "next_calls": self.next_calls, "lib_calls": self.lib_calls, "turns": self.turns,
                "ledger": {"win": dict(self.ledger.win), "conn": self.ledger.conn_win, "data": dict(self.ledger.data), "end": dict(self.ledger.end_stream),
                           "rst": dict(self.ledger.rst)},
                "closed": bool(p.closed), "sendtask_error": self.sendtask_error, "reader_error": self.reader_error}

    def result(self, quiescent: List[dict]) -> dict:
        cl = self.client
        streams = {}
        for sid, st in cl.streams.items():
            streams[str(sid)] = {"data": bytes(st["data"]), "frames": list(st["frames"]), "ended": st["ended"], "reset": st["reset"],
                                 "headers": st["headers"] is not None, "head": st["headers"], "trailers": st["trailers"]}
        apps = {}
        for sid, st in self.app_state.items():
            apps[str(sid)] = {"sends": [dict(s) for s in st["sends"]], "accepted": st["accepted"], "written": st["written"], "puts": list(st["puts"]), "done": st["done"]}
        if self.runaway:                 # keep the evidence small: the run is reported as `spinning`, not replayed through the model
            self.ops, self.snaps = self.ops[-40:], self.snaps[-41:]
        return {"ops": self.ops, "snaps": self.snaps, "ids": list(self.ids), "heads": list(self.heads), "quiescent": quiescent, "client": {"streams": streams, "error": cl.error, "goaway": cl.goaway},
                "ledger": {"violations": self.ledger.violations, "payload": {k: bytes(v) for k, v in self.ledger.payload.items()}, "data": dict(self.ledger.data), "end": dict(self.ledger.end_stream), "rst": dict(self.ledger.rst),
                           "headers": dict(self.ledger.headers), "data_after_end": list(self.ledger.data_after_end), "frames": {k: list(v) for k, v in self.ledger.frames.items()},
                           "order": list(self.ledger.order)},
                "apps": apps, "held_max": dict(self.held_max), "max_write": dict(self.max_write), "sendtask_error": self.sendtask_error, "reader_error": self.reader_error,
                "errors": self.errors, "next_calls": self.next_calls, "lib_calls": self.lib_calls, "up": self.up,
                "log": self.log if self.sc.get("keep_log") else self.log[-40:],
                "sched_points": self.sched.points, "skipped": self.skipped, "client_rst": list(self.client_rst), "ghost_at": self.ghost_at, "unmodelled_at": self.unmodelled_at,
                "rebuilds": self.rebuilds, "runaway": self.runaway,
                "upload": {"frames": [list(f) for f in self.ledger.up_frames], "acks": [list(a) for a in self.acks], "data_events": [list(e) for e in self.data_events], "stalls": list(self.upload_stalls),
                           "window_updates": dict(self.ledger.up_credit),
                           "client_conn_window": self.client.conn.outbound_flow_control_window}}


def expected_payload(sid: int, sizes: List[int]) -> bytes:
    """the bytes the scripted application of stream `sid` writes for body steps of these sizes (see start_app)"""
    out = b""
    acc = 0
    for n in sizes:
        if n:
            unit = bytes([(sid * 7 + acc + k) & 0xFF for k in range(min(n, 64))])
            out += (unit * (n // max(1, len(unit)) + 1))[:n]
        acc += n
    return out


def limit_memory(gib: float = 6.0) -> None:
    """a registered check must never take the box down: cap this process' address space (set after the Lean build)"""
    import resource
    soft, hard = resource.getrlimit(resource.RLIMIT_AS)
    cap = int(gib * (1 << 30))
    if soft == resource.RLIM_INFINITY or soft > cap:
        resource.setrlimit(resource.RLIMIT_AS, (cap, hard))


def run_scenario(scenario: dict) -> dict:
    loop = asyncio.new_event_loop()
    try:
        asyncio.set_event_loop(loop)
        d = H2Drive(scenario)
        return loop.run_until_complete(d.run())
    finally:
        asyncio.set_event_loop(None)
        loop.close()


def run_pair(sc_a: dict, sc_b: dict) -> Tuple[dict, dict]:
    """two connections served by the same event loop (taps installed once each, removed in reverse order)"""
    loop = asyncio.new_event_loop()
    try:
        asyncio.set_event_loop(loop)
        a, b = H2Drive(sc_a), H2Drive(sc_b)
        a.install()
        b.install()
        try:
            async def both():
                return await asyncio.gather(a.run(installed=True), b.run(installed=True))
            ra, rb = loop.run_until_complete(both())
        finally:
            b.remove()
            a.remove()
        return ra, rb
    finally:
        asyncio.set_event_loop(None)
        loop.close()


def model_request(res: dict) -> dict:
    """the driver request replaying the reconstructed op list (lean/Driver/H2Send.lean); the model starts from the
    connection window / frame size in force when the first op was taken (after the settings exchange)"""
    s0 = res["snaps"][0]
    if res.get("runaway"):
        return {"cmd": "h2send.run", "connWin": 65535, "maxFrame": 16384, "ids": [], "ops": []}
    return {"cmd": "h2send.run", "connWin": s0["connWin"], "maxFrame": s0["maxFrame"], "ids": res["ids"], "ops": res["ops"]}


def task_norm(t: Any) -> Any:
    return list(t) if isinstance(t, (list, tuple)) else t


def compare(res: dict, model: dict) -> Optional[dict]:
    """trace acceptance: every op taken by the real code is enabled in the model, and the model state after each op
    equals the projection of the real state; returns the first difference (None = accepted)"""
    if res.get("runaway"):
        return None                     # reported by the monitors (`spinning`); the truncated trace is not comparable
    if "ok" not in model:
        return {"at": -1, "what": "driver error", "detail": model}
    steps = model["ok"]["steps"]
    ops, snaps = res["ops"], res["snaps"]
    for k, (op, st) in enumerate(zip(ops, steps)):
        if st.get("skipped") or (res.get("unmodelled_at") is not None and k >= res["unmodelled_at"]):
            break
        if not st["en"]:
            return {"at": k, "op": op, "what": "op taken by the implementation is not enabled in the model", "model_state": _brief(st["st"], op),
                    "impl_state": _brief(snaps[k], op)}
        if op.get("_mid"):
            continue
        real, mod = snaps[k + 1], st["st"]
        diffs = []
        for g in ("connWin", "maxFrame", "hasData", "closed"):
            if real[g] != mod[g]:
                diffs.append([g, mod[g], real[g]])
        if task_norm(real["task"]) != task_norm(mod["task"]):
            diffs.append(["task", mod["task"], real["task"]])
        for sid, r in real["str"].items():
            m = mod["str"].get(sid)
            if m is None:
                continue
            for f in ("hasBuf", "pusher", "inTree", "live"):
                if r[f] != m[f]:
                    diffs.append([sid, f, m[f], r[f]])
            if r["hasBuf"] and m["hasBuf"]:
                for f in ("buf", "complete", "pausedEv", "emptyEv", "bufClosed"):
                    if r[f] is not None and r[f] != m[f]:
                        diffs.append([sid, f, m[f], r[f]])
            if r["inTree"] and m["inTree"] and r["blocked"] != m["blocked"]:
                diffs.append([sid, "blocked", m["blocked"], r["blocked"]])
            if r["window"] is not None and not m["libClosed"] and not m["ended"] and r["window"] != m["window"]:
                diffs.append([sid, "window", m["window"], r["window"]])
        if diffs:
            return {"at": k, "op": op, "what": "state after the op differs (model, implementation)", "diffs": diffs[:8]}
    return None


def _brief(st: dict, op: dict) -> dict:
    out = {k: st[k] for k in ("connWin", "hasData", "task", "closed") if k in st}
    sid = str(op.get("i", ""))
    if sid in st.get("str", {}):
        out["stream"] = st["str"][sid]
    return out


# --------------------------------------------------------------------------------------------------------------
# scenario generator (shared by harness/gen/C08.py and C09.py)
# --------------------------------------------------------------------------------------------------------------
SIZES = [1, 7, 100, 1000, 5000, 16383, 16384, 16385, 20000, 32767, 32768, 32769, 40000, 70000]


def gen_app(rng: random.Random, budget: int, profile: str) -> Tuple[List[dict], dict]:
    """an application script and its summary {sizes, ends, exits}"""
    kind = rng.choices(["normal", "empty", "abandon", "open_ended", "crash_before_start", "many"],
                       weights=[8, 1, 2, 2, 1, 3 if profile == "pressure" else 1])[0]
    steps: List[dict] = []
    sizes: List[int] = []
    if kind == "crash_before_start":
        return [{"exit": 1}], {"kind": kind, "sizes": [], "ends": True, "exits": True}
    steps.append({"start": 200})
    if kind == "empty":
        steps.append({"body": 0, "more": False})
        return steps, {"kind": kind, "sizes": [], "ends": True, "exits": False}
    n = rng.choice([1, 2, 3, 4, 6]) if kind != "many" else rng.choice([8, 12, 20])
    for k in range(n):
        sz = rng.choice(SIZES if kind != "many" else [10000, 16384, 20000, 33000])
        if sum(sizes) + sz > budget:
            sz = max(1, min(sz, budget - sum(sizes)))
        if sum(sizes) + sz > budget:
            break
        sizes.append(sz)
        last = k == n - 1 and kind in ("normal", "many")
        if rng.random() < 0.3:
            steps.append({"turns": rng.choice([1, 3, 10, 40])})
        steps.append({"body": sz, "more": not last})
    ends = bool(sizes) and kind in ("normal", "many")
    if not ends and kind in ("normal", "many"):
        steps.append({"body": 0, "more": False})
        ends = True
    if kind == "abandon":
        steps.append({"exit": 1})
    return steps, {"kind": kind, "sizes": sizes, "ends": ends, "exits": kind == "abandon"}


def gen_scenario(rng: random.Random, profile: str = "flow") -> dict:
    """profile "flow": C09 (windows, settings, priorities, resets); "pressure": C08 (closed windows, many writes,
    release events while a send is waiting)"""
    nstreams = rng.choice([1, 2, 2, 3, 4, 6])
    iw = rng.choice([0, 0, 1, 100, 16384, 65535, 65535, 1048576] if profile == "flow" else [0, 0, 1, 100, 20000, 65535])
    sc: Dict[str, Any] = {"seed": rng.randrange(1 << 30), "density": rng.choice([0.0, 0.2, 0.5, 1.0]), "trio_like": rng.random() < 0.5,
                          "initial_window": iw, "max_frame": rng.choice([None, None, 16384, 32768, 65536]), "profile": profile}
    acts: List[dict] = []
    sids = [1 + 2 * k for k in range(nstreams)]
    apps = {}
    if rng.random() < 0.3:
        acts.append({"do": "winconn", "n": rng.choice([1, 100000, 1000000])})
    budget = 300000 // nstreams
    pending = list(sids)
    opened: List[int] = []
    dead: List[int] = []
    terminal = False
    nclient = rng.choice([2, 4, 8, 12])
    while pending or nclient > 0:
        r = rng.random()
        if pending and (r < 0.45 or nclient <= 0):
            sid = pending.pop(0)
            if rng.random() < 0.25:       # PRIORITY before HEADERS
                acts.append({"do": "prio", "sid": sid, "dep": rng.choice([0] + [x for x in sids if x != sid]), "weight": rng.choice([1, 16, 256]),
                             "excl": rng.random() < 0.3})
            script, summ = gen_app(rng, budget, profile)
            a = {"do": "open", "sid": sid, "app": script}
            if rng.random() < 0.2:
                a["prio"] = {"dep": rng.choice([0] + opened), "weight": rng.choice([1, 16, 256]), "excl": rng.random() < 0.3}
            acts.append(a)
            apps[str(sid)] = summ
            opened.append(sid)
        else:
            nclient -= 1
            k = rng.choices(["win", "winconn", "settings", "maxframe", "rst", "prio", "settle", "turns", "closed", "fail_writes"],
                            weights=[6, 3, 3, 1, 2, 3, 4, 4, 0.5, 0.3])[0]
            if k == "win" and opened:
                acts.append({"do": "win", "sid": rng.choice(opened), "n": rng.choice([1, 10, 100, 16384, 65535, 200000])})
            elif k == "winconn":
                acts.append({"do": "winconn", "n": rng.choice([1, 100, 16384, 65535, 500000])})
            elif k == "settings":
                acts.append({"do": "settings", "v": rng.choice([0, 1, 100, 16384, 65535, 70000, 1048576])})
            elif k == "maxframe":
                acts.append({"do": "maxframe", "v": rng.choice([16384, 20000, 65536, 1048576])})
            elif k == "rst" and [x for x in opened if x not in dead]:
                sid = rng.choice([x for x in opened if x not in dead])
                dead.append(sid)
                acts.append({"do": "rst", "sid": sid})
            elif k == "prio":
                cands = sids + [x + 100 for x in sids[:1]]
                sid = rng.choice(cands)
                acts.append({"do": "prio", "sid": sid, "dep": rng.choice([0, 0] + [x for x in cands if x != sid]), "weight": rng.choice([1, 16, 256]),
                             "excl": rng.random() < 0.3})
            elif k == "settle":
                acts.append({"do": "settle"})
            elif k == "turns":
                acts.append({"do": "turns", "n": rng.choice([1, 2, 5, 20])})
            elif k in ("closed", "fail_writes") and not pending:
                acts.append({"do": k})
                terminal = True
                break
    acts.append({"do": "settle", "tag": "before_credit"})
    if not terminal:
        acts.append({"do": "drain_all"})
    sc["actions"] = acts
    sc["apps"] = apps
    sc["client_rst"] = dead
    sc["terminal"] = terminal
    return sc


# --------------------------------------------------------------------------------------------------------------
# PRIORITY dependency loops: the priority library (2.0.0) keeps a stream that has completed scheduled after a loop was
# reprioritized; `_send_data` recovers by rebuilding the tree - whilst other streams are mid-transfer with a sender waiting
# --------------------------------------------------------------------------------------------------------------
def loop_scenario(seed: int, density: float, trio_like: bool, big: List[int], small_delay: int, chain: int = 3, loop: Optional[Tuple[int, int]] = None,
                  window: int = 1 << 24, via: str = "headers", silent: bool = True, big_at: int = 0) -> dict:
    """streams 1, 3, 5, … each depending on the one before; then a PRIORITY frame making `loop[0]` depend on its descendant
    `loop[1]`.  The child of `loop[1]` (the stream the library then keeps under two parents) answers with a small body after
    `small_delay` turns and completes whilst stream number `big_at` of the chain is part way through streaming `big` (writes
    that wait on the stream buffer); the other streams stay silent for long (or answer a little later).  The client's windows
    are wide open from the start: it owes the server no WINDOW_UPDATE, nothing but the send task's own bookkeeping can keep the
    transfer going."""
    sids = [1 + 2 * k for k in range(chain)]
    loop = loop or (sids[0], sids[1])
    small = sids[min(chain - 1, sids.index(loop[1]) + 1)]
    bigs = sids[big_at] if sids[big_at] != small else sids[0]
    acts: List[dict] = [{"do": "winconn", "n": window}] if window > 65535 else []
    for k, sid in enumerate(sids):
        if sid == bigs:
            app = [{"turns": 40}, {"start": 200}] + [{"body": n, "more": True} for n in big] + [{"body": 0, "more": False}]
        elif sid == small:
            app = [{"turns": 40 + small_delay}, {"start": 200}, {"body": 100, "more": False}]
        else:
            app = [{"turns": 400 if silent else 45 + small_delay}, {"start": 200}, {"body": 10, "more": False}]
        a: Dict[str, Any] = {"do": "open", "sid": sid, "app": app}
        if k and via == "headers":
            a["prio"] = {"dep": sids[k - 1]}
        acts.append(a)
    if via == "frames":
        for k, sid in enumerate(sids):
            if k:
                acts.append({"do": "prio", "sid": sid, "dep": sids[k - 1]})
    acts += [{"do": "prio", "sid": loop[0], "dep": loop[1]}, {"do": "settle", "tag": "loop"}, {"do": "drain_all"}]
    return {"seed": seed, "density": density, "trio_like": trio_like, "initial_window": window, "max_frame": None, "profile": "loop", "actions": acts,
            "apps": {str(bigs): {"kind": "big", "sizes": big}, str(small): {"kind": "small", "sizes": [100]}}}


def loop_corpus() -> List[dict]:
    """deterministic: the shape of the defect the recovery exists for (F72) with a transfer in progress, over the schedule
    parameters that decide whether the tree is rebuilt before, whilst or after the big stream's sender waits"""
    out = []
    for k, delay in enumerate([0, 1, 2, 3, 5, 8, 10, 14]):
        for seed in (0, 1, 2):
            out.append(loop_scenario(seed, 0.2 if seed else 0.5, bool((k + seed) % 2), [262144] if (k + seed) % 3 else [70000, 70000, 70000], delay,
                                     chain=3 + (k % 2), via="frames" if (k + seed) % 4 == 0 else "headers"))
    return out


def gen_loop_scenario(rng: random.Random) -> dict:
    chain = rng.choice([3, 3, 4, 5])
    sids = [1 + 2 * k for k in range(chain)]
    b = rng.randrange(1, chain - 1) if rng.random() < 0.8 else chain - 1      # mostly a descendant that has a child of its own
    a = rng.randrange(0, b)
    big = [rng.choice([40000, 70000, 131072, 262144]) for _ in range(rng.choice([1, 1, 2, 3]))]
    return loop_scenario(rng.randrange(1 << 30), rng.choice([0.0, 0.2, 0.5, 1.0]), rng.random() < 0.5, big, rng.choice([0, 1, 2, 3, 5, 8, 13, 20]), chain=chain,
                         loop=(sids[a], sids[b]), window=rng.choice([1 << 24, 1 << 24, 1 << 20, 65535]), via=rng.choice(["headers", "frames"]),
                         silent=rng.random() < 0.7, big_at=rng.choice([0, 0, 0, 1, 2]) % chain)


# --------------------------------------------------------------------------------------------------------------
# uploads: request bodies in DATA frames with and without padding (what a frame takes from the client's windows is its
# flow-controlled length: payload + pad-length byte + padding), more of them than the 65535-byte windows hold
# --------------------------------------------------------------------------------------------------------------
def upload_scenario(seed: int, density: float, trio_like: bool, streams: List[dict], profile: str = "upload") -> dict:
    """streams: [{"frames": [[n, pad|None], …], "answer": "late"|"early"|"never_reads", "body": response bytes}]; the frames of the
    streams are interleaved round-robin; `early` = the application answers (and the stream is forgotten) before the upload ends"""
    acts: List[dict] = []
    sids = [1 + 2 * k for k in range(len(streams))]
    for sid, st in zip(sids, streams):
        late = st.get("answer", "late") == "late"
        app = [{"turns": 3000 if late else 2}, {"start": 200}, {"body": st.get("body", 10), "more": False}]
        acts.append({"do": "open", "sid": sid, "app": app, "upload": True})
    queues = [[(sid, f, k == len(st["frames"]) - 1) for k, f in enumerate(st["frames"])] for sid, st in zip(sids, streams)]
    while any(queues):
        for qu in queues:
            if qu:
                sid, (n, pad), last = qu.pop(0)
                acts.append({"do": "data", "sid": sid, "n": n, "pad": pad, "end": last})
    acts += [{"do": "settle", "tag": "uploaded"}, {"do": "drain_all"}]
    return {"seed": seed, "density": density, "trio_like": trio_like, "initial_window": 65535, "max_frame": None, "profile": profile, "actions": acts,
            "apps": {str(sid): {"kind": "upload-" + st.get("answer", "late"), "sizes": [st.get("body", 10)]} for sid, st in zip(sids, streams)}}


def upload_corpus() -> List[dict]:
    return [
        # more padding than the windows hold: 300 frames of 1 byte + 255 bytes of padding = 76 800 flow-controlled bytes
        upload_scenario(1, 0.0, False, [{"frames": [[1, 255]] * 300}]),
        # large padded frames on two streams, one answered (and forgotten by the server) before its upload ends
        upload_scenario(2, 0.2, True, [{"frames": [[16000, 255]] * 6, "answer": "early"}, {"frames": [[8000, 100]] * 10 + [[0, 0]]}]),
        # PADDED flag with no padding (one byte of overhead), empty padded frames, unpadded frames in between
        upload_scenario(3, 0.5, False, [{"frames": [[0, 255], [5, 0], [16384, None], [0, 0], [100, 7]] * 40}]),
        # baseline: no padding at all
        upload_scenario(4, 0.2, False, [{"frames": [[16384, None]] * 10}, {"frames": [[1, None]] * 50, "answer": "early"}]),
    ]


def gen_upload_scenario(rng: random.Random) -> dict:
    streams = []
    for _ in range(rng.choice([1, 1, 2, 3])):
        kind = rng.choice(["tiny_padded", "big_padded", "mixed", "plain"])
        if kind == "tiny_padded":
            frames = [[rng.choice([0, 1, 10]), rng.choice([255, 200, 100])] for _ in range(rng.choice([100, 200, 320]))]
        elif kind == "big_padded":
            frames = [[rng.choice([8000, 16000, 16128]), rng.choice([0, 1, 255])] for _ in range(rng.choice([4, 8, 12]))]
        elif kind == "mixed":
            frames = [[rng.choice([0, 1, 100, 5000, 16000]), rng.choice([None, None, 0, 5, 255])] for _ in range(rng.choice([20, 60, 120]))]
        else:
            frames = [[rng.choice([1, 1000, 16384]), None] for _ in range(rng.choice([5, 10, 20]))]
        streams.append({"frames": frames, "answer": rng.choice(["late", "late", "early"]), "body": rng.choice([0, 10, 20000])})
    return upload_scenario(rng.randrange(1 << 30), rng.choice([0.0, 0.2, 0.5, 1.0]), rng.random() < 0.5, streams)


# --------------------------------------------------------------------------------------------------------------
# monitors: the property statements evaluated on the implementation's own observations (never on the model)
# --------------------------------------------------------------------------------------------------------------
def written_sizes(sc: dict, res: dict, sid: int) -> List[int]:
    """sizes of the body steps of stream `sid`'s script that reached `stream_send` (in order)"""
    act = next((a for a in sc["actions"] if a.get("do") in ("open", "app") and a.get("sid") == sid and "app" in a), None)
    if act is None:
        return []
    sizes = [st["body"] for st in act["app"] if "body" in st and st["body"] > 0]
    pushed = [o["n"] for o in res["ops"] if o["op"] == "push" and o["i"] == sid]
    return sizes[: len(pushed)]


def facts(sc: dict, res: dict) -> dict:
    led = res["ledger"]
    client_rst = set(res["client_rst"])
    server_rst = {int(k) for k in led["rst"]}
    ended_by_app = {o["i"] for o in res["ops"] if o["op"] == "end"}
    terminal = next((a["do"] for a in sc["actions"] if a["do"] in ("closed", "fail_writes")), None)
    final = res["quiescent"][-1] if res["quiescent"] else None
    return {"client_rst": client_rst, "server_rst": server_rst, "ended_by_app": ended_by_app, "terminal": terminal, "final": final,
            "closed": bool(final and final["closed"])}


def monitor_c09(sc: dict, res: dict) -> List[Tuple[str, Any, dict]]:
    """(clause, detail, signature extras) for every way this run contradicts the C09 statement"""
    out: List[Tuple[str, Any, dict]] = []
    f = facts(sc, res)
    led = res["ledger"]
    base = {"layer": "direct"}
    # never more DATA than stream window, connection window and frame size allow, at the time
    if led["violations"]:
        v = led["violations"][0]
        kind = "frame_size" if v["frame"] > v["max_frame"] else ("stream_window" if v["frame"] > max(0, v["stream_window"]) else "connection_window")
        out.append(("flow_control_exceeded", v, {**base, "kind": kind}))
    if res["client"]["error"] and "shrunk below 0" not in res["client"]["error"]:
        # ("Flow control window shrunk below 0" is the h2 library, in client role, refusing a SETTINGS decrease that makes its
        #  own receive window negative - legal per RFC 7540 6.9.2; it can still happen when DATA was in flight while the
        #  harness checked `settings_ok`.  The ledger keeps judging such a run; the run ends there.)
        out.append(("client_parser_error", res["client"]["error"], {**base, "error": res["client"]["error"].split(":")[0]}))
    # the send task / reader survive whatever the client and the applications do
    if res["sendtask_error"]:
        out.append(("send_task_died" if res["sendtask_error"] != "Runaway" else "spinning", res["sendtask_error"],
                    {**base, "error": res["sendtask_error"]}))
    if res["reader_error"]:
        out.append(("reader_died", res["reader_error"], {**base, "error": res["reader_error"].split(":")[0]}))
    if res.get("runaway"):
        return out                      # the recorded trace is truncated; the run is reported as spinning, nothing else is judged
    # in order, nothing invented, END_STREAM at most once and only after everything
    for sid_s in res["apps"]:
        sid = int(sid_s)
        sizes = written_sizes(sc, res, sid)
        want = expected_payload(sid, sizes)
        got = led["payload"].get(sid, b"")
        seen = res["client"]["streams"].get(sid_s)
        if seen is not None and sid not in f["client_rst"] and not res["client"]["error"] and seen["data"] != got:
            out.append(("client_parser_error", {"sid": sid, "h2_client": len(seen["data"]), "ledger": len(got)}, {**base, "error": "views_differ"}))
        if not want.startswith(got):
            out.append(("data_not_a_prefix_of_what_was_written", {"sid": sid, "got": len(got), "written": len(want)}, base))
        ends = led["end"].get(sid, 0)
        if ends > 1 or sid in led["data_after_end"]:
            out.append(("end_stream_twice_or_data_after_end", {"sid": sid, "ends": ends}, base))
        if ends >= 1 and (got != want or sid not in f["ended_by_app"]):
            out.append(("end_stream_before_everything_was_sent", {"sid": sid, "got": len(got), "written": len(want), "app_ended": sid in f["ended_by_app"]},
                        {**base, "after": f["terminal"] or "none"}))
    # the application's send of the end of the body returns only once END_STREAM has been written
    for sid_s, app in res["apps"].items():
        for snd in app["sends"]:
            if snd.get("final") and snd.get("ret") == "ok" and not snd.get("end_on_wire"):
                out.append(("final_send_returned_before_end_stream", {"sid": int(sid_s), "at": snd.get("ret_at")}, base))
    # delivered completely, followed by exactly one END_STREAM, once quiescent with the windows open
    if f["terminal"] is None and not res["errors"] and not res["client"]["error"] and f["final"] and f["final"]["quiet"]:
        for sid_s, app in res["apps"].items():
            sid = int(sid_s)
            if sid in f["client_rst"] or sid in f["server_rst"]:
                continue
            got = led["payload"].get(sid, b"")
            want = expected_payload(sid, written_sizes(sc, res, sid))
            if got != want:
                out.append(("not_delivered_with_windows_open", {"sid": sid, "got": len(got), "written": len(want)}, base))
            if (led["end"].get(sid, 0) == 1) != (sid in f["ended_by_app"]):
                out.append(("end_stream_missing_or_spurious", {"sid": sid, "ends": led["end"].get(sid, 0), "app_ended": sid in f["ended_by_app"]}, base))
    # as soon as the windows permit; a stalled or reset stream does not stop the others; quiescent rather than spinning
    for q in res["quiescent"]:
        if not q["quiet"]:
            out.append(("spinning", {"at": q["at"], "turns": q["turns"]}, {**base, "error": "never_quiescent"}))
            continue
        if q["closed"] or q["sendtask_error"]:
            continue
        rst_then = {int(k) for k in q["ledger"]["rst"]}
        for sid_s, n in q["bufs"].items():
            sid = int(sid_s)
            if n > 0 and sid not in f["client_rst"] and sid not in rst_then:
                if q["ledger"]["win"].get(sid, 0) > 0 and q["ledger"]["conn"] > 0:
                    out.append(("stalled_with_credit", {"sid": sid, "buffered": n, "stream_window": q["ledger"]["win"].get(sid), "conn_window": q["ledger"]["conn"],
                                                       "at": q["at"]}, base))
    # received data is acknowledged so that the client's upload windows reopen: (a) the client's view - a request body frame the
    # client cannot send for want of window although the server has come to rest (everything it received was consumed, every
    # WINDOW_UPDATE it will ever send is in); (b) conservation at the library boundary - every DataReceived event h2 handed to
    # the protocol is acknowledged with exactly its flow-controlled length (padding included), for its stream, in order
    up = res.get("upload") or {}
    if up.get("stalls") and f["terminal"] is None and not res["reader_error"] and not res["client"]["error"]:
        out.append(("upload_stalled_for_want_of_credit", up["stalls"][0], {**base, "kind": "client_window_exhausted"}))
    if up.get("data_events") is not None and not res["reader_error"]:
        want = [[e[0], e[1]] for e in up["data_events"]]
        got = up.get("acks", [])
        if want != got:
            k = next((i for i, (a, b) in enumerate(zip(want, got)) if a != b), min(len(want), len(got)))
            out.append(("upload_credit_not_returned", {"data_event_index": k, "event[stream, flow_controlled_length, payload]": (up["data_events"][k] if k < len(want) else None),
                                                      "acknowledged[stream, amount]": (got[k] if k < len(got) else None),
                                                      "flow_controlled_total": sum(a[1] for a in want), "acknowledged_total": sum(a[1] for a in got)},
                        {**base, "kind": "padded" if k < len(want) and up["data_events"][k][1] != up["data_events"][k][2] else "unpadded"}))
    # no spinning: scheduler turns are bounded by the work done
    data_frames = sum(len(v) for v in led["frames"].values())
    if res["next_calls"] > 4 * (data_frames + len(res["ops"])) + 16:
        out.append(("excess_scheduler_turns", {"next_calls": res["next_calls"], "data_frames": data_frames, "ops": len(res["ops"])}, base))
    return out


def monitor_c08(sc: dict, res: dict, high: int) -> List[Tuple[str, Any, dict]]:
    out: List[Tuple[str, Any, dict]] = []
    f = facts(sc, res)
    base = {"layer": "direct"}
    if res["sendtask_error"]:
        out.append(("send_task_died" if res["sendtask_error"] != "Runaway" else "spinning", res["sendtask_error"], {**base, "error": res["sendtask_error"]}))
    # bounded: bytes held per stream < HIGH + 2 * (largest single write)
    for sid, held in res["held_max"].items():
        c = res["max_write"].get(sid, 0)
        if held >= high + 2 * c and held > 0:
            out.append(("held_beyond_bound", {"sid": sid, "held": held, "bound": high + 2 * c, "largest_write": c}, base))
    for q in res["quiescent"]:
        if not q["quiet"]:
            continue
        for sid_s, app in q["apps"].items():
            sid = int(sid_s)
            # external measure: accepted by send() minus delivered to the client
            held_ext = app["written"] - q["ledger"]["data"].get(sid, 0)
            c = res["max_write"].get(sid, 0)
            rst_then = {int(k) for k in q["ledger"]["rst"]}
            reset = sid in f["client_rst"] or sid in rst_then
            if not reset and not q["closed"] and held_ext >= high + 2 * c and held_ext > 0:
                out.append(("held_beyond_bound", {"sid": sid, "held": held_ext, "bound": high + 2 * c, "external": True}, base))
            if app["waiting"]:
                # a send is still waiting at quiescence: only legitimate under pressure
                credit = q["ledger"]["win"].get(sid, 0) > 0 and q["ledger"]["conn"] > 0
                rst_before = sid in f["client_rst"] and any(o["op"] == "rst" and o["i"] == sid for o in res["ops"][: q["at"]])
                if q["closed"]:
                    out.append(("send_never_returned", {"sid": sid, "msg": app["waiting_msg"], "at": q["at"]}, {**base, "event": f["terminal"] or "closed"}))
                elif rst_before or sid in rst_then:
                    out.append(("send_never_returned", {"sid": sid, "msg": app["waiting_msg"], "at": q["at"]}, {**base, "event": "rst"}))
                elif credit:
                    out.append(("send_never_returned", {"sid": sid, "msg": app["waiting_msg"], "at": q["at"], "buffered": q["bufs"].get(sid_s)}, {**base, "event": "credit"}))
    return out
