"""Direct drive of the real `H11Protocol` (as tests/protocol/test_h11.py does, but recording everything and with
taps on the h11 / wsproto library classes), producing the op list and per-op observations that
`lean/Driver/Proto.lean` (`proto.h11`) predicts."""
from __future__ import annotations

import asyncio
from typing import Any, Dict, List, Optional, Tuple

import h11

from . import streams as S
from .framework import b2s


class H11Tap:
    """records next_event results / send calls / start_next_cycle on *server-role* h11 connections"""

    def __init__(self, sink: list) -> None:
        self.sink = sink
        self.events: list = []

    def install(self) -> None:
        C = h11.Connection
        self._o = (C.next_event, C.send, C.start_next_cycle)
        tap = self

        def next_event(conn):
            if conn.our_role is not h11.SERVER:
                return tap._o[0](conn)
            try:
                ev = tap._o[0](conn)
            except h11.RemoteProtocolError as e:
                tap.events.append({"k": "protoError", "hint": e.error_status_hint})
                raise
            tap.events.append(_lib_ev_json(ev))
            return ev

        def send(conn, event):
            if conn.our_role is not h11.SERVER:
                return tap._o[1](conn, event)
            try:
                data = tap._o[1](conn, event)
            except h11.LocalProtocolError:
                tap.sink.append(["libSend", _lib_send_json(event), False])
                raise
            tap.sink.append(["libSend", _lib_send_json(event), True])
            return data

        def start_next_cycle(conn):
            if conn.our_role is not h11.SERVER:
                return tap._o[2](conn)
            try:
                tap._o[2](conn)
            except h11.LocalProtocolError:
                tap.sink.append(["startNextCycle", False])
                raise
            tap.sink.append(["startNextCycle", True])

        C.next_event, C.send, C.start_next_cycle = next_event, send, start_next_cycle

    def remove(self) -> None:
        h11.Connection.next_event, h11.Connection.send, h11.Connection.start_next_cycle = self._o


def _lib_ev_json(ev) -> dict:
    if isinstance(ev, h11.Request):
        return {"k": "request", "method": b2s(ev.method), "target": b2s(ev.target), "headers": S.headers_json(list(ev.headers)),
                "raw_headers": S.headers_json(ev.headers.raw_items()), "version": b2s(ev.http_version)}
    if isinstance(ev, h11.Data):
        return {"k": "data", "data": b2s(bytes(ev.data))}
    if isinstance(ev, h11.EndOfMessage):
        return {"k": "eom"}
    if isinstance(ev, h11.ConnectionClosed):
        return {"k": "connClosed"}
    if ev is h11.NEED_DATA:
        return {"k": "needData"}
    if ev is h11.PAUSED:
        return {"k": "paused"}
    return {"k": "?", "repr": repr(ev)}


def _lib_send_json(ev) -> list:
    if isinstance(ev, h11.InformationalResponse):
        return ["info", ev.status_code, S.headers_json(ev.headers.raw_items())]
    if isinstance(ev, h11.Response):
        return ["response", ev.status_code, S.headers_json(ev.headers.raw_items())]
    if isinstance(ev, h11.Data):
        return ["data", b2s(bytes(ev.data))]
    if isinstance(ev, h11.EndOfMessage):
        return ["eom"]
    return ["?", repr(ev)]


def _scope_json(scope: dict) -> dict:
    return {"type": scope["type"], "method": scope.get("method", "GET"), "http_version": scope["http_version"],
            "raw_path": b2s(scope["raw_path"]), "query_string": b2s(scope["query_string"]),
            "headers": S.headers_json(scope["headers"]),
            # not predicted by the Lean model (compared by the monitors only)
            "_path": scope["path"], "_scheme": scope["scheme"], "_client": list(scope["client"] or []), "_server": list(scope["server"] or []),
            "_root_path": scope["root_path"]}


async def drive_h11(cfg: dict, ops) -> Tuple[List[dict], List[dict], dict]:
    """ops: a list of, or a policy `f(view) -> op | None` yielding,
    {"data": bytes} | {"send": [obj, msg]} | {"closed": 1} | {"terminate": 1} | {"deferred": 1}
    (view = {"objs": n, "puts": {obj: [...]}, "spawned": [obj…], "parked": bool, "up_closed": bool, "steps": k}).
    Returns (model ops, observations aligned with the model ops, library facts)."""
    from hypercorn.config import Config
    from hypercorn.asyncio.worker_context import WorkerContext
    from hypercorn.events import Closed, RawData, Updated
    from hypercorn.protocol.h11 import H2CProtocolRequiredError, H2ProtocolAssumedError, H11Protocol
    from hypercorn.protocol.http_stream import HTTPStream
    from hypercorn.typing import ConnectionState
    sink: list = []
    config = Config()
    for k, v in cfg.items():
        setattr(config, k, v)
    config._log = S.RecLog(sink)  # type: ignore
    objs: list = []
    spawned: list = []

    def obj_id(stream) -> int:
        for i, o in enumerate(objs):
            if o is stream:
                return i
        objs.append(stream)
        return len(objs) - 1

    class TG:
        async def spawn_app(self, app, config_, scope, send):
            stream = send.__self__
            oid = obj_id(stream)
            sink.append(["spawn", oid, _scope_json(scope)])

            async def app_put(message):
                sink.append(["put", oid, S._put_json(message)])

            return app_put

        def spawn(self, func, *args):
            if any(type(a).__name__ == "StreamClosed" for a in args):
                sink.append(["spawnClose"])
                spawned.append((func, args))          # run by a later {"deferred": 1} op (the task the real task group would start)
            else:
                sink.append(["spawnPings"])

    async def send(ev):
        if isinstance(ev, RawData):
            sink.append(["upRaw", b2s(ev.data)])
        elif isinstance(ev, Closed):
            sink.append(["upClosed"])
        elif isinstance(ev, Updated):
            sink.append(["upUpdated", ev.idle])

    ctx = WorkerContext(None)
    tap = H11Tap(sink)
    wtap = S.WsTap()
    tap.install()
    wtap.install()
    model_ops: List[dict] = []
    obs: List[dict] = []
    lib: Dict[str, Any] = {"token": "", "ext": None}
    try:
        proto = H11Protocol(object(), config, ctx, TG(), ConnectionState({}), False, ("127.0.0.1", 1), ("10.0.0.1", 80), send)
        reader_task: Optional[asyncio.Task] = None

        async def settle():
            for _ in range(8):
                await asyncio.sleep(0)

        def flush_stream_identity():
            if proto.stream is not None:
                obj_id(proto.stream)

        def snap(err=None):
            flush_stream_identity()
            conn = proto.connection
            their = getattr(conn, "their_state", None)
            our = getattr(conn, "our_state", None)
            evs = []
            for x in sink:
                if isinstance(x, list):
                    evs.append(x)
                else:
                    evs.append(S._ev_json(x, wtap.sent))
            sink.clear()
            parked = reader_task is not None and not reader_task.done()
            return {"outs": evs, "error": err, "their": None if their is None else str(their), "our": None if our is None else str(our),
                    "parked": parked, "cur": None if proto.stream is None else obj_id(proto.stream), "kar": proto.keep_alive_requests}

        def drain_lib_events(first_obs_extra=None):
            """turn tapped next_event results into `ev` ops; observations are attributed to the last one of the batch"""
            evs = list(tap.events)
            tap.events.clear()
            return evs

        def ws_upgrade_tail(was_ws: bool) -> None:
            """the reader took a WebSocket handshake during this op (in a read, or in a parked reader that a send / close released and
            that went on with a pipelined request): the untapped H11WSConnection replays h11's trailing data, then answers NEED_DATA"""
            if not was_ws and not isinstance(proto.connection, h11.Connection):
                trailing = proto.connection.h11_connection.trailing_data[0]
                if trailing:
                    model_ops.append({"op": "ev", "k": "wsData", "data": b2s(trailing), "events": list(wtap.yielded)})
                    obs.append(None)
                model_ops.append({"op": "ev", "k": "needData"})
                obs.append(None)

        view: Dict[str, Any] = {"objs": 0, "puts": {}, "spawned": [], "parked": False, "up_closed": False, "steps": 0, "kinds": {}}
        static = list(ops) if isinstance(ops, list) else None

        def update_view():
            view["objs"] = len(objs)
            view["parked"] = reader_task is not None and not reader_task.done()
            for o in obs:
                if o is None or o.get("_seen"):
                    continue
                o["_seen"] = True
                for ev in o["outs"]:
                    if ev[0] == "spawn":
                        view["spawned"].append(ev[1])
                        view["kinds"][ev[1]] = ev[2]["type"]
                    elif ev[0] == "put":
                        view["puts"].setdefault(ev[1], []).append(ev[2])
                    elif ev[0] in ("upClosed", "switchH2c", "switchPrior"):
                        view["up_closed"] = True      # after a switch this protocol object is replaced by the wrapper

        while True:
            update_view()
            view["steps"] += 1
            if static is not None:
                if not static:
                    break
                op = static.pop(0)
            else:
                op = ops(view)
                if op is None or view["steps"] > 400:
                    break
            if "data" in op:
                if reader_task is not None and not reader_task.done():
                    continue       # a parked reader does not read (TCPServer awaits protocol.handle)
                was_ws = not isinstance(proto.connection, h11.Connection)
                had_stream = proto.stream is not None
                sw = {}

                async def run_handle(data=op["data"]):
                    try:
                        await proto.handle(RawData(data))
                    except H2CProtocolRequiredError:
                        sink.append(["switchH2c"])
                        sw["x"] = True
                    except H2ProtocolAssumedError:
                        sink.append(["switchPrior"])
                        sw["x"] = True

                wtap.yielded.clear()
                reader_task = asyncio.ensure_future(run_handle())
                await settle()
                model_ops.append({"op": "begin"})
                obs.append(None)
                levs = drain_lib_events()
                if was_ws:
                    # H11WSConnection is not tapped: its results are reconstructed.  Without a stream the loop ends at the Data
                    # event (`elif self.stream is None: break`), next_event() is not called again
                    levs = ([{"k": "wsData", "data": b2s(op["data"]), "events": list(wtap.yielded)}] if op["data"] else []) + (
                        [{"k": "needData"}] if had_stream or not op["data"] else [])
                for e in levs:
                    model_ops.append({"op": "ev", **e})
                    obs.append(None)
                # upgrade to websocket during this op: H11WSConnection replays trailing data itself
                ws_upgrade_tail(was_ws)
                obs[-1] = snap()
                if reader_task.done() and reader_task.exception() is not None:
                    obs[-1]["handler_exception"] = type(reader_task.exception()).__name__
            elif "send" in op:
                oid, msg = op["send"]
                if oid >= len(objs):
                    continue
                stream = objs[oid]
                err = None
                wtap.yielded.clear()
                was_ws = not isinstance(proto.connection, h11.Connection)
                try:
                    await stream.app_send(None if msg is None else dict(msg))
                except Exception as e:  # noqa
                    err = type(e).__name__
                is_http = isinstance(stream, HTTPStream)
                model_ops.append({"op": "sendHttp" if is_http else "sendWs", "obj": oid,
                                  "msg": S.http_msg_json(msg) if is_http else S.ws_msg_json(msg)})
                o_send = snap(err)
                await settle()
                levs = drain_lib_events()
                if levs:
                    # the parked reader continued: its events follow the send
                    obs.append(o_send)
                    for e in levs:
                        model_ops.append({"op": "ev", **e})
                        obs.append(None)
                    ws_upgrade_tail(was_ws)
                    o2 = snap()
                    obs[-1] = o2
                else:
                    o2 = snap(err)
                    o_send["outs"] += o2["outs"]
                    for k in ("their", "our", "parked", "cur", "kar"):
                        o_send[k] = o2[k]
                    obs.append(o_send)
                for ev in o_send["outs"]:
                    if ev[0] == "response":
                        for n, v in ev[2]:
                            if n == "sec-websocket-extensions":
                                lib["ext"] = v
            elif "closed" in op:
                was_ws = not isinstance(proto.connection, h11.Connection)
                await proto.handle(Closed())
                await settle()
                model_ops.append({"op": "closed"})
                levs = drain_lib_events()      # a parked reader is released by Closed and looks at the parser once more
                obs.append(None if levs else snap())
                for e in levs:
                    model_ops.append({"op": "ev", **e})
                    obs.append(None)
                if levs:
                    ws_upgrade_tail(was_ws)
                    obs[-1] = snap()
            elif "terminate" in op:
                await ctx.terminated.set()
                model_ops.append({"op": "terminate"})
                obs.append(snap())
            elif "deferred" in op:
                # the `stream_send(StreamClosed)` a self-answering stream handed to the task group
                if not spawned:
                    continue
                func, args = spawned.pop(0)
                was_ws = not isinstance(proto.connection, h11.Connection)
                await func(*args)
                await settle()
                model_ops.append({"op": "deferredClose"})
                levs = drain_lib_events()      # a parked reader may have been released
                obs.append(None if levs else snap())
                for e in levs:
                    model_ops.append({"op": "ev", **e})
                    obs.append(None)
                if levs:
                    ws_upgrade_tail(was_ws)
                    obs[-1] = snap()
        if reader_task is not None and not reader_task.done():
            reader_task.cancel()
            try:
                await reader_task
            except BaseException:
                pass
        # accept token of the (single) websocket request, if any
        from wsproto.utilities import generate_accept_token
        for o in obs:
            if o is not None:
                o.pop("_seen", None)
        for mo in model_ops:
            if mo.get("k") == "request":
                for n, v in mo["headers"]:
                    if n == "sec-websocket-key":
                        lib["token"] = b2s(generate_accept_token(v.encode("latin1")))
    finally:
        tap.remove()
        wtap.remove()
    return model_ops, obs, lib


def h11_model_req(cfg: dict, model_ops: List[dict], lib: dict, server_headers: list) -> dict:
    from hypercorn.config import Config
    return {"cmd": "proto.h11",
            "cfg": {"keep_alive_max": cfg.get("keep_alive_max_requests", Config.keep_alive_max_requests),
                    "raw_headers": bool(cfg.get("h11_pass_raw_headers", False)), "server_headers": server_headers,
                    "ws_max_len": cfg.get("websocket_max_message_size", Config.websocket_max_message_size),
                    "server_names": list(cfg.get("server_names", [])), "ping": cfg.get("websocket_ping_interval") is not None},
            "token": lib.get("token", ""), "ext": lib.get("ext"), "ops": model_ops}


def normalise_outs(outs: list) -> list:
    """mask what the model does not predict: the date value; upRaw multiplicity"""
    res = []
    for o in outs:
        if o[0] == "libSend" and o[1][0] in ("info", "response"):
            hs = [[n, ("<date>" if n.lower() == "date" else v)] for n, v in o[1][2]]
            res.append(["libSend", [o[1][0], o[1][1], hs], o[2]])
        elif o[0] in ("upRaw", "data"):
            continue
        elif o[0] == "endData":       # EndData from a websocket stream: `pass` in H11Protocol.stream_send, nothing to observe
            continue
        elif o[0] == "spawn":
            res.append(["spawn", o[1], {k: v for k, v in o[2].items() if not k.startswith("_")}])
        elif o[0] == "response":      # ws stream events never surface here
            continue
        else:
            res.append(o)
    return res
