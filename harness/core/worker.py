"""Whole-worker runner (DESIGN.md 3.4b runner 3): the real `worker_serve` of either worker class on a loopback
socket bound to port 0, a scripted ASGI application (lifespan script + http / websocket handlers), a recording
logger, and clients that are plain blocking sockets on their own threads (the same client code for both workers).

A *scenario* is a JSON-able dict

    {"worker": "asyncio" | "trio",
     "lifespan": ["recv", "await", "startup_complete", ...],      # LIFESPAN_ACTS
     "await_s": 0.15,                                             # duration of one "await" action
     "escape": ["sibling", ["own"]] | {"taskgroups": 2},          # optional: how an exception leaves the lifespan application - wrapped in
                                                                  # exception groups built from this template ("own" = the script's exception,
                                                                  # "sibling" = another exception next to it, a list = one group), or by running
                                                                  # the script inside that many REAL nested task groups / nurseries
     "ls_writes": false,                                          # optional: the lifespan application stores nothing in its state (default: it
                                                                  # writes boot = "L" first thing)
     "config": {"startup_timeout": .., "shutdown_timeout": .., "graceful_timeout": .., "max_requests": null | n},
     "clients": [{"id": 0, "kind": "h1" | "h2" | "ws" | "h2c" | "seq", "steps": [[...], ...]}, ...],
     "trigger_at": seconds | null,                                # when the harness lets `shutdown_trigger` return
     "observe_until": seconds,                                    # serve() not back by then -> outcome "stuck"
     "trigger_after": {"scope": n, "http_done": m},               # optional: the trigger (due at trigger_at) also waits until the
                                                                  # application has recorded that many events (the phase the
                                                                  # connections are meant to be in is reached, not assumed)
     "trigger_path": path,                                        # optional (max_requests): the request whose scope IS the trigger
     "late_tolerance": seconds,                                   # optional: record `harness_late` when a timed step of the harness
                                                                  # itself starts later than this (loaded machine)
     "clock_anchor": "ls_start",                                  # optional: like start_when_listening, but the clock starts when the
                                                                  # lifespan application is entered (script time 0): for scenarios
                                                                  # whose clients must arrive before / during start-up.  A client
                                                                  # with `"ungated": true` does not wait for the anchor.
     "start_when_listening": bool}                                # optional: the scenario clock (clients, trigger, observe_until)
                                                                  # starts when the worker logs `Running on …` (start-up itself is
                                                                  # not the subject: a slow start on a loaded machine shifts nothing)

All times are seconds on the scenario clock (0 = just before `worker_serve` is called).  The runner only records;
judging is done by harness/gen/C14.py and C15.py.  `run_many` executes scenarios in separate processes.
"""
from __future__ import annotations

import json
import multiprocessing
import os
import socket
import sys
import threading
import time
import traceback
from typing import Any, Callable, Dict, List, Optional

LIFESPAN_ACTS = ("recv", "startup_complete", "startup_failed", "shutdown_complete", "shutdown_failed", "unknown",
                 "raise", "hang", "return", "await", "set_late",
                 # the same messages without the `message` key, which the ASGI specification makes optional
                 "startup_failed_nomsg", "shutdown_failed_nomsg")
NOMSG = "_nomsg"


def base_act(act: str) -> str:
    """the action without its payload variant: what the server does depends on the type of the message only"""
    return act[:-len(NOMSG)] if act.endswith(NOMSG) else act
BODY = 2000          # response body size of the scripted http handler (sent in two writes)


class HarnessFailure(Exception):
    """the harness itself misbehaved (never a verdict about the property)"""


# --------------------------------------------------------------------------------------------------------------
# recorder
# --------------------------------------------------------------------------------------------------------------
class Recorder:
    def __init__(self) -> None:
        self.t0 = time.monotonic()
        self.lock = threading.Lock()
        self.events: List[list] = []
        self.counts: Dict[str, int] = {}          # events per kind (the trigger / client steps can wait for the application)
        self.trigger_t: Optional[float] = None    # instant shutdown was triggered (harness trigger, or the `trigger_path` scope)
        self.late_tol: Optional[float] = None     # when set: a timed step that starts later than this is recorded (`harness_late`)
        self.anchored = True                      # False while the scenario clock still waits for its anchor event

    def now(self) -> float:
        return time.monotonic() - self.t0

    def add(self, kind: str, **data: Any) -> None:
        with self.lock:
            self.events.append([len(self.events), round(self.now(), 4), kind, data])
            self.counts[kind] = self.counts.get(kind, 0) + 1
            if kind == "scope" and "path" in data:       # `wait_counts` can wait for one particular request to have started
                k2 = "scope:" + str(data["path"])
                self.counts[k2] = self.counts.get(k2, 0) + 1

    def count(self, kind: str) -> int:
        with self.lock:
            return self.counts.get(kind, 0)

    def mark_trigger(self) -> None:
        if self.trigger_t is None:
            self.trigger_t = self.now()

    def late(self, what: str, by: float, **data: Any) -> None:
        """the harness itself was late (a loaded machine): the scenario as run is not the scenario as written"""
        if self.late_tol is not None and self.anchored and by > self.late_tol:
            self.add("harness_late", what=what, by=round(by, 4), **data)

    def wait_counts(self, want: Dict[str, int], timeout: float, stop: Optional[threading.Event] = None) -> float:
        """wait until at least `want[kind]` events of each kind were recorded; returns how long that took"""
        t = time.monotonic()
        while time.monotonic() - t < timeout and not (stop is not None and stop.is_set()):
            with self.lock:
                if all(self.counts.get(k, 0) >= n for k, n in want.items()):
                    break
            time.sleep(0.002)
        return time.monotonic() - t

    def rebase(self) -> None:
        """the scenario clock restarts now; what was recorded so far gets instants <= 0 (order and distances kept)"""
        with self.lock:
            delta = time.monotonic() - self.t0
            self.t0 += delta
            for e in self.events:
                e[1] = round(e[1] - delta, 4)
            self.anchored = True

    def sleep_until(self, t: float, stop: Optional[threading.Event] = None) -> None:
        while True:
            d = t - self.now()
            if d <= 0 or (stop is not None and stop.is_set()):
                return
            time.sleep(min(d, 0.005))


# --------------------------------------------------------------------------------------------------------------
# scripted application
# --------------------------------------------------------------------------------------------------------------
class ScriptedRaise(Exception):
    pass


async def _sleep(s: float) -> None:
    import sniffio
    if sniffio.current_async_library() == "trio":
        import trio
        await trio.sleep(s)
    else:
        import asyncio
        await asyncio.sleep(s)


def _jsonable_state(d: Any) -> Dict[str, Any]:
    return {str(k): (v if isinstance(v, (str, int, float, bool, type(None))) else repr(v)) for k, v in dict(d).items()}


def wrap_exception(template: Any, own: BaseException) -> BaseException:
    """the exception `own` packed into exception groups after `template`: "own" = `own` itself, "sibling" = another exception
    raised next to it, a list = one `BaseExceptionGroup` of its members"""
    if template == "own":
        return own
    if template == "sibling":
        return ScriptedRaise("sibling")
    if isinstance(template, list) and template:
        return BaseExceptionGroup("scripted group", [wrap_exception(t, own) for t in template])
    raise HarnessFailure(f"bad escape template {template!r}")


def escape_wrap(escape: Any) -> Any:
    """the escape of a scenario as a wrap template (`{"taskgroups": n}` = n groups around the script's own exception)"""
    if isinstance(escape, dict):
        w: Any = "own"
        for _ in range(int(escape.get("taskgroups", 0))):
            w = [w]
        return w
    return escape


async def _in_task_groups(depth: int, body: Callable) -> None:
    """run `body()` as the only child task of `depth` nested task groups (asyncio.TaskGroup) / nurseries (trio)"""
    if depth <= 0:
        await body()
        return
    import sniffio
    if sniffio.current_async_library() == "trio":
        import trio
        async with trio.open_nursery() as nursery:
            nursery.start_soon(_in_task_groups, depth - 1, body)
    else:
        import asyncio
        async with asyncio.TaskGroup() as tg:
            tg.create_task(_in_task_groups(depth - 1, body))


def make_app(rec: Recorder, sc: dict, on_ls_start: Optional[Callable[[], None]] = None) -> Callable:
    script = list(sc["lifespan"])
    await_s = float(sc.get("await_s", 0.15))

    escape = sc.get("escape")

    async def lifespan(scope, receive, send) -> None:
        if on_ls_start is not None:
            on_ls_start()
        rec.add("ls_start")
        if sc.get("ls_writes", True):
            scope["state"]["boot"] = "L"
        if isinstance(escape, dict) and escape.get("taskgroups"):
            # anyio / Starlette style: the script runs in a child task of (nested) task groups / nurseries; whatever it raises
            # leaves the application wrapped in one exception group per level - built by the runtime, not by the harness
            await _in_task_groups(int(escape["taskgroups"]), lambda: lifespan_script(scope, receive, send))
        else:
            await lifespan_script(scope, receive, send)

    async def lifespan_script(scope, receive, send) -> None:
        pending: Optional[BaseException] = None
        i = 0
        while i < len(script):
            act = script[i]
            i += 1
            if pending is not None:
                # an exception is propagating through the application: only its cleanup awaits still run
                if act == "await":
                    rec.add("ls_cleanup_await")
                    await _sleep(await_s)
                    continue
                break
            try:
                if act == "recv":
                    msg = await receive()
                    rec.add("ls_recv", type=msg["type"], state=_jsonable_state(scope["state"]))
                elif base_act(act) in ("startup_complete", "startup_failed", "shutdown_complete", "shutdown_failed", "unknown"):
                    mtype = {"startup_complete": "lifespan.startup.complete", "startup_failed": "lifespan.startup.failed",
                             "shutdown_complete": "lifespan.shutdown.complete", "shutdown_failed": "lifespan.shutdown.failed",
                             "unknown": "lifespan.bogus"}[base_act(act)]
                    rec.add("ls_send", type=mtype)
                    await send({"type": mtype} if act.endswith(NOMSG) else {"type": mtype, "message": "scripted"})
                elif act == "raise":
                    raise ScriptedRaise("scripted")
                elif act == "hang":
                    rec.add("ls_hang")
                    await _sleep(3600)
                elif act == "return":
                    rec.add("ls_exit", how="return")
                    return
                elif act == "await":
                    await _sleep(await_s)
                elif act == "set_late":
                    scope["state"]["late"] = "1"
                    rec.add("ls_set_late")
                else:
                    raise HarnessFailure(f"unknown lifespan action {act}")
            except HarnessFailure:
                raise
            except Exception as e:       # Cancelled / CancelledError are BaseException: they pass through
                pending = e
        if pending is not None:
            rec.add("ls_exit", how="raise", cls=type(pending).__name__)
            if isinstance(escape, list):
                raise wrap_exception(escape, pending)
            raise pending
        rec.add("ls_exit", how="return")

    async def http(scope, receive, send) -> None:
        path = scope["path"]
        rec.add("scope", type="http", path=path, http_version=scope.get("http_version"))
        if path == sc.get("trigger_path"):
            rec.mark_trigger()
        parts = path.strip("/").split("/")
        try:
            if parts[0] == "hang":
                await _sleep(3600)
            elif parts[0] == "big":
                # /big/<n>: a response of n x 64 KiB, far more than the socket buffers take: with a client that does not read
                # the application is held in send() by back-pressure
                await send({"type": "http.response.start", "status": 200, "headers": []})
                for _ in range(int(parts[1])):
                    await send({"type": "http.response.body", "body": b"z" * 65536, "more_body": True})
                await send({"type": "http.response.body", "body": b""})
            elif parts[0] == "state":
                tag = parts[1]
                before = _jsonable_state(scope["state"])
                scope["state"]["who"] = tag
                scope["state"]["boot"] = "C" + tag        # overwrite a key the lifespan wrote
                if len(parts) > 2:
                    await _sleep(int(parts[2]) / 1000.0)
                after = _jsonable_state(scope["state"])
                body = json.dumps({"before": before, "after": after}).encode()
                rec.add("state_probe", tag=tag, before=before, after=after)
                await send({"type": "http.response.start", "status": 200, "headers": [(b"content-length", b"%d" % len(body))]})
                await send({"type": "http.response.body", "body": body})
            else:                                          # /d/<ms>
                ms = int(parts[1]) if len(parts) > 1 else 0
                if ms:
                    await _sleep(ms / 1000.0)
                await send({"type": "http.response.start", "status": 200, "headers": [(b"content-length", b"%d" % BODY)]})
                await send({"type": "http.response.body", "body": b"x" * (BODY // 2), "more_body": True})
                await send({"type": "http.response.body", "body": b"y" * (BODY - BODY // 2)})
            rec.add("http_done", path=path)
        except BaseException as e:
            rec.add("http_abort", path=path, cls=type(e).__name__)
            raise

    async def websocket(scope, receive, send) -> None:
        rec.add("scope", type="websocket", path=scope["path"], http_version=scope.get("http_version"))
        try:
            while True:
                msg = await receive()
                if msg["type"] == "websocket.connect":
                    await send({"type": "websocket.accept"})
                elif msg["type"] == "websocket.disconnect":
                    rec.add("ws_disconnect", code=msg.get("code"))
                    break
            rec.add("ws_done", path=scope["path"])
        except BaseException as e:
            rec.add("ws_abort", path=scope["path"], cls=type(e).__name__)
            raise

    async def app(scope, receive, send) -> None:
        if scope["type"] == "lifespan":
            await lifespan(scope, receive, send)
        elif scope["type"] == "http":
            await http(scope, receive, send)
        else:
            await websocket(scope, receive, send)

    return app


def make_logger_class(rec: Recorder, on_listening: Optional[Callable[[], None]] = None):
    class RecLogger:
        def __init__(self, config) -> None:
            self.access_logger = None
            self.error_logger = None

        async def access(self, request, response, request_time) -> None:
            rec.add("log_access", path=request.get("path"), status=None if response is None else response.get("status"))

        async def _rec(self, level: str, message: str, *a: Any) -> None:
            try:
                message = message % a if a else message
            except Exception:
                pass
            if str(message).startswith("Running on"):
                if on_listening is not None:
                    on_listening()
                rec.add("listening")
            rec.add("log", level=level, message=str(message)[:120])

        async def critical(self, message, *a, **k): await self._rec("critical", message, *a)
        async def error(self, message, *a, **k): await self._rec("error", message, *a)
        async def warning(self, message, *a, **k): await self._rec("warning", message, *a)
        async def info(self, message, *a, **k): await self._rec("info", message, *a)
        async def debug(self, message, *a, **k): await self._rec("debug", message, *a)
        async def exception(self, message, *a, **k): await self._rec("exception", message, *a)
        async def log(self, level, message, *a, **k): await self._rec(str(level), message, *a)

    return RecLogger


# --------------------------------------------------------------------------------------------------------------
# clients (blocking sockets, one thread each)
# --------------------------------------------------------------------------------------------------------------
class Client(threading.Thread):
    def __init__(self, rec: Recorder, port: int, spec: dict, stop: threading.Event) -> None:
        super().__init__(daemon=True)
        self.rec, self.port, self.spec, self.stop = rec, port, spec, stop
        self.cid = spec["id"]
        self.sock: Optional[socket.socket] = None
        self.buf = b""
        self.error: Optional[str] = None

    def ev(self, kind: str, **data: Any) -> None:
        self.rec.add("client", cid=self.cid, what=kind, **data)

    gate: Optional[Callable[[], None]] = None

    def run(self) -> None:
        try:
            if self.gate is not None:
                self.gate()
            for step in self.spec["steps"]:
                if self.stop.is_set():
                    break
                getattr(self, "do_" + step[0])(*step[1:])
        except BaseException:
            self.error = traceback.format_exc()
        finally:
            self.close()

    def close(self) -> None:
        if self.sock is not None:
            try:
                self.sock.close()
            except OSError:
                pass

    # -- generic steps
    def do_at(self, t: float) -> None:
        self.rec.sleep_until(t, self.stop)
        self.rec.late("client_step", self.rec.now() - t, cid=self.cid, at=t)

    def do_at_counts(self, t: float, want: Dict[str, int]) -> None:
        """at instant `t`, but not before the application has recorded `want[kind]` events of each kind"""
        self.rec.sleep_until(t, self.stop)
        self.rec.late("client_step", self.rec.now() - t, cid=self.cid, at=t)
        self.rec.late("client_wait_for_application", self.rec.wait_counts(want, 2.0, self.stop), cid=self.cid, want=want)

    def _wait_trigger(self, dt: float, timeout: float = 4.0) -> Optional[float]:
        end = time.monotonic() + timeout
        while self.rec.trigger_t is None and time.monotonic() < end and not self.stop.is_set():
            time.sleep(0.002)
        return None if self.rec.trigger_t is None else self.rec.trigger_t + dt

    def do_after_trigger(self, dt: float) -> None:
        """`dt` seconds after shutdown was actually triggered (not after the instant it was due)"""
        t = self._wait_trigger(dt)
        if t is not None:
            self.rec.sleep_until(t, self.stop)
            self.rec.late("client_step", self.rec.now() - t, cid=self.cid, after_trigger=dt)

    def do_sleep(self, seconds: float) -> None:
        """relative wait (C18: strictly sequential requests whatever the machine load)"""
        end = time.monotonic() + seconds
        while time.monotonic() < end and not self.stop.is_set():
            time.sleep(min(0.005, max(0.0, end - time.monotonic())))

    def do_wait_listening(self, timeout: float) -> None:
        """wait until the worker logged `Running on …` (the listener exists), at most `timeout` seconds"""
        end = time.monotonic() + timeout
        while time.monotonic() < end and not self.stop.is_set():
            with self.rec.lock:
                up = any(e[2] == "log" and str(e[3].get("message", "")).startswith("Running on") for e in self.rec.events)
            if up:
                return
            time.sleep(0.005)

    def do_connect(self) -> None:
        s = socket.socket()
        s.settimeout(2.0)
        try:
            s.connect(("127.0.0.1", self.port))
        except ConnectionRefusedError:
            self.ev("connect", result="refused")
            s.close()
            return
        except OSError as e:
            self.ev("connect", result="error", cls=type(e).__name__)
            s.close()
            return
        s.setsockopt(socket.IPPROTO_TCP, socket.TCP_NODELAY, 1)
        self.sock = s
        self.ev("connect", result="ok")
        self.after_connect()

    def after_connect(self) -> None:
        pass

    def do_connect_small(self) -> None:
        """connect with a small receive buffer: a client that then does not read fills the path after a few hundred KiB"""
        s = socket.socket()
        s.settimeout(2.0)
        s.setsockopt(socket.SOL_SOCKET, socket.SO_RCVBUF, 4096)
        try:
            s.connect(("127.0.0.1", self.port))
        except OSError as e:
            self.ev("connect", result="refused" if isinstance(e, ConnectionRefusedError) else "error", cls=type(e).__name__)
            s.close()
            return
        self.sock = s
        self.ev("connect", result="ok")
        self.after_connect()

    def do_hold(self, seconds: float) -> None:
        """keep the connection open without reading"""
        self.do_sleep(seconds)

    def _recv(self, timeout: float) -> Optional[bytes]:
        """bytes, b"" on EOF/reset, None on timeout"""
        assert self.sock is not None
        self.sock.settimeout(max(timeout, 0.001))
        try:
            return self.sock.recv(65536)
        except socket.timeout:
            return None
        except (ConnectionResetError, BrokenPipeError, ConnectionAbortedError):
            return b""
        except OSError:
            return b""

    def _send(self, data: bytes) -> bool:
        assert self.sock is not None
        try:
            self.sock.sendall(data)
            return True
        except OSError as e:
            self.ev("send_failed", cls=type(e).__name__)
            return False

    def do_close(self) -> None:
        self.close()
        self.sock = None            # a later `connect` step may open a new connection; until then every step is a no-op
        self.buf = b""
        self.ev("client_closed")


class H1Client(Client):
    def do_partial(self) -> None:
        if self.sock is not None:
            self._send(b"GET /d/0 HTTP/1.1\r\nhost: harness\r\n")
            self.ev("sent_partial_head")

    def do_get(self, path: str) -> None:
        if self.sock is not None:
            ok = self._send(f"GET {path} HTTP/1.1\r\nhost: harness\r\n\r\n".encode())
            self.ev("sent_request", path=path, ok=ok)

    def do_pipeline(self, paths: List[str]) -> None:
        """several requests in ONE write (HTTP/1.1 pipelining): all but the first wait in the connection's buffer"""
        if self.sock is not None:
            ok = self._send(b"".join(f"GET {p} HTTP/1.1\r\nhost: harness\r\n\r\n".encode() for p in paths))
            for n, p in enumerate(paths):
                self.ev("sent_request", path=p, ok=ok, pipelined=n)

    def do_read(self, timeout: float) -> None:
        """read one response (content-length framing); records status / completeness / how it ended"""
        if self.sock is None:
            return
        end = time.monotonic() + timeout
        status, need, hdr_conn_close = None, None, False
        ended = "timeout"
        while True:
            if status is None and b"\r\n\r\n" in self.buf:
                head, rest = self.buf.split(b"\r\n\r\n", 1)
                lines = head.split(b"\r\n")
                status = int(lines[0].split()[1])
                need = 0
                for ln in lines[1:]:
                    n, _, v = ln.partition(b":")
                    if n.strip().lower() == b"content-length":
                        need = int(v.strip())
                    if n.strip().lower() == b"connection" and v.strip().lower() == b"close":
                        hdr_conn_close = True
                self.buf = rest
            if status is not None and len(self.buf) >= need:
                body, self.buf = self.buf[:need], self.buf[need:]
                self.ev("response", status=status, body_len=len(body), complete=True, connection_close=hdr_conn_close,
                        body_head=body[:400].decode("latin1") if body[:1] == b"{" else None)
                return
            left = end - time.monotonic()
            if left <= 0:
                break
            data = self._recv(left)
            if data is None:
                break
            if data == b"":
                ended = "eof"
                break
            self.buf += data
        self.ev("response", status=status, body_len=len(self.buf) if status is not None else 0, complete=False, ended=ended)

    def do_wait_close(self, timeout: float) -> None:
        if self.sock is None:
            return
        end = time.monotonic() + timeout
        while True:
            left = end - time.monotonic()
            if left <= 0:
                self.ev("close_wait", closed=False)
                return
            data = self._recv(left)
            if data is None:
                continue
            if data == b"":
                self.ev("close_wait", closed=True)
                return
            self.buf += data


class H2Client(Client):
    def after_connect(self) -> None:
        import h2.config
        import h2.connection
        self.h2 = h2.connection.H2Connection(config=h2.config.H2Configuration(client_side=True, header_encoding="utf-8"))
        self.h2.initiate_connection()
        self._send(self.h2.data_to_send())
        self.eof = False
        self._pump(0.15)

    def do_stream(self, path: str) -> None:
        if self.sock is None:
            return
        import h2.exceptions
        try:
            sid = self.h2.get_next_available_stream_id()
            self.h2.send_headers(sid, [(":method", "GET"), (":path", path), (":scheme", "http"), (":authority", "harness")], end_stream=True)
        except h2.exceptions.H2Error as e:      # TooManyStreamsError once MAX_CONCURRENT_STREAMS = 0 was received, or after GOAWAY
            self.ev("stream_refused_locally", path=path, cls=type(e).__name__)
            return
        ok = self._send(self.h2.data_to_send())
        self.ev("sent_stream", sid=sid, path=path, ok=ok)

    def do_pump(self, until: float) -> None:
        if self.sock is None:
            return
        self._pump(max(0.0, until - self.rec.now()))

    def do_pump_for(self, seconds: float) -> None:
        if self.sock is not None:
            self._pump(seconds)

    def do_pump_after_trigger(self, dt: float) -> None:
        """keep reading until `dt` seconds after shutdown was actually triggered"""
        if self.sock is None:
            return
        end = time.monotonic() + 4.0
        while self.rec.trigger_t is None and time.monotonic() < end and not self.stop.is_set() and not self.eof:
            self._pump(0.01)
        if self.rec.trigger_t is not None:
            self._pump(max(0.0, self.rec.trigger_t + dt - self.rec.now()))

    def do_wait_close(self, timeout: float) -> None:
        if self.sock is None:
            return
        self._pump(timeout, until_eof=True)
        self.ev("close_wait", closed=self.eof)

    def _pump(self, duration: float, until_eof: bool = False) -> None:
        import h2.events
        import h2.exceptions
        import h2.settings
        end = time.monotonic() + duration
        while not self.eof:
            left = end - time.monotonic()
            if left <= 0:
                return
            data = self._recv(left)
            if data is None:
                continue
            if data == b"":
                self.eof = True
                self.ev("eof")
                return
            try:
                events = self.h2.receive_data(data)
            except h2.exceptions.ProtocolError as e:
                self.ev("h2_protocol_error", detail=repr(e)[:100])
                return
            for e in events:
                if isinstance(e, h2.events.ResponseReceived):
                    self.ev("h2_response", sid=e.stream_id, status=int(dict(e.headers).get(":status", "0")))
                elif isinstance(e, h2.events.DataReceived):
                    self.h2.acknowledge_received_data(e.flow_controlled_length, e.stream_id)
                    self.ev("h2_data", sid=e.stream_id, n=len(e.data))
                elif isinstance(e, h2.events.StreamEnded):
                    self.ev("h2_end", sid=e.stream_id)
                elif isinstance(e, h2.events.StreamReset):
                    self.ev("h2_reset", sid=e.stream_id, code=int(e.error_code))
                elif isinstance(e, h2.events.ConnectionTerminated):
                    self.ev("h2_goaway", last=e.last_stream_id, code=int(e.error_code))
                elif isinstance(e, h2.events.RemoteSettingsChanged):
                    ch = e.changed_settings.get(h2.settings.SettingCodes.MAX_CONCURRENT_STREAMS)
                    if ch is not None:
                        self.ev("h2_max_streams", value=int(ch.new_value))
            out = self.h2.data_to_send()
            if out:
                self._send(out)


class WsClient(Client):
    def after_connect(self) -> None:
        import wsproto
        import wsproto.events
        self.ws = wsproto.WSConnection(wsproto.ConnectionType.CLIENT)
        self._send(self.ws.send(wsproto.events.Request(host="harness", target="/ws")))
        self.eof = False
        self._pump(1.0, until_accept=True)

    def do_pump(self, until: float) -> None:
        if self.sock is not None:
            self._pump(max(0.0, until - self.rec.now()))

    def do_wait_close(self, timeout: float) -> None:
        if self.sock is None:
            return
        self._pump(timeout)
        self.ev("close_wait", closed=self.eof)

    def _pump(self, duration: float, until_accept: bool = False) -> None:
        import wsproto.events
        end = time.monotonic() + duration
        while not self.eof:
            left = end - time.monotonic()
            if left <= 0:
                return
            data = self._recv(left)
            if data is None:
                continue
            if data == b"":
                self.eof = True
                self.ev("eof")
                return
            self.ws.receive_data(data)
            try:
                for e in self.ws.events():
                    if isinstance(e, wsproto.events.AcceptConnection):
                        self.ev("ws_accepted")
                        if until_accept:
                            return
                    elif isinstance(e, wsproto.events.RejectConnection):
                        self.ev("ws_rejected", status=e.status_code)
                    elif isinstance(e, wsproto.events.CloseConnection):
                        self.ev("ws_close", code=e.code)
                        try:
                            self._send(self.ws.send(e.response()))
                        except Exception:
                            pass
            except Exception as e:  # wsproto protocol errors
                self.ev("ws_error", detail=repr(e)[:100])
                return


class H2cClient(H2Client):
    """HTTP/1.1 request with `Upgrade: h2c` (RFC 7540 3.2): the request is answered on stream 1 of the upgraded connection;
    further requests are ordinary streams (`stream` step)"""

    def after_connect(self) -> None:
        self.eof = False
        self.ended: set = set()

    def ev(self, kind: str, **data: Any) -> None:
        if kind in ("h2_end", "h2_reset"):
            self.ended.add(data.get("sid"))
        super().ev(kind, **data)

    def do_upgrade(self, path: str) -> None:
        if self.sock is None:
            return
        import h2.config
        import h2.connection
        self.h2 = h2.connection.H2Connection(config=h2.config.H2Configuration(client_side=True, header_encoding="utf-8"))
        settings = self.h2.initiate_upgrade_connection()
        ok = self._send(f"GET {path} HTTP/1.1\r\nhost: harness\r\nconnection: Upgrade, HTTP2-Settings\r\nupgrade: h2c\r\n".encode()
                        + b"http2-settings: " + settings + b"\r\n\r\n")
        self.ev("sent_request", path=path, ok=ok, upgrade="h2c")
        end = time.monotonic() + 2.0
        while b"\r\n\r\n" not in self.buf:
            left = end - time.monotonic()
            data = self._recv(left) if left > 0 else None
            if not data:
                self.eof = data == b""
                self.ev("upgrade_answer", status=None, ended="eof" if self.eof else "timeout")
                return
            self.buf += data
        head, rest = self.buf.split(b"\r\n\r\n", 1)
        self.buf = b""
        status = int(head.split(b"\r\n")[0].split()[1])
        self.ev("upgrade_answer", status=status)
        if status != 101:
            return
        self._send(self.h2.data_to_send())          # client preface + SETTINGS
        if rest:
            self._feed(rest)

    def _feed(self, data: bytes) -> None:
        """bytes that arrived behind the 101 in the same segment"""
        import h2.events
        for e in self.h2.receive_data(data):
            if isinstance(e, h2.events.ResponseReceived):
                self.ev("h2_response", sid=e.stream_id, status=int(dict(e.headers).get(":status", "0")))
            elif isinstance(e, h2.events.DataReceived):
                self.h2.acknowledge_received_data(e.flow_controlled_length, e.stream_id)
                self.ev("h2_data", sid=e.stream_id, n=len(e.data))
            elif isinstance(e, h2.events.StreamEnded):
                self.ev("h2_end", sid=e.stream_id)
        out = self.h2.data_to_send()
        if out:
            self._send(out)

    def do_await_stream(self, sid: int, timeout: float) -> None:
        if self.sock is None or not hasattr(self, "h2"):
            return
        end = time.monotonic() + timeout
        while sid not in self.ended and not self.eof and time.monotonic() < end and self.sock is not None:
            self._pump(0.02)


class _TrackingH2Client(H2Client):
    def after_connect(self) -> None:
        self.ended: set = set()
        super().after_connect()

    def ev(self, kind: str, **data: Any) -> None:
        if kind in ("h2_end", "h2_reset"):
            self.ended.add(data.get("sid"))
        super().ev(kind, **data)

    do_await_stream = H2cClient.do_await_stream


class SeqClient(Client):
    """one thread that makes complete short connections of different kinds one after the other (requests spread over
    HTTP/1.1, prior-knowledge HTTP/2, `Upgrade: h2c` and WebSocket connections that share one worker):
    ["conn", kind, path]  with kind in h1 | h1x2 (two keep-alive requests) | h2 | h2x2 | h2c | h2c+1 (upgrade, then one more
    stream) | ws.  Every connection is finished (answer read, connection closed) before the step returns."""

    def _sub(self, cls):
        c = cls(self.rec, self.port, {"id": self.cid, "steps": []}, self.stop)
        c.do_connect()
        return c

    def do_conn(self, kind: str, path: str, pause: float = 0.06) -> None:
        if kind in ("h1", "h1x2"):
            c = self._sub(H1Client)
            for i in range(2 if kind == "h1x2" else 1):
                if i:
                    self.do_sleep(pause)
                c.do_get(path + ("" if i == 0 else "b"))
                c.do_read(2.0)
        elif kind in ("h2", "h2x2"):
            c = self._sub(_TrackingH2Client)
            for i in range(2 if kind == "h2x2" else 1):
                if i:
                    self.do_sleep(pause)
                c.do_stream(path + ("" if i == 0 else "b"))
                c.do_await_stream(1 + 2 * i, 2.0)
        elif kind in ("h2c", "h2c+1"):
            c = self._sub(H2cClient)
            c.do_upgrade(path)
            c.do_await_stream(1, 2.0)
            if kind == "h2c+1":
                self.do_sleep(pause)
                c.do_stream(path + "b")
                c.do_await_stream(3, 2.0)
        elif kind == "ws":
            c = self._sub(WsClient)
        else:
            raise HarnessFailure(f"unknown connection kind {kind}")
        c.do_close()


CLIENTS = {"h1": H1Client, "h2": H2Client, "ws": WsClient, "h2c": H2cClient, "seq": SeqClient}


# --------------------------------------------------------------------------------------------------------------
# the run
# --------------------------------------------------------------------------------------------------------------
def _leaf_classes(e: BaseException) -> List[str]:
    if isinstance(e, BaseExceptionGroup):
        out: List[str] = []
        for x in e.exceptions:
            out += _leaf_classes(x)
        return out
    return [type(e).__name__]


def run_scenario(sc: dict, shared: Optional[dict] = None) -> dict:
    """Run one scenario in this process and return the observation.  `shared` (optional) receives the recorder, the
    outcome dict and the port as soon as they exist, so that a watchdog can report what was seen if this call never
    comes back (`_child`)."""
    from hypercorn.app_wrappers import ASGIWrapper
    from hypercorn.config import Config, Sockets

    rec = Recorder()
    anchor = sc.get("clock_anchor") or ("listening" if sc.get("start_when_listening") else None)
    if anchor not in (None, "listening", "ls_start"):
        raise HarnessFailure(f"unknown clock_anchor {anchor}")
    gate = anchor is not None
    rec.anchored = not gate
    listening = threading.Event()        # "the anchor event has happened" (the listener exists / the lifespan application is entered)

    def on_listening() -> None:
        if not listening.is_set():
            rec.rebase()
            listening.set()

    config = Config()
    config.accesslog = None
    config.errorlog = None
    config.logger_class = make_logger_class(rec, on_listening if anchor == "listening" else None)
    config.keep_alive_timeout = 30
    for k, v in sc.get("config", {}).items():
        setattr(config, k, v)
    if "max_requests_jitter" not in sc.get("config", {}):
        config.max_requests_jitter = 0
    if sc.get("rand_seed") is not None:
        # C18: the jitter drawn by `worker_serve` (`randint(0, max_requests_jitter)`): seeded, and recorded when the
        # worker module binds `randint` by that name (otherwise only the request index of the exit is observed)
        import importlib
        import random as _random
        _random.seed(sc["rand_seed"])
        _run = importlib.import_module("hypercorn.asyncio.run" if sc["worker"] == "asyncio" else "hypercorn.trio.run")
        _orig = getattr(_run, "randint", None)
        if _orig is not None:
            def _randint(a, b, _orig=_orig):
                v = _orig(a, b)
                rec.add("randint", lo=a, hi=b, value=v)
                return v
            _run.randint = _randint
    sock = socket.socket()
    sock.setsockopt(socket.SOL_SOCKET, socket.SO_REUSEADDR, 1)
    sock.bind(("127.0.0.1", 0))
    sock.setblocking(False)
    if sc["worker"] == "trio":
        sock.listen(100)                      # as `trio_worker` does before calling worker_serve
    port = sock.getsockname()[1]
    sockets = Sockets([], [sock], [])
    app = ASGIWrapper(make_app(rec, sc, on_listening if anchor == "ls_start" else None))
    fire = threading.Event()
    stop = threading.Event()
    observe_until = float(sc["observe_until"])
    outcome: Dict[str, Any] = {}
    if shared is not None:
        shared.update(rec=rec, outcome=outcome, port=port)

    LISTEN_WAIT = 10.0                   # a worker that is not listening by then is observed on the clock as it is

    def wait_listening() -> None:
        end = time.monotonic() + LISTEN_WAIT
        while gate and not listening.is_set() and not stop.is_set() and time.monotonic() < end:
            time.sleep(0.002)

    if sc.get("late_tolerance") is not None:
        rec.late_tol = float(sc["late_tolerance"])

    def trigger_thread() -> None:
        wait_listening()
        if sc.get("trigger_at") is not None:
            rec.sleep_until(float(sc["trigger_at"]), stop)
            rec.late("trigger", rec.now() - float(sc["trigger_at"]))
            if sc.get("trigger_after"):
                rec.late("trigger_wait_for_application", rec.wait_counts(dict(sc["trigger_after"]), 2.0, stop), want=sc["trigger_after"])
            if not stop.is_set():
                fired["t"] = rec.now()
                rec.add("trigger_fired")
                fire.set()

    fired: Dict[str, float] = {}

    def trigger_returns() -> None:
        """`shutdown_trigger()` returns: THE instant shutdown is triggered (event `trigger`).  The harness thread only lets it;
        on a busy machine the worker's loop may get to run noticeably later (recorded as harness lateness)."""
        rec.late("trigger_noticed", rec.now() - fired.get("t", rec.now()))
        rec.mark_trigger()
        rec.add("trigger")

    clients = [CLIENTS[c["kind"]](rec, port, c, stop) for c in sc.get("clients", [])]
    for c in clients:
        if not c.spec.get("ungated"):
            c.gate = wait_listening
    tt = threading.Thread(target=trigger_thread, daemon=True)

    if sc["worker"] == "asyncio":
        import asyncio
        from hypercorn.asyncio.run import worker_serve

        async def trigger() -> None:
            while not fire.is_set():
                await asyncio.sleep(0.005)
            trigger_returns()

        async def main() -> None:
            rec.t0 = time.monotonic()
            tt.start()
            for c in clients:
                c.start()
            task = asyncio.ensure_future(worker_serve(app, config, sockets=sockets, shutdown_trigger=trigger))
            end = time.monotonic() + LISTEN_WAIT
            while gate and not listening.is_set() and not task.done() and time.monotonic() < end:
                await asyncio.sleep(0.002)
            done, pending = await asyncio.wait([task], timeout=observe_until)
            if pending:
                outcome.update(outcome="stuck", classes=[], t=None)
                rec.add("serve_end", outcome="stuck")
                task.cancel()
                await asyncio.wait([task], timeout=3.0)
            else:
                try:
                    task.result()
                    outcome.update(outcome="return", classes=[], t=round(rec.now(), 4))
                except BaseException as e:  # noqa
                    outcome.update(outcome="raise", classes=_leaf_classes(e), t=round(rec.now(), 4), message=str(e)[:200])
                rec.add("serve_end", **outcome)

        loop_errors: List[str] = []

        def run() -> None:
            loop = asyncio.new_event_loop()
            loop.set_exception_handler(lambda l, ctx: loop_errors.append(str(ctx.get("message"))[:200] + " " + repr(ctx.get("exception"))[:200]))
            try:
                loop.run_until_complete(main())
                # leftover tasks (a lifespan task the worker never cancelled, stuck handlers)
                left = [t for t in asyncio.all_tasks(loop) if not t.done()]
                outcome["leftover_tasks"] = len(left)
                for t in left:
                    t.cancel()
                if left:
                    loop.run_until_complete(asyncio.wait(left, timeout=2.0))
            finally:
                loop.close()

        run()
        outcome["loop_errors"] = loop_errors[:5]
    else:
        import trio
        from hypercorn.trio.run import worker_serve as trio_worker_serve

        async def ttrigger() -> None:
            while not fire.is_set():
                await trio.sleep(0.005)
            trigger_returns()

        async def tmain() -> None:
            rec.t0 = time.monotonic()
            tt.start()
            for c in clients:
                c.start()
            async def observe(cs) -> None:
                # the observation window starts with the listener
                end = time.monotonic() + LISTEN_WAIT
                while not listening.is_set() and time.monotonic() < end:
                    await trio.sleep(0.002)
                cs.deadline = trio.current_time() + observe_until

            async with trio.open_nursery() as helper:
                with trio.move_on_after(observe_until + (LISTEN_WAIT if gate else 0.0)) as cs:
                    if gate:
                        helper.start_soon(observe, cs)
                    try:
                        await trio_worker_serve(app, config, sockets=sockets, shutdown_trigger=ttrigger)
                        outcome.update(outcome="return", classes=[], t=round(rec.now(), 4))
                    except trio.Cancelled:
                        raise
                    except BaseException as e:  # noqa
                        classes = _leaf_classes(e)
                        if cs.cancel_called and set(classes) <= {"Cancelled"}:
                            raise
                        outcome.update(outcome="raise", classes=classes, t=round(rec.now(), 4), message=str(e)[:200])
                helper.cancel_scope.cancel()
            if "outcome" not in outcome:
                outcome.update(outcome="stuck", classes=[], t=None)
            rec.add("serve_end", **outcome)

        trio.run(tmain)
    # let the clients finish their scripts (they only wait for closes / timeouts now), then stop them
    end = time.monotonic() + float(sc.get("client_grace", 1.5))
    for c in clients:
        c.join(max(0.0, end - time.monotonic()))
    stop.set()
    for c in clients:
        c.close()
        c.join(1.0)
    try:
        sock.close()
    except OSError:
        pass
    errs = [c.error for c in clients if c.error]
    if errs:
        raise HarnessFailure("client thread crashed:\n" + errs[0])
    return {"events": rec.events, "serve": outcome, "port": port}


WEDGE_GRACE = 20.0      # seconds after `observe_until` a scenario process may take to wind down before it is declared wedged


def _child(sc: dict, conn, timeout: float = 40.0) -> None:
    """One scenario in its own process.  A worker that neither returns nor lets itself be cancelled (or blocks its event
    loop) must not take the harness down with it: a watchdog thread then answers with everything recorded so far and the
    outcome "stuck" (`wedged: true`) — an observation for the monitors, not a harness fault."""
    shared: Dict[str, Any] = {}
    lock = threading.Lock()

    def answer(r: dict) -> None:
        with lock:               # the first answer wins and ends the process; a second caller waits here for that
            try:
                conn.send(r)
                conn.close()
            finally:
                if os.environ.get("VERIF_COVERAGE"):      # tools/coverage_map.py only: write the line-coverage data out by hand
                    try:
                        import coverage
                        c = coverage.Coverage.current()
                        if c is not None:
                            c.stop()
                            c.save()
                    except Exception:
                        pass
                os._exit(0)      # no interpreter teardown: daemon client threads and a forked loop need none

    def watchdog() -> None:
        try:
            until = float(sc.get("observe_until", 0.0))
        except (TypeError, ValueError):
            until = 0.0
        time.sleep(min(until + WEDGE_GRACE, max(until + 6.0, timeout - 5.0)))
        rec = shared.get("rec")
        if rec is None:
            answer({"crash": "scenario process wedged before the worker was started"})
        with rec.lock:
            events = [list(e) for e in rec.events]
        serve = dict(shared.get("outcome") or {})
        if "outcome" not in serve:
            serve.update(outcome="stuck", classes=[], t=None)
        serve["wedged"] = True
        events.append([len(events), round(rec.now(), 4), "serve_wedged", {"outcome": serve["outcome"]}])
        answer({"ok": {"events": events, "serve": serve, "port": shared.get("port")}})

    threading.Thread(target=watchdog, daemon=True).start()
    try:
        r = {"ok": run_scenario(sc, shared)}
    except BaseException:
        r = {"crash": traceback.format_exc()}
    answer(r)


def run_many(scenarios: List[dict], procs: int = 12, timeout: float = 40.0) -> List[dict]:
    """Observations in scenario order, one forked process per scenario, at most `procs` at a time.
    A crash or a wall-clock timeout of a scenario process raises HarnessFailure (exit 2 of ./check)."""
    ctx = multiprocessing.get_context("fork")
    out: List[Optional[dict]] = [None] * len(scenarios)
    todo = list(range(len(scenarios)))[::-1]
    running: Dict[int, Any] = {}
    try:
        while todo or running:
            while todo and len(running) < procs:
                i = todo.pop()
                parent, child = ctx.Pipe(duplex=False)
                p = ctx.Process(target=_child, args=(scenarios[i], child, timeout), daemon=True)
                p.start()
                child.close()
                running[i] = (p, parent, time.monotonic())
            progressed = False
            for i, (p, parent, t0) in list(running.items()):
                if parent.poll(0):
                    try:
                        r = parent.recv()
                    except EOFError:
                        raise HarnessFailure(f"scenario {i}: harness process died without an answer")
                    p.join(5.0)
                    del running[i]
                    progressed = True
                    if "crash" in r:
                        raise HarnessFailure(f"scenario {i} crashed in the harness:\n{r['crash']}")
                    out[i] = r["ok"]
                elif not p.is_alive() and not parent.poll(0.05):
                    raise HarnessFailure(f"scenario {i}: harness process exited with {p.exitcode} without an answer")
                elif time.monotonic() - t0 > timeout:
                    raise HarnessFailure(f"scenario {i}: harness timeout after {timeout}s: {json.dumps(scenarios[i])[:300]}")
            if not progressed:
                time.sleep(0.01)
    finally:
        for p, parent, _ in running.values():
            p.kill()
    return out  # type: ignore


# --------------------------------------------------------------------------------------------------------------
# helpers shared by the C14 / C15 generators
# --------------------------------------------------------------------------------------------------------------
def parallelism(most: int) -> int:
    """scenario processes side by side: what the machine has to spare right now (the verdict does not depend on it)"""
    try:
        spare = (os.cpu_count() or 4) - os.getloadavg()[0]
    except OSError:
        spare = most
    return max(1, min(most, max(4, int(spare))))


def run_disciplined(ctx: Any, scs: List[dict], procs: int, timeout: float = 40.0) -> List[dict]:
    """`run_many` with the timing discipline of the real-clock scenarios: a run in which the harness itself was late (a client
    step, the trigger, or the application had not reached the phase the scenario names when a step that needs it was due: a busy
    machine) is not the scenario as written.  Such runs (scenarios with `late_tolerance`, events `harness_late`) are repeated with
    less running beside them, at most twice - a decision taken on the harness's own lateness records only, before and independent
    of any monitor; the last observation is judged whatever its timing."""
    obs = run_many(scs, procs=parallelism(procs), timeout=timeout)
    for attempt, width in ((1, 4), (2, 1)):
        again = [i for i, o in enumerate(obs) if events_of(o, "harness_late")]
        if not again:
            break
        ctx.count("repeated_for_harness_lateness", f"attempt {attempt}", len(again))
        for i, o in zip(again, run_many([scs[i] for i in again], procs=min(width, max(1, procs)), timeout=timeout)):
            obs[i] = o
    left = sum(1 for o in obs if events_of(o, "harness_late"))
    if left:
        ctx.count("judged_despite_harness_lateness", "scenarios", left)
    return obs


class Findings:
    """What the monitors and the model comparison say about ONE run of ONE real-clock scenario.  It has the reporting half of
    the Ctx interface (`violation`, `disagree`, `count`, `disagreements_checked`), so `monitors(f, …)` / `compare(f, …)` are
    written once; nothing reaches the verdict before `judge_with_reruns` has decided."""

    def __init__(self) -> None:
        self.items: List[dict] = []
        self.counts: List[tuple] = []
        self.disagreements_checked = 0

    def violation(self, clause: str, case: Any, detail: Any, signature: Optional[dict] = None) -> None:
        self.items.append({"kind": "violation", "clause": clause, "case": case, "detail": detail, "signature": signature})

    def disagree(self, what: str, case: Any, model: Any, impl: Any) -> None:
        self.items.append({"kind": "disagree", "what": what, "case": case, "model": model, "impl": impl})

    def count(self, family: str, key: Any, n: int = 1) -> None:
        self.counts.append((family, key, n))

    @staticmethod
    def item_keys(it: dict) -> set:
        """what makes a finding 'the same finding' on another run of the scenario: clause + signature of a violation; the
        command and each labelled difference of a disagreement (the values may differ from run to run)"""
        if it["kind"] == "violation":
            return {("violation", it["clause"], json.dumps(it["signature"], sort_keys=True, default=str))}
        diffs = it["model"] if isinstance(it["model"], (list, tuple)) else []
        labels = [d[0] for d in diffs if isinstance(d, (list, tuple)) and d and isinstance(d[0], str)]
        return {("disagree", it["what"], l) for l in labels} or {("disagree", it["what"])}

    @staticmethod
    def item_label(it: dict) -> str:
        return it["clause"] if it["kind"] == "violation" else it["what"] + ": " + ", ".join(sorted(k[-1] for k in Findings.item_keys(it) if len(k) > 2))

    def keys(self) -> set:
        out: set = set()
        for it in self.items:
            out |= Findings.item_keys(it)
        return out

    def flush(self, ctx: Any, items: Optional[List[dict]] = None) -> None:
        for fam, key, n in self.counts:
            ctx.count(fam, key, n)
        ctx.disagreements_checked += self.disagreements_checked
        for it in (self.items if items is None else items):
            if it["kind"] == "violation":
                ctx.violation(it["clause"], it["case"], it["detail"], it["signature"])
            else:
                ctx.disagree(it["what"], it["case"], it["model"], it["impl"])


RERUNS = 2      # a scenario about which something is to be reported is first run again, alone, at most this many times


def judge_with_reruns(ctx: Any, scs: List[dict], obs: List[dict], judge: Callable[[Any, int, dict, dict], None],
                      timeout: float = 40.0) -> List[dict]:
    """The report rule of the real-clock scenarios.  `judge(f, i, scenario, observation)` evaluates ONE run (monitors and model
    comparison) into the `Findings` `f`.  A run about which nothing is said is reported as it is.  A scenario about which
    something is said (a violation, a model / implementation difference) is run again ALONE (one scenario process at a time; the
    lateness discipline of `run_disciplined` still applies) before anything is reported: what the first run said and the re-run says
    again is reported, with the re-run's observation; a re-run that says nothing ends it; a re-run that says something else is
    followed by one more.  What does not come back is real-clock noise of a loaded machine (a wall-clock scenario among many on
    a busy box), counted under `not_reproduced_on_rerun` with a sample in the evidence - never silently.  A deterministic defect
    says the same thing on every run.  Returns the observations that were judged last."""
    final = list(obs)
    firsts: List[Findings] = []
    for i, (sc, o) in enumerate(zip(scs, obs)):
        f = Findings()
        judge(f, i, sc, o)
        firsts.append(f)
    for i, first in enumerate(firsts):
        if not first.items:
            first.flush(ctx)
            continue
        ctx.count("rerun_for_findings", "scenarios")
        seen = first.keys()
        said = list(first.items)
        last = first
        reported: List[dict] = []
        for attempt in range(1, RERUNS + 1):
            (o2,) = run_disciplined(ctx, [scs[i]], 1, timeout)
            f2 = Findings()
            judge(f2, i, scs[i], o2)
            final[i], last = o2, f2
            reported = [it for it in f2.items if Findings.item_keys(it) & seen]
            if reported or not f2.items:
                break
            seen |= f2.keys()
            said += f2.items
        last.flush(ctx, reported)
        back = set()
        for it in reported:
            back |= Findings.item_keys(it)
            ctx.count("reproduced_on_rerun", Findings.item_label(it))
        pool = said + [x for x in last.items if all(x is not y for y in said)]
        gone = [it for it in pool if all(it is not y for y in reported) and not (Findings.item_keys(it) & back)]
        for it in gone:
            ctx.count("not_reproduced_on_rerun", Findings.item_label(it))
        if gone and len(ctx.extra.setdefault("not_reproduced_on_rerun_samples", [])) < 5:
            ctx.extra["not_reproduced_on_rerun_samples"].append(
                {"scenario": {k: scs[i].get(k) for k in ("name", "worker", "kinds", "source", "phases") if k in scs[i]},
                 "said_once": [{"finding": Findings.item_label(it), "what": json.loads(json.dumps(it.get("detail", it.get("model")), default=str))}
                               for it in gone[:4]]})
    return final


def events_of(obs: dict, kind: str, **match: Any) -> List[list]:
    return [e for e in obs["events"] if e[2] == kind and all(e[3].get(k) == v for k, v in match.items())]


def first_t(obs: dict, kind: str, **match: Any) -> Optional[float]:
    ev = events_of(obs, kind, **match)
    return ev[0][1] if ev else None


if __name__ == "__main__":
    sys.path.insert(0, str(os.environ.get("VERIF_REPO", "/repo")) + "/src")
    print(json.dumps(run_scenario(json.loads(sys.stdin.read())), indent=1))


# --------------------------------------------------------------------------------------------------------------
# scenario -> model request (hcdriver `c14.run` / `c15.run`)
# --------------------------------------------------------------------------------------------------------------
TICK = 0.01                      # one model tick in seconds
KEYS = {"boot": 1, "late": 2, "who": 3}
VAL_L = 100                      # the lifespan application's own marker "L"


def ticks(seconds: float) -> int:
    return int(round(seconds / TICK))


def probe_wait_closed_blocks() -> bool:
    """Runtime parameter `waitClosedBlocksOnConnections`, measured on this interpreter: does
    `asyncio.Server.wait_closed()` wait for a connection that is still open?"""
    import asyncio

    async def main() -> bool:
        async def cb(r, w):
            try:
                await r.read()
            finally:
                w.close()
        srv = await asyncio.start_server(cb, "127.0.0.1", 0)
        port = srv.sockets[0].getsockname()[1]
        r, w = await asyncio.open_connection("127.0.0.1", port)
        await asyncio.sleep(0.05)
        srv.close()
        try:
            await asyncio.wait_for(srv.wait_closed(), 0.3)
            blocked = False
        except asyncio.TimeoutError:
            blocked = True
        w.close()
        await asyncio.sleep(0.05)
        return blocked

    return asyncio.run(main())


def probe_flags() -> Dict[str, dict]:
    """The `Runtime` fields of the model, measured on the code and interpreter under test (DESIGN.md 3.2: runtime
    parameters are explicit and measured, not baked in).  Unit-level probes where the fact is local to one class,
    one tiny whole-worker run where it is a fact about `worker_serve`."""
    import asyncio

    from hypercorn.config import Config

    # asyncio: does `lifespan.startup.failed` set the startup event before raising into the application?
    async def a_failed_sets() -> bool:
        from hypercorn.asyncio.lifespan import Lifespan
        lf = Lifespan(None, Config(), asyncio.get_event_loop(), {})   # type: ignore[arg-type]
        try:
            await lf.asgi_send({"type": "lifespan.startup.failed", "message": "probe"})
        except Exception:
            pass
        return lf.startup.is_set()

    def t_probe() -> Dict[str, bool]:
        import trio

        async def main() -> Dict[str, bool]:
            from hypercorn.app_wrappers import ASGIWrapper
            from hypercorn.trio.lifespan import Lifespan

            async def leaves(scope, receive, send):
                return
            lf = Lifespan(ASGIWrapper(leaves), Config(), {})
            try:
                await lf.asgi_send({"type": "lifespan.startup.failed", "message": "probe"})
            except Exception:
                pass
            failed_sets = lf.startup.is_set()
            lf = Lifespan(ASGIWrapper(leaves), Config(), {})
            async with trio.open_nursery() as n:
                await n.start(lf.handle_lifespan)
                await trio.sleep(0.01)
                try:
                    with trio.move_on_after(0.2):
                        await lf.wait_for_shutdown()
                    closed = False
                except (trio.ClosedResourceError, trio.BrokenResourceError):
                    closed = True
                n.cancel_scope.cancel()
            return {"failedSetsEvent": failed_sets, "channelsClosedOnExit": closed}
        return trio.run(main)

    flags = {"asyncio": {"base": "asyncio",
                         "failedSetsEvent": asyncio.run(a_failed_sets())},
             "trio": {"base": "trio", **t_probe()}}
    # facts about worker_serve itself: two tiny whole-worker runs
    cfg = {"startup_timeout": 0.4, "shutdown_timeout": 0.4, "graceful_timeout": 0.4}
    probes = [
        {"worker": "asyncio", "lifespan": ["recv", "startup_complete", "recv", "shutdown_complete", "hang"], "config": cfg,
         "clients": [], "trigger_at": 0.05, "observe_until": 1.5, "client_grace": 0.0},
        {"worker": "trio", "lifespan": ["recv", "startup_complete", "recv", "shutdown_complete", "return"], "config": cfg,
         "clients": [{"id": 0, "kind": "h2", "steps": [["at", 0.05], ["connect"], ["wait_close", 1.2]]}],
         "trigger_at": 0.3, "observe_until": 1.5, "client_grace": 0.2},
    ]
    # does a connection that outlives the grace period keep asyncio's worker_serve inside `server.wait_closed()`?
    # (CPython >= 3.12.1 *and* the code awaiting it before the bounded wait for the handlers)
    probes.append({"worker": "asyncio", "lifespan": ["recv", "startup_complete", "recv", "shutdown_complete", "return"],
                   "config": {"startup_timeout": 0.4, "shutdown_timeout": 0.3, "graceful_timeout": 0.2},
                   "clients": [{"id": 0, "kind": "h1", "steps": [["at", 0.08], ["connect"], ["get", "/hang/0"], ["wait_close", 1.4]]}],
                   "trigger_at": 0.2, "observe_until": 1.3, "client_grace": 0.1})
    for pr in probes:
        pr["start_when_listening"] = True      # the instants below are measured from the moment the listener exists
    o1, o2, o3 = run_many(probes, procs=3)
    flags["asyncio"]["waitClosedBlocksOnConnections"] = o3["serve"]["outcome"] == "stuck"
    flags["asyncio"]["cpython_wait_closed_waits_for_connections"] = probe_wait_closed_blocks()
    # does a cancelled handler with an HTTP/2 stream in progress ever finish on asyncio?  Only observable when the
    # previous flag is false (otherwise worker_serve never gets as far as cancelling anything): then measured, else
    # the value read off the code (`finally: await send(None)` -> 500 response -> `drain()` on a cancelled send task)
    # ... and what does the peer of such a handler see when it is cancelled: GOAWAY (the cancelled handler still closes its
    # stream, and the connection, idle after termination, says so) or nothing?  Both workers.
    def cancel_probe(worker: str) -> dict:
        return {"worker": worker, "lifespan": ["recv", "startup_complete", "recv", "shutdown_complete", "return"],
                "config": {"startup_timeout": 0.4, "shutdown_timeout": 0.3, "graceful_timeout": 0.2},
                "clients": [{"id": 0, "kind": "h2", "steps": [["at", 0.05], ["connect"], ["stream", "/hang/0"], ["wait_close", 1.6]]}],
                "trigger_at": 0.35, "trigger_after": {"scope": 1}, "observe_until": 1.5, "client_grace": 0.1,
                "start_when_listening": True}

    def said_goaway(o: dict) -> bool:
        return any(e[2] == "client" and e[3]["what"] == "h2_goaway" for e in o["events"])

    if flags["asyncio"]["waitClosedBlocksOnConnections"]:
        (o5,) = run_many([cancel_probe("trio")], procs=1)
        flags["asyncio"]["h2CancelDeadlocks"] = True
        flags["asyncio"]["h2CancelDeadlocks_measured"] = False
        flags["asyncio"]["h2CancelSaysGoaway"] = False
    else:
        o4, o5 = run_many([cancel_probe("asyncio"), cancel_probe("trio")], procs=2)
        flags["asyncio"]["h2CancelDeadlocks"] = o4["serve"]["outcome"] == "stuck"
        flags["asyncio"]["h2CancelDeadlocks_measured"] = True
        flags["asyncio"]["h2CancelSaysGoaway"] = said_goaway(o4)
    flags["trio"]["h2CancelDeadlocks"] = o5["serve"]["outcome"] == "stuck"
    flags["trio"]["h2CancelSaysGoaway"] = said_goaway(o5)
    flags["asyncio"]["endCancelRaises"] = o1["serve"]["outcome"] == "raise" and "CancelledError" in o1["serve"].get("classes", [])
    closed = [e[1] for e in o2["events"] if e[2] == "client" and e[3]["what"] in ("eof", "close_wait") and e[3].get("closed", True)]
    fresh = bool(closed) and min(closed) <= 0.3 + 0.25
    flags["asyncio"]["h2PriorFreshIdleTimer"] = fresh       # the protocol layer is shared by both workers
    flags["trio"]["h2PriorFreshIdleTimer"] = fresh
    return flags


def check_runtime_constants(ctx: Any, flags: Dict[str, dict]) -> None:
    """The Lean constants `Runtime.asyncio` / `Runtime.trio` (which the named witnesses are about) must be what was
    measured: otherwise the witnesses no longer describe this code and the model has to follow it."""
    r = ctx.model([{"cmd": "c14.runtimes"}])
    if r is None:
        return
    consts = r[0]["ok"]

    def diffs(fls: Dict[str, dict]) -> Dict[str, dict]:
        return {w: {k: (consts[fl["base"]][k], v) for k, v in fl.items() if k in consts[fl["base"]] and consts[fl["base"]].get(k) != v}
                for w, fl in fls.items()}
    first = diffs(flags)
    if any(first.values()):
        # the probes are real-clock measurements too: a flag that does not measure as the constant says is measured once more
        # before anything is reported (and before the models are run with it); what does not come back is noise, counted
        again = probe_flags()
        second = diffs(again)
        for worker, d in first.items():
            for k in d:
                if second.get(worker, {}).get(k) != d[k]:
                    ctx.count("not_reproduced_on_rerun", f"runtime flag {worker}.{k}")
                    flags[worker][k] = again[worker][k]
                else:
                    ctx.count("reproduced_on_rerun", f"runtime flag {worker}.{k}")
    for worker, fl in flags.items():
        base = consts[fl["base"]]
        diff = {k: (base[k], v) for k, v in fl.items() if k in base and base.get(k) != v}
        ctx.disagreements_checked += 1
        if diff:
            ctx.disagree("runtime constants", {"worker": worker, "measured": fl}, {k: a for k, (a, b) in diff.items()},
                         {k: b for k, (a, b) in diff.items()})


def model_request(sc: dict, cmd: str, flags: Dict[str, dict]) -> dict:
    """The environment of the scenario as the model sees it: timed events on harness connection numbers."""
    trio = sc["worker"] == "trio"
    evs: List[dict] = []
    order = 0

    def ev(t: float, op: str, **kw: Any) -> None:
        nonlocal order
        evs.append({"t": max(0, ticks(t)), "op": op, "_o": order, **kw})
        order += 1

    # the lifespan application writes its marker before anything else (unless the scenario says it stores nothing)
    if sc.get("ls_writes", True):
        ev(0.0, "life_write", k=KEYS["boot"], v=VAL_L)
    script: List[str] = []
    t_app = 0.0
    for act in sc["lifespan"]:
        if act == "set_late":
            # executed right after the preceding awaits: the harness computes the instant from the script
            ev(sc.get("set_late_at", t_app), "life_write", k=KEYS["late"], v=1)
            continue
        if act == "await":
            t_app += float(sc.get("await_s", 0.15))
        script.append(base_act(act))        # the model's actions are message types (HC.Props.C14.asgi_send_dispatch)
    for c in sc.get("clients", []):
        t = 0.0
        cid, kind = c["id"], c["kind"]
        ntag = 0
        for st in c["steps"]:
            if st[0] == "at":
                t = float(st[1])
            elif st[0] in ("connect", "connect_small"):
                ev(t, "connect", cid=cid, kind=kind, wait=trio)
                if kind == "h2":
                    t += 0.15          # the client pumps the settings exchange first
            elif st[0] == "partial":
                ev(t, "partial", cid=cid, wait=trio)
            elif st[0] == "pipeline":
                # the first request is read at once; the others sit in the connection's buffer until the connection is
                # recycled (`wait`: they stay pending for as long as the model does not enable them)
                for n, path in enumerate(st[1]):
                    parts = path.strip("/").split("/")
                    rem = None if parts[0] == "hang" else (ticks(int(parts[1]) / 1000.0) if len(parts) > 1 else 0)
                    ev(t, "request", cid=cid, rem=rem, wait=(trio or n > 0))
            elif st[0] in ("get", "stream"):
                parts = st[1].strip("/").split("/")
                rem: Optional[int]
                writes: List[tuple] = []
                if parts[0] in ("hang", "big"):
                    rem = None         # `big` is only requested by clients that do not read: the handler never gets to the end
                elif parts[0] == "state":
                    tag = int(parts[1])
                    rem = ticks(int(parts[2]) / 1000.0) if len(parts) > 2 else 0
                    writes = [(KEYS["who"], tag), (KEYS["boot"], 200 + tag)]
                else:
                    rem = ticks(int(parts[1]) / 1000.0) if len(parts) > 1 else 0
                if st[0] == "get":
                    ev(t, "request", cid=cid, rem=rem, wait=trio)
                else:
                    ntag += 1
                    ev(t, "stream", cid=cid, wait=trio, tag=ntag)
                    if rem is not None:
                        ev(t + rem * TICK, "progress", cid=cid, tag=ntag)
                for k, v in writes:
                    ev(t, "conn_write", cid=cid, k=k, v=v, wait=trio)
            elif st[0] == "pump":
                t = max(t, float(st[1]))
            elif st[0] == "at_counts":
                t = float(st[1])
            elif st[0] in ("after_trigger", "pump_after_trigger"):
                # on the model's clock shutdown is triggered at the instant it is due
                nominal = sc["trigger_at"] if sc.get("trigger_at") is not None else sc.get("nominal_trigger")
                if nominal is not None:
                    t = max(t, float(nominal) + float(st[1]))
            elif st[0] == "close":
                ev(t, "client_close", cid=cid)
    if sc.get("trigger_at") is not None:
        ev(float(sc["trigger_at"]), "trigger")
    evs.sort(key=lambda e: (e["t"], e["_o"]))
    for e in evs:
        del e["_o"]
    cfg = sc.get("config", {})
    return {"cmd": cmd, "runtime": flags[sc["worker"]],
            "config": {"startup_timeout": ticks(cfg.get("startup_timeout", 60)), "shutdown_timeout": ticks(cfg.get("shutdown_timeout", 60)),
                       "graceful_timeout": ticks(cfg.get("graceful_timeout", 3)), "max_requests": cfg.get("max_requests"), "cap": 10},
            "script": script, "await_ticks": ticks(float(sc.get("await_s", 0.15))), "events": evs,
            "until": ticks(float(sc["observe_until"]))}


def model_view(m: dict) -> dict:
    """What the model predicts, keyed by harness connection number."""
    cmap = {mid: cid for cid, mid in m["cmap"]}
    per: Dict[int, dict] = {cid: {"accepted": True, "scopes": 0, "fate": "live", "fate_t": None, "refused_streams": 0, "streams_done": 0}
                            for cid in cmap.values()}
    for t, e in m["timeline"]:
        if e[0] in ("scope", "closed_idle", "delivered", "cancelled", "goaway", "refused_stream", "stream_done", "ws_done", "peer_closed"):
            cid = cmap.get(e[1])
            if cid is None:
                continue
            p = per[cid]
            if e[0] == "scope":
                p["scopes"] += 1
            elif e[0] == "refused_stream":
                p["refused_streams"] += 1
            elif e[0] == "stream_done":
                p["streams_done"] += 1
            elif e[0] == "goaway":
                p["said_goaway"] = True
                p["fate"], p["fate_t"] = e[0], t
            elif e[0] == "cancelled" and p.get("said_goaway") and p["fate_t"] == t:
                pass                # told to go away and torn down in the same instant: the fate the peer sees is the GOAWAY
            elif e[0] == "delivered":
                p["delivered_t"] = t
                p["delivered"] = p.get("delivered", 0) + 1
            else:
                p["fate"], p["fate_t"] = e[0], t
    # a connection the model dropped at the instant its response was delivered (`_maybe_recycle` does not recycle)
    live = {cmap.get(i) for i, _ in m.get("live", [])}
    for cid, p in per.items():
        if p["fate"] == "live" and p.get("delivered_t") is not None and cid not in live:
            p["closed_after_delivery_t"] = p["delivered_t"]
    ended = m["phase"] in ("done", "failed")
    return {"per": per, "outcome": ("return" if m["phase"] == "done" else "raise" if m["phase"] == "failed" else "stuck"),
            "error": (m["error"] or "").split(":")[0] or None, "stage": (m["error"] or ":").split(":")[1] if m["error"] and ":" in m["error"] else None,
            "return_s": None if m["return_time"] is None or not ended else m["return_time"] * TICK,
            "trigger_s": None if m["trigger_time"] is None else m["trigger_time"] * TICK,
            "shutdown_put_s": None if m["shutdown_put_at"] is None else m["shutdown_put_at"] * TICK,
            "received": m["received"], "supported": m["supported"], "warnings": m["warnings"],
            "refused": sorted(o["cid"] for o in m["outcomes"] + m["pending"] if o["op"] == "connect" and not o["enabled"])}


def impl_view(obs: dict) -> dict:
    """The same projection of the implementation's observation."""
    per: Dict[int, dict] = {}
    path_cid: Dict[str, int] = {}
    for e in obs["events"]:
        _, t, kind, d = e
        if kind == "client":
            p = per.setdefault(d["cid"], {"accepted": False, "scopes": 0, "responses": [], "closed_t": None, "h2": [], "ws": [], "sent": []})
            w = d["what"]
            if w == "connect":
                p["accepted"] = d["result"] == "ok"
                p["connect"] = d["result"]
                p["connect_t"] = t
            elif w in ("sent_request", "sent_stream"):
                p["sent"].append((t, d["path"]))
                path_cid[d["path"]] = d["cid"]
            elif w == "response":
                p["responses"].append({"t": t, "status": d.get("status"), "complete": d.get("complete"), "ended": d.get("ended"),
                                       "body_head": d.get("body_head")})
            elif w == "close_wait":
                if d.get("closed"):
                    p["closed_t"] = t
            elif w == "eof":
                p["closed_t"] = t if p["closed_t"] is None else p["closed_t"]
                p["h2"].append((t, "eof"))
            elif w.startswith("h2_") or w == "stream_refused_locally":
                p["h2"].append((t, w, {k: v for k, v in d.items() if k not in ("cid", "what")}))
            elif w.startswith("ws_"):
                p["ws"].append((t, w, d.get("code")))
    scopes = [(e[1], e[3]) for e in obs["events"] if e[2] == "scope"]
    ends = [(e[1], e[2], e[3].get("path")) for e in obs["events"] if e[2] in ("http_done", "http_abort", "ws_done", "ws_abort")]
    return {"per": per, "scopes": scopes, "ends": ends, "path_cid": path_cid,
            "outcome": obs["serve"]["outcome"], "classes": obs["serve"].get("classes", []), "return_s": obs["serve"].get("t"),
            "message": obs["serve"].get("message", ""),
            "trigger_s": first_t(obs, "trigger") if first_t(obs, "trigger") is not None else first_t(obs, "trigger_fired"),
            "ls": [(e[1], e[2], e[3]) for e in obs["events"] if e[2].startswith("ls_")],
            "received": [e[3]["type"] for e in obs["events"] if e[2] == "ls_recv"],
            "logs": [(e[1], e[3]["level"], e[3]["message"]) for e in obs["events"] if e[2] == "log"]}
