"""C10 — WebSocket message fidelity and message-size limit.

Two layers.
(a) direct: the real `WSStream` object is driven with the byte stream of an independent client (frames serialised by
    `clients.WsClient`), cut into reads; wsproto (the installed library) parses them; every step is compared with the Lean
    model `HC.Stream.Ws` fed the events the library yielded, and the whole session with the Lean *specification*
    (`c10.spec`: `handleEvents` on `sessionEvs` of the logical messages — what `receive_fidelity` / `limit_*` speak about).
(b) end to end: `TCPServer` on both workers, HTTP/1.1 upgrade and HTTP/2 extended CONNECT, every read segmentation class;
    including the "writers" family: large application messages sent whilst the peer does not take what the server writes and
    keeps sending (pings, messages), so that the reader task's replies and the ping task write to the stream during an
    application send (frame integrity under concurrent writers: `HC/Stream/WsWire.lean`, `frame_hand_over_assumed`).
Monitors are written from the property text and look only at what the application received and what the client saw."""
from __future__ import annotations

import codecs
import random
from typing import Any, Dict, List, Optional, Tuple

from ..core import clients as C
from ..core import streams as S
from ..core import wsrun as W
from ..core.framework import Ctx, b2s, s2b

SPEC = {
    "modules": ["HC.Props.C10"],
    "extracted": ["Guards", "WsSend", "Atomic"],
    "technique": "Lean 4 transducer theorems over the WSStream model (HC/Stream/Ws.lean): _handle_events is a stopping left fold (handleEvents = runEvs), batching/segmentation independence, receive fidelity for ALL message lists x fragmentations x control-frame interleavings by induction over a well-formed-by-construction session type, limit theorem generic in the payload kind with the EXTRACTED comparator, overflow invariant for all later inputs, send fidelity, frame integrity of the send side under every schedule of its several writer tasks (HC/Stream/WsWire.lean, hand-over granularity EXTRACTED); tied by differential runs of the real WSStream (direct) and of TCPServer on asyncio+trio over HTTP/1.1 upgrade and HTTP/2 extended CONNECT with an independent wsproto client",
    "level_text": "Proved in Lean for EVERY list of messages within the limit, every non-empty fragmentation of each (text or binary), every interleaving of pings/pongs and every cut of the event stream into batches: the application is put exactly the messages (kind, concatenated payload) in order, each once, nothing raises, the buffer is empty afterwards, and the frames sent are exactly one pong per ping with the same payload in order (receive_fidelity, segmentation_independence, ping_pong).  Limit (limit_text / limit_bytes, sizes in characters resp. bytes, extracted comparator `>`): if a fragment takes the accumulated size over websocket_max_message_size then exactly the earlier messages are delivered, close 1009 is sent, and the rest of the batch has no influence; for ALL later inputs no websocket.receive is ever put (nothing_after_overflow).  send_fidelity / send_sequence: websocket.send -> one frame of the same kind and payload, in order.  limit_total: after the overflow every later batch is handled without an exception and delivers nothing (F05, a TypeError on the next fragment of the other kind, was repaired in the repository).  Several writers (send_frames_never_interleaved / send_stream_parses / send_fidelity_concurrent): for every number of tasks writing to the stream (application, reader task replies, ping task), every frame list and EVERY schedule of hand-overs and takes, the byte stream is a concatenation of whole frames and the client parses for each class of frame exactly what that task sent, in order; the granularity (one frame = one Data event = one append of the whole of it, on both carriers and workers) is read off the source (frame_hand_over_assumed); sliced_hand_over_interleaves shows the statement is false when a frame is handed over in pieces.",
    "level_note": "Trusted: Lean kernel; model HC/Stream/Ws.lean tied by differential runs; wsproto (frame parsing, UTF-8 decoding, permessage-deflate, the lazily parsed frame queue) is an input of the model - its events are taken from a tap on the library classes; h11/h2 carriers are exercised end to end only.  Malformed frames are outside C10 (C04).",
    "rule": "session = (max size, message list with kinds/sizes around the limit, fragmentation in BYTES possibly inside a code point, pings/pongs before fragments and trailing, deflate) x read segmentation (one read, one byte per read, random k-way, every two-way split of short sessions) x carrier x worker; plus the writers family: the application sends messages up to 150 kB (around the HTTP/2 buffer marks and frame sizes) whilst the peer does not take what the server writes and sends pings / messages / lets the ping interval pass, so that the reader task and the ping task write to the stream while an application send is suspended; distinct = distinct (layer, carrier, worker, deflate, segmentation class, kinds, size classes, fragment counts, ctl placement); non-trivial = at least one message with >= 2 fragments or a size within 1 of the limit or a ping",
    "trusted": ["wsproto client/server framing and the WsClient frame serialiser as oracle for what the client sent / saw"],
    "partial": ["permessage-deflate with a control frame between the fragments of one message: wsproto 1.3.2 loses the per-message compression flag (library defect F30, known finding, observed end to end only; every violation in such a session carries deflate_ctl_inside_fragmented=true)"],
    "assumptions": ["clients send well-formed frames (valid UTF-8 in complete text messages, control frames <= 125 bytes)"],
}

CH = ["a", "Z", "é", "€", "😀", "0"]
MAXES = [5, 64, 1000]


def rand_text(rng: random.Random, n: int) -> str:
    return "".join(rng.choice(CH) for _ in range(n))


def split_bytes(rng: random.Random, data: bytes, nfrag: int) -> List[bytes]:
    if nfrag <= 1:
        return [data]
    cuts = sorted(rng.randrange(0, len(data) + 1) for _ in range(nfrag - 1))
    out, prev = [], 0
    for c in cuts + [len(data)]:
        out.append(data[prev:c])
        prev = c
    return out


def gen_ctl(rng: random.Random, p: float) -> List[list]:
    out = []
    while rng.random() < p and len(out) < 3:
        out.append([rng.choice(["ping", "ping", "pong"]), b2s(bytes(rng.randrange(256) for _ in range(rng.choice([0, 1, 2, 5, 125]))))])
    return out


def gen_msg(rng: random.Random, mx: int, over_p: float) -> list:
    kind = rng.choice(["text", "bytes"])
    cls = rng.choice(["0", "1", "small", "max-1", "max"] if rng.random() > over_p else ["max+1", "2max"])
    n = {"0": 0, "1": 1, "small": rng.randrange(0, mx), "max-1": mx - 1, "max": mx, "max+1": mx + 1, "2max": 2 * mx}[cls]
    data = rand_text(rng, n).encode() if kind == "text" else bytes(rng.randrange(256) for _ in range(n))
    nfrag = rng.choice([1, 1, 2, 3, 4])
    frags = split_bytes(rng, data, nfrag)
    ctl = [gen_ctl(rng, 0.25) for _ in frags]
    return ["msg", kind, [b2s(f) for f in frags], ctl, cls]


def gen_session(rng: random.Random) -> dict:
    mx = rng.choice(MAXES)
    nmsg = rng.choice([0, 1, 1, 2, 2, 3, 4, 6])
    over_p = rng.choice([0.0, 0.0, 0.25, 0.5])
    msgs = [gen_msg(rng, mx, over_p) for _ in range(nmsg)]
    sends = []
    for _ in range(rng.choice([0, 0, 1, 2, 3])):
        if rng.random() < 0.5:
            sends.append(["text", rand_text(rng, rng.choice([0, 1, 7, 130]))])
        else:
            sends.append(["bytes", b2s(bytes(rng.randrange(256) for _ in range(rng.choice([0, 1, 7, 130, 70000]))))])
    return {"max": mx, "msgs": msgs, "trail": gen_ctl(rng, 0.3), "sends": sends, "deflate": rng.random() < 0.35, "mask_seed": rng.randrange(1 << 30)}


# --------------------------------------------------------------------------------------------------------------
# what the property says must happen (independent of model and code)
# --------------------------------------------------------------------------------------------------------------
def logical(sess: dict) -> dict:
    sent, sizes, must, all_pings = [], [], [], []
    over = None
    for i, m in enumerate(sess["msgs"]):
        data = b"".join(s2b(f) for f in m[2])
        val: Any = data.decode("utf-8") if m[1] == "text" else data
        sent.append([m[1], val])
        sizes.append(len(val))
        is_over = over is None and len(val) > sess["max"]
        for j, cs in enumerate(m[3]):
            for k, p in cs:
                if k == "ping":
                    all_pings.append(p)
                    # pings the client sent before the over-limit message began must be answered; later ones may be
                    # (the server has then sent, or is about to send, its close frame) - the weaker reading
                    if over is None and not (is_over and j > 0):
                        must.append(p)
        if is_over:
            over = i
    for k, p in sess["trail"]:
        if k == "ping":
            all_pings.append(p)
            if over is None:
                must.append(p)
    kinds_after = [m[1] for m in sess["msgs"][over + 1:]] if over is not None else []
    ctl_inside = any(len(m[2]) >= 2 and any(m[3][j] for j in range(1, len(m[2]))) for m in sess["msgs"])
    return {"sent": sent, "sizes": sizes, "over": over, "expected": sent if over is None else sent[:over], "pings_must": must, "pings_all": all_pings,
            "other_kind_after": over is not None and any(k != sess["msgs"][over][1] for k in kinds_after),
            "deflate_ctl_inside": bool(sess["deflate"] and ctl_inside)}


def char_frags(m: list) -> List[str]:
    """a character-level fragmentation of a text message equivalent to the byte fragmentation (incremental decoder)"""
    dec = codecs.getincrementaldecoder("utf-8")()
    fr = [s2b(f) for f in m[2]]
    return [dec.decode(f, final=(i == len(fr) - 1)) for i, f in enumerate(fr)]


def spec_req(sess: dict) -> dict:
    msgs = []
    for m in sess["msgs"]:
        frags = char_frags(m) if m[1] == "text" else list(m[2])
        msgs.append({"kind": m[1], "frags": frags, "ctl": m[3]})
    return {"cmd": "c10.spec", "max_len": sess["max"], "msgs": msgs, "trail": sess["trail"]}


def send_msg(x: list) -> dict:
    return {"type": "websocket.send", "text": x[1]} if x[0] == "text" else {"type": "websocket.send", "bytes": s2b(x[1])}


def pl(kind: str, v: Any) -> dict:
    return {"text": v} if kind == "text" else {"bytes": b2s(v) if isinstance(v, (bytes, bytearray)) else v}


def sig_base(layer: str, carrier: str, lg: dict) -> dict:
    s = {"layer": layer, "carrier": carrier}
    if lg["deflate_ctl_inside"]:
        s["deflate_ctl_inside_fragmented"] = True
    return s


def monitor(ctx: Ctx, case: dict, lg: dict, delivered: List[list], pongs: List[str], close_code: Optional[int], close_1009_sent: bool,
            app_frames: Optional[List[list]], errors: Any, layer: str, carrier: str) -> None:
    """delivered: [[kind, payload]] as the application received them; pongs: payloads (latin-1) the client got"""
    sig = sig_base(layer, carrier, lg)
    exp = [[k, v if k == "text" else b2s(v)] for k, v in lg["expected"]]
    over = lg["over"]
    if errors:
        ctx.violation("internal_error", case, errors, {**sig, "error": _errname(errors), "after_overlimit": over is not None,
                                                       "other_kind_after_overlimit": lg["other_kind_after"]})
    if delivered != exp:
        if over is not None and len(delivered) > len(exp) and delivered[:len(exp)] == exp:
            ctx.violation("delivered_after_overlimit", case, {"delivered": _short(delivered), "expected": _short(exp)}, sig)
        else:
            ctx.violation("delivered", case, {"delivered": _short(delivered), "expected": _short(exp)}, {**sig, "overlimit": over is not None})
    saw1009 = (close_code == 1009) or close_1009_sent
    if (over is not None) != saw1009:
        ctx.violation("close_1009_iff_overlimit", case, {"close_code": close_code, "over": over}, {**sig, "overlimit": over is not None})
    must = lg["pings_must"]
    if pongs[:len(must)] != must or pongs != lg["pings_all"][:len(pongs)]:
        ctx.violation("pongs", case, {"pongs": pongs, "must": must, "all": lg["pings_all"]}, {**sig, "overlimit": over is not None})
    if app_frames is not None:
        want = [list(m) for m in case["session"]["sends"]]
        if app_frames != want:
            i = next((k for k, (a, b) in enumerate(zip(app_frames, want)) if a != b), min(len(app_frames), len(want)))
            where: Dict[str, Any] = {"message": i, "received": len(app_frames), "sent": len(want)}
            if i < len(app_frames) and i < len(want) and app_frames[i][0] == want[i][0]:
                a, b = app_frames[i][1], want[i][1]
                off = next((k for k in range(min(len(a), len(b))) if a[k] != b[k]), min(len(a), len(b)))
                where.update({"offset": off, "got_there": a[off:off + 12], "sent_there": b[off:off + 12], "got_len": len(a), "sent_len": len(b)})
            ctx.violation("app_to_client", case, {"got": _short(app_frames), "want": _short(want), "first_difference": where}, sig)


def _errname(errors: Any) -> str:
    if isinstance(errors, dict):
        for k in ("error", "step_errors"):
            v = errors.get(k)
            if v:
                names = [v] if isinstance(v, str) else list(v)
                # asyncio adds "TaskGroup is shutting down" RuntimeErrors / cancellations as a consequence: name the cause
                prim = [n for n in names if n not in ("RuntimeError", "CancelledError", "Cancelled")] or names
                return str(prim[0])
        return "client_side:" + "+".join(sorted(k for k in errors if errors[k]))
    return str(errors)


def _short(x: Any) -> Any:
    if isinstance(x, list):
        return [_short(i) for i in x]
    if isinstance(x, str) and len(x) > 60:
        return x[:40] + f"...({len(x)})"
    return x


def _counts(ctx: Ctx, sess: dict, lg: dict, layer: str, carrier: str, worker: str, seg: str) -> None:
    ctx.count("layer", layer)
    ctx.count("carrier", carrier)
    ctx.count("segmentation", seg)
    ctx.count("deflate", sess["deflate"])
    ctx.count("max", sess["max"])
    ctx.count("n_messages", len(sess["msgs"]))
    ctx.count("overlimit", lg["over"] is not None)
    for m in sess["msgs"]:
        ctx.count("size_class", f"{m[1]}:{m[4]}")
        ctx.count("fragments", len(m[2]))
        if m[1] == "text" and len(m[2]) > 1:
            try:
                for f in m[2][:-1]:
                    s2b(f).decode("utf-8")
            except UnicodeDecodeError:
                ctx.count("text_cut_inside_code_point", True)
    nontriv = any(len(m[2]) >= 2 or m[4] in ("max-1", "max", "max+1") for m in sess["msgs"]) or bool(lg["pings_all"])
    wr = sess.get("writers")
    if wr:
        ctx.count("writers_family", f"{carrier}:{'ping_task+' if wr.get('srv_ping') else ''}reader_replies")
        for m in sess["sends"]:
            ctx.count("writers_app_send_kib", f"{m[0]}:{len(m[1].encode() if m[0] == 'text' else m[1]) // 16384 * 16}+")
    if nontriv:
        ctx.distinct([layer, carrier, worker, sess["deflate"], seg, [(m[1], m[4], len(m[2]), [len(c) for c in m[3]]) for m in sess["msgs"]], len(sess["trail"])]
                     + ([[(m[0], len(m[1])) for m in sess["sends"]], wr] if wr else []))


# --------------------------------------------------------------------------------------------------------------
# (a) direct drive
# --------------------------------------------------------------------------------------------------------------
DEFLATE_ACCEPT = "permessage-deflate; client_max_window_bits=15; server_max_window_bits=15"


def client_bytes(sess: dict) -> Tuple[bytes, C.WsClient]:
    ws = C.WsClient(random.Random(sess["mask_seed"]), deflate=sess["deflate"])
    ws._negotiated([["sec-websocket-extensions", DEFLATE_ACCEPT]] if sess["deflate"] else [])
    out = b""
    for m in sess["msgs"]:
        out += ws.message(m[1], [s2b(f) for f in m[2]], [[(c[0], s2b(c[1])) for c in cs] for cs in m[3]])
    for k, p in sess["trail"]:
        out += ws.ping(s2b(p)) if k == "ping" else ws.pong(s2b(p))
    return out, ws


def direct_case(ctx: Ctx, sess: dict, seg: list) -> dict:
    return {"layer": "direct", "session": sess, "seg": seg, "version": "1.1" if sess["mask_seed"] % 2 else "2"}


def run_direct(ctx: Ctx, cases: List[dict]) -> None:
    prepared = []

    async def runall():
        out = []
        for case in cases:
            sess = case["session"]
            data, ws = client_bytes(sess)
            hs = [(b"host", b"x"), (b"sec-websocket-version", b"13")]
            if case["version"] == "1.1":
                hs += [(b"upgrade", b"websocket"), (b"connection", b"upgrade"), (b"sec-websocket-key", ws.key)]
            if sess["deflate"]:
                hs.append((b"sec-websocket-extensions", ws.offer_value()))
            init = {"version": case["version"], "headers": hs}
            ops: List[dict] = [{"send": {"type": "websocket.accept"}}] + [{"send": send_msg(m)} for m in sess["sends"]]
            ops += [{"in": "data", "data": p} for p in W.cut(data, case["seg"], 0)]
            ops.append({"in": "streamClosed"})
            cfg = {"websocket_max_message_size": sess["max"]}
            steps, lib = await S.drive_ws(init, ops, cfg)
            prepared.append((init, ops, cfg, lib))
            out.append(steps)
        return out

    obs = S.run(runall())
    reqs = []
    for case, (init, ops, cfg, lib) in zip(cases, prepared):
        reqs.append(S.ws_model_req(init, ops, lib, cfg))
        reqs.append(spec_req(case["session"]))
    model = ctx.model(reqs)
    for i, (case, steps) in enumerate(zip(cases, obs)):
        sess = case["session"]
        lg = logical(sess)
        ctx.evaluations += 1
        _counts(ctx, sess, lg, "direct", "stream", "-", case["seg"][0])
        ctx.sample({"layer": "direct", "max": sess["max"], "msgs": [[m[1], m[4], [len(f) for f in m[2]], m[3]] for m in sess["msgs"]], "seg": case["seg"][:2],
                    "deflate": sess["deflate"]}, cap=2)
        delivered, pongs, frames, errs, close1009 = [], [], [], [], False
        nsend = 1 + len(sess["sends"])
        for k, o in enumerate(steps[1:]):
            if o["error"]:
                errs.append(o["error"])
            for p in o["puts"]:
                if p[0] == "websocket.receive":
                    delivered.append(["text", p[1]["text"]] if "text" in p[1] else ["bytes", p[1]["bytes"]])
            for ev in o["events"]:
                if ev[0] == "data":
                    f = ev[1]
                    if f[0] == "pong":
                        pongs.append(f[1])
                    elif f[0] == "close" and f[1] == 1009:
                        close1009 = True
                    elif f[0] == "message":
                        frames.append(["text", f[1]["text"]] if "text" in f[1] else ["bytes", f[1]["bytes"]])
        monitor(ctx, case, lg, delivered, pongs, None, close1009, frames, {"step_errors": errs} if errs else None, "direct", "stream")
        if model is None:
            continue
        ctx.disagreements_checked += 1
        mo = model[2 * i].get("ok")
        if mo is None or mo != steps:
            first = next((k for k, (a, b) in enumerate(zip(mo or [], steps)) if a != b), None)
            ctx.disagree("stream.ws", case, {"first_diff": first, "model": (mo or [model[2 * i]])[first] if first is not None and mo else model[2 * i]},
                         {"impl": steps[first] if first is not None else steps[-1]})
        else:
            ctx.traces_validated += 1
        # the declarative specification against the implementation: only where the theorems speak (no library-level damage)
        sp = model[2 * i + 1].get("ok")
        if sp is None:
            ctx.disagree("c10.spec", case, model[2 * i + 1], None)
        elif not lg["deflate_ctl_inside"]:
            sd = [["text", p[1]["text"]] if "text" in p[1] else ["bytes", p[1]["bytes"]] for p in sp["delivered"]]
            spong = [e[1][1] for e in sp["events"] if e[0] == "data" and e[1][0] == "pong"]
            s1009 = any(e[0] == "data" and e[1] == ["close", 1009] for e in sp["events"])
            # pongs after the overflow may still be refused by wsproto (connection LOCAL_CLOSING): compare up to the overflow
            impl_pongs = pongs if lg["over"] is None else pongs[:len(spong)]
            if sd != delivered or s1009 != close1009 or spong != impl_pongs or sp["sizes"] != lg["sizes"]:
                ctx.disagree("c10.spec", case, {"delivered": _short(sd), "pongs": spong, "close1009": s1009, "sizes": sp["sizes"]},
                             {"delivered": _short(delivered), "pongs": pongs, "close1009": close1009, "sizes": lg["sizes"]})


# --------------------------------------------------------------------------------------------------------------
# (b) end to end
# --------------------------------------------------------------------------------------------------------------
def e2e_case(sess: dict, worker: str, carrier: str, seg: list) -> dict:
    return {"layer": "e2e", "session": sess, "worker": worker, "carrier": carrier, "seg": seg}


def to_wsrun(case: dict) -> dict:
    sess = case["session"]
    lg = logical(sess)
    wr = sess.get("writers")
    if wr:
        # several writers on the stream: the application starts sending when the client's first message has arrived; from then
        # on the peer does not take what the server writes (the application's send is suspended somewhere on its way), and
        # whatever else the client sends meanwhile is answered by the reader task (and the ping task runs) - then it reads again
        client: List[list] = [["stall"], sess["msgs"][0][:4], ["flush"]]
        for m in sess["msgs"][1:]:
            client += [m[:4], ["flush"]]
        for k, p in sess["trail"]:
            client += [[k, p], ["flush"]]
        if wr.get("srv_ping"):
            client += [["sleep", 1.5 * wr["srv_ping"]]]
        # ... and gives the server (virtual) time to write everything its application still sends before it closes: a client that
        # closes while the application is still sending is not owed the rest (the monitor expects every message)
        client += [["unstall"], ["sleep", 3.0], ["flush"]]
    else:
        client = [m[:4] for m in sess["msgs"]] + [[k, p] for k, p in sess["trail"]] + [["flush"]]
    client += [["reply_close"]] if lg["over"] is not None else [["close", 1000], ["flush"]]
    client += [["eof"]]
    app = [["recv"], ["send", {"type": "websocket.accept"}]] + ([["recv"]] if wr else []) + [["send", send_msg(m)] for m in sess["sends"]] + [["recv_until_disconnect"]]
    out = {"worker": case["worker"], "carrier": case["carrier"], "deflate": sess["deflate"], "mask_seed": sess["mask_seed"],
           "cfg": {"websocket_max_message_size": sess["max"]}, "app": app, "client": client, "seg": case["seg"]}
    if wr:
        out["h2_window"] = 1 << 20          # flow control never holds the server back (a closed window is C08's subject, F73)
        if wr.get("srv_ping"):
            out["cfg"]["websocket_ping_interval"] = wr["srv_ping"]
    return out


# sizes (bytes) of what the application sends in the writers family: around the HTTP/2 frame size (16 KiB), the stream
# buffer's marks (16 / 32 KiB, minus the 4 / 10 byte frame header) and the initial window, and well beyond them
WRITER_SIZES = [16370, 16384, 30000, 32758, 32764, 32768, 33000, 49152, 65526, 65536, 70000, 100000, 131072, 150000]


def gen_writers_session(rng: random.Random) -> dict:
    """the application sends large messages while other tasks write to the same stream (module docstring (b))"""
    mx = 1000
    msgs = [["msg", "text", ["go"], [[]], "small"]]
    for _ in range(rng.choice([0, 0, 1, 2])):
        m = gen_msg(rng, rng.choice([5, 64]), 0.0)      # (sizes of the small limits: all within 1000)
        m[4] = "small"
        msgs.append(m)
    trail = gen_ctl(rng, 0.6)
    if not trail and not any(c for m in msgs for c in m[3]):
        trail = [["ping", b2s(bytes(rng.randrange(256) for _ in range(rng.choice([0, 3, 125]))))]]
    sends = []
    for i in range(rng.choice([1, 1, 2, 3])):
        n = rng.choice(WRITER_SIZES) if i == 0 or rng.random() < 0.5 else rng.choice([0, 1, 130, 5000])
        n = max(0, n + rng.choice([0, 0, -1, 1, -10, 7]))
        if rng.random() < 0.35:
            sends.append(["text", rand_text(rng, n // 2)])
        else:
            sends.append(["bytes", b2s(rng.randbytes(n))])
    sess = {"max": mx, "msgs": msgs, "trail": trail, "sends": sends, "deflate": rng.random() < 0.2, "mask_seed": rng.randrange(1 << 30),
            "writers": {"srv_ping": rng.choice([None, None, 0.5])}}
    if sess["deflate"] and logical(sess)["deflate_ctl_inside"]:
        sess["deflate"] = False          # (F30: wsproto loses the compression flag, SPEC.partial - not what this family is about)
    return sess


def run_e2e(ctx: Ctx, cases: List[dict]) -> List[dict]:
    outs = []
    for case in cases:
        sess = case["session"]
        lg = logical(sess)
        o = W.run_session(to_wsrun(case))
        outs.append(o)
        ctx.evaluations += 1
        ctx.traces_validated += 1
        _counts(ctx, sess, lg, "e2e", case["carrier"], case["worker"], case["seg"][0])
        ctx.count("worker", case["worker"])
        ctx.sample({"layer": "e2e", "worker": case["worker"], "carrier": case["carrier"], "max": sess["max"], "deflate": sess["deflate"],
                    "msgs": [[m[1], m[4], [len(f) for f in m[2]], m[3]] for m in sess["msgs"]], "seg": case["seg"][:2], "wire": o["wire"], "reads": o["reads"]}, cap=4)
        if not o["accepted"] or not o["apps"]:
            ctx.violation("handshake_failed", case, {k: o[k] for k in ("client", "error", "h2_error", "client_error")}, sig_base("e2e", case["carrier"], lg))
            continue
        app = o["apps"][0]
        delivered = []
        for r in app["recv"]:
            if r[0] == "websocket.receive":
                delivered.append(["text", r[1]["text"]] if "text" in r[1] else ["bytes", r[1]["bytes"]])
        errs = {k: o[k] for k in ("error", "loop_errors", "exceptions", "client_error", "h2_error") if o[k]}
        if o["client"]["error"]:
            errs["client_parse"] = o["client"]["error"]
        if any(s[1] != "ok" for s in app["send"]):
            errs["app_send"] = app["send"]
        monitor(ctx, case, lg, delivered, o["client"]["pongs"], o["client"]["close_code"], False, o["client"]["messages"], errs or None, "e2e", case["carrier"])
        if app["recv"][:1] != [["websocket.connect"]]:
            ctx.violation("connect_first", case, app["recv"][:2], sig_base("e2e", case["carrier"], lg))
    return outs


def run(ctx: Ctx) -> None:
    rng = ctx.rng
    # ---- (a) direct ----
    n_direct = ctx.budget(1900, 24000)
    dcases = []
    for i in range(n_direct):
        sess = gen_session(rng)
        if sess["deflate"] and logical(sess)["deflate_ctl_inside"]:
            # wsproto 1.3.2 corrupts such messages (see SPEC.partial); the direct layer compares model and glue on valid event
            # streams, the end-to-end layer below reports what the application then receives
            ctx.count("direct_skipped_deflate_ctl_inside", True)
            sess["deflate"] = False
        seg = rng.choice([["one"], ["bytes"], ["k", rng.choice([2, 3, 5, 9]), rng.randrange(1 << 20)]])
        if seg[0] == "bytes" and sess["max"] == 1000 and not ctx.thorough:
            seg = ["k", 40, rng.randrange(1 << 20)]      # quick tier: kilobyte sessions are cut 40-way instead of per byte
        dcases.append(direct_case(ctx, sess, seg))
    # exhaustive two-way splits of short sessions
    short = 0
    while short < ctx.budget(12, 100):
        sess = gen_session(rng)
        sess["deflate"] = False if logical(sess)["deflate_ctl_inside"] else sess["deflate"]
        data, _ = client_bytes(sess)
        if 2 <= len(data) <= 48 and sess["msgs"]:
            short += 1
            for c in range(1, len(data)):
                dcases.append(direct_case(ctx, sess, ["cuts", [c]]))
    for j in range(0, len(dcases), 500):
        run_direct(ctx, dcases[j:j + 500])
    # ---- (b) end to end ----
    n_e2e = ctx.budget(220, 1900)
    ecases = []
    for i in range(n_e2e):
        sess = gen_session(rng)
        # keep end-to-end sessions small enough for one-byte-per-read segmentation
        sess["sends"] = [m for m in sess["sends"] if len(m[1]) < 1000]
        seg = rng.choice([["one"], ["bytes"], ["k", rng.choice([2, 3, 5]), rng.randrange(1 << 20)]])
        if seg[0] == "bytes" and sess["max"] == 1000:
            seg = ["k", 7, rng.randrange(1 << 20)]
        ecases.append(e2e_case(sess, ["asyncio", "trio"][i % 2], ["h1", "h2"][(i // 2) % 2], seg))
    # boundary corpus: max-1 / max / max+1 in bytes and in characters on every carrier x worker, one and two fragments
    for mx in (5, 64):
        for kind in ("bytes", "text"):
            for d in (-1, 0, 1):
                n = mx + d
                data = ("€" * n).encode() if kind == "text" else b"\x00" * n
                for frags in ([data], [data[:len(data) // 2 + 1], data[len(data) // 2 + 1:]]):
                    cls = {-1: "max-1", 0: "max", 1: "max+1"}[d]
                    sess = {"max": mx, "msgs": [["msg", kind, [b2s(f) for f in frags], [[] for _ in frags], cls], ["msg", kind, ["ok"], [[]], "small"]],
                            "trail": [["ping", "z"]], "sends": [], "deflate": False, "mask_seed": 7 + n}
                    pairs = [(w, c) for w in ("asyncio", "trio") for c in ("h1", "h2")]
                    if mx == 64 and not ctx.thorough:      # quick tier: the larger limit on two of the four pairs, alternating
                        pairs = pairs[(n + len(frags)) % 2::2]
                    for worker, carrier in pairs:
                        ecases.append(e2e_case(sess, worker, carrier, ["one"]))
    # a large application message (beyond one HTTP/2 frame and the initial 64 KiB window) on every carrier x worker
    big = {"max": 64, "msgs": [["msg", "text", ["hi"], [[]], "small"]], "trail": [], "sends": [["bytes", b2s(bytes(range(256)) * 300)], ["text", "€" * 20000]],
           "deflate": False, "mask_seed": 3}
    for worker in ("asyncio", "trio"):
        for carrier in ("h1", "h2"):
            ecases.append(e2e_case(big, worker, carrier, ["one"]))
            ecases.append(e2e_case({**big, "deflate": True}, worker, carrier, ["k", 3, 5]))
    # several writers on one stream: large application messages whilst the reader task answers pings / delivers messages and
    # the ping task runs, the application's send being suspended meanwhile; every carrier x worker
    fixed = {"max": 1000, "msgs": [["msg", "text", ["go"], [[]], "small"]], "trail": [["ping", "mid"]], "sends": [["bytes", b2s(bytes(range(256)) * 390)], ["text", "after"]],
             "deflate": False, "mask_seed": 5, "writers": {"srv_ping": None}}
    for worker in ("asyncio", "trio"):
        for carrier in ("h1", "h2"):
            ecases.append(e2e_case(fixed, worker, carrier, ["one"]))
    for i in range(ctx.budget(16, 160)):
        sess = gen_writers_session(rng)
        seg = rng.choice([["one"], ["one"], ["k", rng.choice([2, 3]), rng.randrange(1 << 20)]])
        ecases.append(e2e_case(sess, ["asyncio", "trio"][i % 2], ["h2", "h2", "h1", "h2"][(i // 2) % 4], seg))
    # F05 witness shape (design probe p_c10): over-limit binary, then text, on every carrier x worker
    f05 = {"max": 5, "msgs": [["msg", "text", [b2s("hé".encode()[:2]), b2s("hé".encode()[2:] + b"llo")], [[], [["ping", "p1"]]], "max"],
                               ["msg", "bytes", ["123456"], [[]], "max+1"], ["msg", "text", ["ok"], [[]], "small"]],
           "trail": [["ping", "p2"]], "sends": [], "deflate": False, "mask_seed": 11}
    for worker in ("asyncio", "trio"):
        for carrier in ("h1", "h2"):
            for seg in (["one"], ["bytes"]):
                ecases.append(e2e_case(f05, worker, carrier, seg))
    run_e2e(ctx, ecases)
    # every two-way split of short sessions, both workers, both carriers
    done = 0
    tries = 0
    while done < ctx.budget(2, 10) and tries < 4000:
        tries += 1
        sess = gen_session(rng)
        sess["sends"] = sess["sends"][:1]
        nctl = sum(len(c) for m in sess["msgs"] for c in m[3]) + len(sess["trail"])
        if not sess["msgs"] or len(sess["msgs"]) > 3 or nctl > 2 or sum(len(f) for m in sess["msgs"] for f in m[2]) > (14 if ctx.thorough else 9) \
                or sum(len(p) for m in sess["msgs"] for c in m[3] for _, p in c) > 10 or logical(sess)["deflate_ctl_inside"]:
            continue
        done += 1
        for worker in ("asyncio", "trio"):
            for carrier in ("h1", "h2"):
                base = e2e_case(sess, worker, carrier, ["one"])
                o = run_e2e(ctx, [base])[0]
                wire = o["wire"][0] if o["wire"] else 0
                run_e2e(ctx, [e2e_case(sess, worker, carrier, ["cuts", [c]]) for c in range(1, wire)])
    ctx.exhaustive = True
    ctx.extra["exhaustive_what"] = "every two-way split of the client byte stream of the selected short sessions (direct layer and end to end on both workers and both carriers)"


def replay(ctx: Ctx, case: dict) -> None:
    if case.get("layer") == "direct":
        run_direct(ctx, [case])
    else:
        run_e2e(ctx, [case])
