"""C07 — idle connections time out, busy ones do not, dead ones are released.

Virtual time on both workers gives exact instants.  (1) a pause of T-eps / T / T+eps placed at every point of each
canonical history (optionally followed by the peer leaving), for every timeout value; (2) random histories.  Every run
is replayed by the Lean acceptor on the timed model `HC.Conn.Server` (close and completion instants must agree to the
millisecond) and judged by the monitors below, which state the property on the implementation's observation alone."""
from __future__ import annotations

from typing import Any, Dict, List

from ..core import conn as K
from ..core.framework import Ctx

SPEC = {
    "modules": ["HC.Props.C07", "HC.Props.C03"],
    "extracted": ["ConnGuards"],
    "technique": "Lean 4 invariants of the timed connection model (virtual clock, single restartable timer slot, deadline = start + keep_alive_timeout, time cannot pass an armed deadline) proved for all operation sequences and all timeout values; tied by trace acceptance of the real TCPServer under virtual time on both workers (exact close / completion instants), monitors on the implementation's timestamps, and Updated(idle=..) call sites / timer wiring regenerated from the AST",
    "level_text": "Proved for every configuration and operation sequence: while the idle timer is armed no request is in progress and no WebSocket is open (so the timer never closes a busy connection); an armed deadline is exactly (start of idleness) + keep_alive_timeout and virtual time cannot pass it; on a connection without streams the expiry step is enabled exactly at the deadline (at once during shutdown, when no time may pass first) and closes the transport at that instant - for every keep_alive_timeout >= 0, the wait of the idle task being the configured value itself on both workers (the expressions handed to asyncio.wait_for / trio.move_on_after are extracted: idle_wait_is_keep_alive_timeout, idle_closes_at_T), so that with a timeout of 0 an idle connection is closed at once (keep_alive_zero_closes_at_once); on HTTP/2 the end of a registered stream always ends with Updated(idle=..) whether or not the shutdown GOAWAY was written (extracted statement shape), so the last stream ending after shutdown began restarts the timer, which is then due at once (shutdown_last_stream_closes_at_once); bytes that do not complete a head leave timer and deadline untouched; the end of an HTTP/1 response restarts the timer whatever the parser still holds (recycle_restarts_idle_timer; the Updated(idle=True) of _maybe_recycle is an unconditional statement of the recycle branch, extracted), so the beginning of a pipelined head that arrived while the response was pending does not keep the connection open; a reader waiting on a transport the server closed is never quiescent; on a prior-knowledge HTTP/2 connection the wrapper's Updated(idle=True) is processed while no stream exists and before the bytes behind the preface; a server-side close on trio releases a writer the peer keeps waiting, which then reports the closure; when reader, applications, closer tasks and timer have ended the handler exits at once with the transport closed.  Tie: pause at every point of 30 canonical histories (for T <= 1 ms also with their first bytes already buffered when the connection is accepted) and of the partial-pipelined-head family (the first bytes of the next head arrive before the current response is complete, cut at every point of the head, in a read of their own or in the first request's read) x {T-eps, T, T+eps} x T in {0, 0.001, 0.01, 1, 5, 3600, 10^7} s (quick: sampled around a fixed core: every canonical history with T = 0, sent after the accept and already buffered at the accept under three seeds of trio's scheduler; shutdown beginning while a request / the last HTTP/2 stream / a WebSocket is in progress with a client that ignores the GOAWAY) plus random histories, both workers, replayed by the model's acceptor and judged by monitors (busy/timer overlap, idle longer than T, exact expiry instant, release instant, live tasks).",
    "level_note": "Trusted: Lean kernel; the model HC/Conn/Server.lean (tied by trace acceptance); virtual-time loops of the harness (asyncio SelectorEventLoop subclass, trio MockClock); the recording wrapper around context.terminated as the observation of the timer task; 'as soon as' = same virtual millisecond.  'released' is proved for the final step and for the reader noticing the close; that a parked reader is released is tied by the differential and by decided witnesses.",
    "rule": "canonical history x pause position x pause length x timeout x worker (+ random histories); distinct = each such cell; non-trivial = the pause is within 1 ms of the timeout or the peer leaves",
    "trusted": ["harness virtual clocks", "RecordingEvent wrapper of context.terminated", "trio's scheduler seeded per case (field `sched`)"],
    "partial": ["F08 (known): queue full and application gone: the handler never finishes",
                "WebSocket over HTTP/2 is not modelled (HTTP/2 streams are HTTP)",
                "cleartext HTTP/2: prior knowledge and the h2c upgrade (without request body) are generated and modelled; an h2c request the stream answers by itself during shutdown is not",
                "transport back-pressure (peer not reading) is generated on HTTP/1 and WebSocket connections only",
                "HTTP/2: bytes that had arrived before the server's own close and are handed to the reader after it (timeout 0 racing the first read on trio) are judged by the monitors only: what follows is a failed flush, and HTTP/2 flushes are not observed",
                "F95 (known): the prior-knowledge preface restarts the idle timer; F96 (known): asyncio close() does not release a writer waiting in drain(); F97 (known): peer EOF while a write is held up closes nothing"],
    "assumptions": ["a stream whose disconnect was handed over (peer left / reset) no longer counts as a request in progress",
                    "peer loss counts from the instant the client acted; the handler must finish by max(that, last application return)"],
}

EPS = 0.001


def monitor(ctx: Ctx, case: dict, sc: dict, an: dict) -> None:
    T = an["T"]
    busy = K.busy_intervals(an)
    end = an["end"]
    blocked = [p[1] for p in an["blocked_puts"]]
    # facts that identify the two known causes of a connection that is never closed / released
    rejected_ws_waiting = any(x["kind"] == "ws" and any(a[1] is not None and a[1] >= 400 for a in x["access"]) and x["app"] is not None
                              and (x["disc_at"] is None or x["t_exit"] is None or x["t_exit"] >= x["disc_at"]) and not any(s[1] == "websocket.accept" for s in x["sends"])
                              for x in an["instances"].values())
    sig0 = {"proto": sc["proto"], "blocked_put": ("disconnect" if "disconnect" in blocked else ("data" if blocked else None)),
            "rejected_ws_app_waiting": rejected_ws_waiting}
    # (1) never armed while busy: positive-length overlap of a timer wait with a request in progress
    for a, b in an["waits"]:
        bb = end if b is None else b
        for s, e, i in busy:
            ee = end if e is None else e
            lo, hi = max(a, s), min(bb, ee)
            if hi - lo > 0:
                ctx.violation("timer_armed_while_busy", case, {"wait": [a, b], "busy": [s, e, i]}, {**sig0, "kind": an["instances"][i]["kind"]})
    # … and no close caused by the timer inside a request
    c = an["closed_at"]
    if c is not None and any(b == c and b - a == T for a, b in an["waits"] if b is not None):
        for s, e, i in busy:
            if s < c and (e is None or c < e):
                ctx.violation("timed_out_while_busy", case, {"closed_at": c, "busy": [s, e, i]}, {**sig0, "kind": an["instances"][i]["kind"]})
    # (2) idle for T => closed at exactly idle start + T (at once when shutdown has begun)
    conn_end = min([t for t in (an["closed_at"], an["read_gone_at"]) if t is not None] or [end])
    edges = sorted([[s, end if e is None else e] for s, e, _ in busy])
    idle: List[list] = []
    cur = 0
    for s, e in edges:
        if s > cur:
            idle.append([cur, min(s, conn_end)])
        cur = max(cur, e)
    if cur < conn_end:
        idle.append([cur, conn_end])
    for s, e in idle:
        if s >= conn_end:
            continue
        after = "start" if s == 0 else "request"
        if e - s > T:
            # cleartext HTTP/2 by prior knowledge: was the idle period within T when counted from the arrival of the preface
            # line (which itself arrived before the deadline)?  Then the preface restarted the timer (known: F95)
            pa = an.get("preface_at")
            restarted = bool(an.get("via") == "prior" and pa is not None and s < pa <= s + T and e - pa <= T)
            ctx.violation("idle_not_closed", case, {"idle": [s, e], "T": T, "closed_at": an["closed_at"], "preface_at": pa},
                          {**sig0, "after": after, "restarted_by_preface": restarted})
        term = an["terminated_at"]
        if term is not None and e > max(s, term) and e == conn_end:
            ctx.violation("not_closed_at_shutdown", case, {"idle": [s, e], "terminated_at": term}, sig0)
    # (3) an expiry closes at exactly start + T
    for a, b in an["waits"]:
        if b is None and a + T < end and an["closed_at"] is None:
            ctx.violation("timer_never_fired", case, {"wait": [a, b], "T": T}, sig0)
        if b is not None and b - a == T and (an["closed_at"] is None or an["closed_at"] > b) and (an["terminated_at"] is None):
            # the wait ended by timeout (not by a stop at the same instant: then a head completed at b)
            if not any(x["head_at"] == b for x in an["instances"].values()):
                ctx.violation("expiry_did_not_close", case, {"wait": [a, b], "closed_at": an["closed_at"]}, sig0)
        if b is not None and b - a > T:
            ctx.violation("timer_late", case, {"wait": [a, b], "T": T}, sig0)
    # (4) released: peer gone / server closed, applications returned => handler finished, transport closed, nothing alive
    # (the server has decided to close once it has begun to: its first write_eof / send_eof / close / aclose call on the transport)
    gone = [t for t in (an["client"]["gone_at"], an["closed_at"], an.get("close_begin_at")) if t is not None]
    if gone:
        t_gone = min(gone)
        apps = [x for x in an["instances"].values() if x["app"] is not None]
        stuck_apps = [x["i"] for x in apps if x["t_exit"] is None]
        held = [[x["i"], x["in_send"]] for x in apps if x["t_exit"] is None and x.get("in_send") is not None]
        t_apps = max([x["t_exit"] for x in apps if x["t_exit"] is not None] or [0])
        sig = dict(sig0)
        if held and not blocked and end - t_gone >= 1000:
            # an application that has not returned because the SERVER has not answered its `send()` - seconds after the
            # connection was given up - is not an application that keeps the connection: the server holds it
            ctx.violation("released", case, {"gone_at": t_gone, "close_begun_at": an.get("close_begin_at"), "closed_at": an["closed_at"], "held_in_send": held,
                                             "done_at": an["done_at"], "observed_until": end},
                          {**sig, "why": "application_held_in_send", "worker": case.get("worker"), "server_close_begun": an.get("close_begin_at") is not None})
        elif stuck_apps and not blocked:
            # an application that has not returned (it waits for a disconnect the server cannot know about: the reader is parked
            # behind this very request and nothing is written) - the statement speaks of what follows the applications' return
            ctx.count("not_judged", "application_never_returned")
        elif an["done_at"] is None:
            ctx.violation("released", case, {"gone_at": t_gone, "apps_returned_at": t_apps, "apps_stuck": stuck_apps, "done_at": None, "closed_at": an["closed_at"],
                                             "blocked_puts": an["blocked_puts"]}, {**sig, "why": "handler_never_finished"})
        else:
            if an["done_at"] > max(t_gone, t_apps):
                ctx.violation("released", case, {"gone_at": t_gone, "apps_returned_at": t_apps, "done_at": an["done_at"]}, {**sig, "why": "handler_lingers"})
            if an["closed_at"] is None or an["closed_at"] > an["done_at"]:
                ctx.violation("released", case, {"done_at": an["done_at"], "closed_at": an["closed_at"]}, {**sig, "why": "transport_not_closed"})
            if an["live_tasks"]:
                ctx.violation("released", case, {"live_tasks": an["live_tasks"]}, {**sig, "why": "task_outlives_connection"})
    if an["error"] or an["loop_errors"]:
        ctx.violation("handler_exception", case, {"error": an["error"], "loop": an["loop_errors"]}, {**sig0, "error": str(an["error"])})


# keep_alive_timeout values: 0 (keep-alive disabled: an idle connection is closed at once), the smallest positive one the virtual
# clocks resolve, ordinary ones, and one far beyond any history (115 days)
TIMEOUTS = (0, 0.001, 0.01, 1, 5, 3600, 10 ** 7)


def grid(ctx: Ctx) -> List[dict]:
    out = []
    for T in TIMEOUTS:
        for h in K.canonical(T):
            n = len(h["client"])
            for pos in range(n + 1):
                for d in sorted({max(T - EPS, 0), T, T + EPS}):
                    for then in (None, "eof"):
                        c = K.with_pause({**h, "family": "canonical"}, pos, d, then)
                        c["key"] = [h["name"], pos, d, then, T]
                        out.append(c)
    return out


def gen(ctx: Ctx, n: int) -> List[dict]:
    cases = []
    for k in range(n):
        T = ctx.rng.choice([0.01, 1, 1, 5, 5, 3600, 0, 0.001, 10 ** 7])
        fam = ctx.rng.choice(["h1", "h1", "ws", "h2"])
        sc = K.gen_h2(ctx.rng, T, shutdown=True) if fam == "h2" else {"h1": K.gen_h1, "ws": K.gen_ws}[fam](ctx.rng, T)
        if T <= 0.001 and sc["client"] and sc["client"][0][0] in ("send", "h2req", "h2preface") and ctx.rng.random() < 0.7:
            # with a timeout of (about) 0 a request is only served if it arrived with the connection
            sc["preload"] = 1
            sc["sched"] = ctx.rng.randrange(8)
        sc["family"] = fam
        sc["key"] = k
        cases.append(sc)
    return cases


def run(ctx: Ctx) -> None:
    g = grid(ctx)
    ctx.extra["grid_size"] = len(g)
    if not ctx.thorough:
        # every quick run contains the late-finish histories (an abandoned stream whose application ends later must not prolong idleness)
        must = [c for c in g if c["key"][0] in ("h2_rst_late_finish", "h1_reset_late_finish", "h2_prior_slow", "h2_prior_preface_then_slow", "h2_slow", "h2_prior_late_preface", "h2c_slow", "h2c_then_get",
                                                "pipelined_abandoned")
                and c["key"][4] == 1 and c["key"][2] == 1 + EPS and c["key"][3] is None]
        # … and the partial pipelined heads: the pause (T + eps) follows the partial head, which arrived while the first request was
        # being answered; every cut point, the two arrival variants alternating
        must += [c for c in g if c["key"][0].startswith("pipelined_partial_head") and c["key"][4] == 1 and c["key"][2] == 1 + EPS and c["key"][3] is None
                 and c["key"][1] == len(c["client"]) - 3 and (int(c["key"][0].split("@")[1]) % 2 == 0) == ("one_read" in c["key"][0])]
        # … shutdown beginning while a request / the last HTTP/2 stream / a WebSocket is in progress (the pause behind the request)
        must += [c for c in g if ("shutdown" in c["key"][0]) and c["key"][4] == 1 and c["key"][2] == 1 + EPS and c["key"][3] is None
                 and c["key"][1] == len(c["client"]) - 3]
        # … the boundary timeouts: keep-alive disabled (0) - every canonical history, sent after the accept and (what makes a
        # difference then) with its first bytes already there at the accept - and the pause at the end of a few histories for 1 ms
        # and for the very long timeout
        must += [c for c in g if c["key"][4] == 0 and "@" not in c["key"][0] and c["key"][2] == EPS and c["key"][3] is None
                 and c["key"][1] == len(c["client"]) - 3]
        must += [c for c in g if c["key"][4] in (0.001, 10 ** 7) and c["key"][0] in ("nothing", "get", "h2_get", "get+preloaded", "h2_shutdown_inflight")
                 and c["key"][2] == c["key"][4] + EPS and c["key"][3] is None and c["key"][1] == len(c["client"]) - 3]
        rest = [c for c in g if c not in must]
        ctx.rng.shuffle(rest)
        g = must + rest[:240]
    ctx.exhaustive = ctx.thorough
    for c in g:
        ctx.count("canonical", c["key"][0].split("@")[0])
        ctx.count("pause", "T-eps" if c["key"][2] < c["T"] else ("T" if c["key"][2] == c["T"] else "T+eps"))
        ctx.distinct(c["key"])
    ctx.sample({"canonical": g[0]["key"], "client": [a[0] for a in g[0]["client"]]} if g else {}, cap=1)
    K.run_cases(ctx, g, monitor)
    # the peer does not read: the server decides to close / the peer leaves while an application's write is held up
    bw = K.blocked_write_corpus()
    for c in bw:
        ctx.count("blocked_write", c["key"][2])
        ctx.distinct(c["key"])
    K.run_cases(ctx, bw, monitor)
    rnd = gen(ctx, ctx.budget(150, 5000))
    for c in rnd:
        ctx.count("family", c["family"])
        ctx.sample({"family": c["family"], "T": c["T"], "client": [a[0] for a in c["client"]]}, cap=3)
    K.run_cases(ctx, rnd, monitor)


def replay(ctx: Ctx, case: dict) -> None:
    w = case.get("worker")
    K.run_cases(ctx, [{k: v for k, v in case.items() if k != "worker"}], monitor, workers=(w,) if w else ("asyncio", "trio"))
