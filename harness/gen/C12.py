"""C12 — invalid application messages are rejected without corrupting the wire.

Runner: direct drive of the real HTTPStream / WSStream (recording `send`, recording logger), every sequence over the
ASGI send alphabet with valid and invalid payloads; each step is compared with the Lean model and judged by an
independent reference automaton of the ASGI specification (below, in Python).
Family `wire`: the push and early-hint messages again with the real protocol object under the stream (H2Protocol: server push,
PUSH_PROMISE, the pushed stream; H11Protocol on HTTP/1.0 / 1.1, where neither exists) and an independent client parser reading
the bytes: what is raised into the application, what each message puts on the wire, and the response that follows."""
from __future__ import annotations

import itertools
from typing import Any, Dict, List, Optional, Tuple

from ..core import clients as C
from ..core import h2raw as RH
from ..core import streams as S
from ..core.framework import Ctx

SPEC = {
    "modules": ["HC.Props.C12"],
    "extracted": ["Guards", "Consts", "WsGuards", "AppExit"],
    "technique": "Lean 4 theorems over Except-valued transducer models of HTTPStream.app_send / WSStream.app_send (reject = no-op, one final head, end once, no CTL bytes — for arbitrary message sequences, by budget/potential induction) + differential execution of model and real stream objects on every short sequence of the ASGI send alphabet",
    "level_text": "Proved in Lean for ARBITRARY message sequences (any length, any payloads): a message in a state the reference automaton forbids is rejected with the state and the wire untouched; an invalid payload (non-bytes or pseudo header names/values, CR/LF/NUL, non-str push path or text frame) is rejected before anything is emitted; at most one final response head, at most one response start of ANY status (an accepted http.response.start with an interim status 1xx moves the request to RESPONSE exactly like a final one, so a second start raises - for the model, and for the statement order of the start branch read off the source, in which a conditional state assignment is not a recognised shape) and one end-of-body per request; nothing follows the end of the response; no CR, LF or NUL of an application header reaches the protocol layer.  The HTTP reference automaton keeps its own state (it does not follow the implementation's): any accepted start is the response start.  The model is tied to the code by running every sequence up to length 3 (thorough: 4, sampled 5) over the alphabet x payload variants on the real HTTPStream and WSStream objects, step by step (events, exception class, state); the WebSocket sequences are run against every kind of handshake (subprotocols offered, one offered, an empty Sec-WebSocket-Protocol header, no such header) and the guard that decides which subprotocol of websocket.accept is refused is regenerated from the source (HC/Extracted/WsGuards.lean) and proved to be the model's.",
    "level_note": "Trusted: Lean kernel; hand-written models HC/Stream/{Http,Ws}.lean tied by differential testing; extracted suppress_body / version sets; wsproto's LocalProtocolError conditions (connection-state machine) modelled and sampled; h11's own header validation is library behaviour.  'Raises' means any exception out of send().  http.response.trailers before the response start is treated as unspecified by the monitor (the code accepts it on HTTP/2; see DESIGN.md).",
    "rule": "exhaustive enumeration of sequences over the per-protocol alphabet (message type x payload variant) - WebSocket: x handshake kind (what the client offered as subprotocols) -, quick: all of length <= 2 and a sample of length 3; thorough: all <= 3 and samples of 4-5; distinct = distinct sequences of (type, payload-class); non-trivial = contains at least one message that the reference automaton rejects; family wire (the real HTTPStream under the real H2Protocol / H11Protocol, an independent client parser on the other side): state of the response (before the start, started, a chunk sent, complete, trailers outstanding) x push / early-hint message (every payload variant; singly, an invalid one between valid ones) x what the client said about push x sender (a client stream / a pushed stream) on HTTP/2, and x {HTTP/1.0, HTTP/1.1} x {message, InformationalResponse event handed to the protocol} x {a second request follows} on HTTP/1",
    "trusted": ["wsproto Connection.send state conditions (OPEN / *_CLOSING) as modelled in HC.Stream.Ws.connSend"],
    "partial": ["http trailers-before-start (HTTP/2+) is outside the reject_iff theorem: the code deliberately accepts it (trailers-only response)"],
    "assumptions": ["header lists are lists of 2-tuples; messages are dicts (other shapes are outside the ASGI send alphabet)"],
}

OKH = [(b"x-a", b"1")]
BAD_HEADERS = {
    "str_name": [("x", b"v")], "str_value": [(b"n", "v")], "pseudo": [(b":status", b"200")], "int_value": [(b"n", 3)],
    "crlf_value": [(b"n", b"a\r\nset-cookie: x")], "nul_name": [(b"n\x00", b"v")], "empty_name": [(b"", b"v")], "lf_value": [(b"n", b"a\nb")],
    "none_value": [(b"n", None)],
    # what the server strips before sending is part of the name it sends: a pseudo header / an empty name hidden behind whitespace
    "sp_pseudo": [(b" :status", b"200")], "tab_pseudo": [(b"\t:path", b"/x")], "blank_name": [(b"  ", b"v")],
    # a field name is a token (RFC 9110 5.1): anything else cannot be framed - h11 refuses it, on HTTP/2 it is a connection error at the peer
    "space_name": [(b"bad name", b"v")], "colon_name": [(b"x:y", b"v")], "nonascii_name": [(b"caf\xe9", b"v")], "ctl_name": [(b"a\x01b", b"v")],
    "sep_name": [(b"x(y)", b"v")],
}
TOKEN = frozenset(b"!#$%&'*+-.^_`|~0123456789ABCDEFGHIJKLMNOPQRSTUVWXYZabcdefghijklmnopqrstuvwxyz")
CTL = (0, 10, 13)


def http_alphabet(version: str) -> List[Tuple[str, dict]]:
    a: List[Tuple[str, dict]] = [
        ("start:ok", {"type": "http.response.start", "status": 200, "headers": OKH}),
        ("start:trailers", {"type": "http.response.start", "status": 200, "headers": OKH, "trailers": True}),
        ("start:204", {"type": "http.response.start", "status": 204, "headers": []}),
        ("start:nohdr", {"type": "http.response.start", "status": 201}),
        # a response start with an interim status is still THE response start of the request: whatever follows it is
        # judged in the state after a start (a second start raises), exactly as after a final status
        ("start:100", {"type": "http.response.start", "status": 100, "headers": []}),
        ("start:102", {"type": "http.response.start", "status": 102, "headers": OKH}),
        ("start:103", {"type": "http.response.start", "status": 103, "headers": [(b"link", b"</s.css>; rel=preload")]}),
        ("start:199", {"type": "http.response.start", "status": 199, "headers": OKH, "trailers": True}),
    ]
    for k, h in BAD_HEADERS.items():
        a.append((f"start:{k}", {"type": "http.response.start", "status": 200, "headers": h}))
    a += [
        ("body:final", {"type": "http.response.body", "body": b"abc"}),
        ("body:more", {"type": "http.response.body", "body": b"x", "more_body": True}),
        ("body:empty", {"type": "http.response.body"}),
        ("body:str", {"type": "http.response.body", "body": "text"}),
        ("trailers:final", {"type": "http.response.trailers", "headers": OKH}),
        ("trailers:more", {"type": "http.response.trailers", "headers": OKH, "more_trailers": True}),
        ("trailers:crlf", {"type": "http.response.trailers", "headers": BAD_HEADERS["crlf_value"]}),
        ("push:ok", {"type": "http.response.push", "path": "/p", "headers": OKH}),
        ("push:bytes_path", {"type": "http.response.push", "path": b"/p", "headers": OKH}),
        ("push:pseudo", {"type": "http.response.push", "path": "/p", "headers": BAD_HEADERS["pseudo"]}),
        ("push:nohdr", {"type": "http.response.push", "path": "/p", "headers": []}),
        ("push:two", {"type": "http.response.push", "path": "/q?x=1", "headers": OKH + [(b"Accept", b"text/css")]}),
        ("hint:ok", {"type": "http.response.early_hint", "links": [b"</s.css>; rel=preload"]}),
        ("hint:str", {"type": "http.response.early_hint", "links": ["</s.css>"]}),
        ("hint:crlf", {"type": "http.response.early_hint", "links": [b"</s.css>\r\nx: y"]}),
        ("unknown", {"type": "http.response.zerocopysend"}),
        ("ws.send", {"type": "websocket.send", "text": "x"}),
    ]
    if version == "2":
        # the headers of a push are the application's: every kind of invalid name / value (the HTTP/1 alphabet has the three above:
        # there a push is refused for its version before its payload is looked at)
        a += [(f"push:{k}", {"type": "http.response.push", "path": "/p", "headers": h}) for k, h in BAD_HEADERS.items() if k != "pseudo"]
        a += [("push:int_path", {"type": "http.response.push", "path": 7, "headers": OKH}), ("push:no_path", {"type": "http.response.push", "headers": OKH})]
    return a


def ws_alphabet() -> List[Tuple[str, dict]]:
    a: List[Tuple[str, dict]] = [
        ("accept:ok", {"type": "websocket.accept"}),
        ("accept:sub_ok", {"type": "websocket.accept", "subprotocol": "chat"}),
        ("accept:sub_bad", {"type": "websocket.accept", "subprotocol": "nope"}),
        # the subprotocol becomes a header value without passing through the header validation
        ("accept:sub_crlf", {"type": "websocket.accept", "subprotocol": "chat\r\nset-cookie: x=1"}),
        ("accept:sub_empty", {"type": "websocket.accept", "subprotocol": ""}),
        ("accept:hdr", {"type": "websocket.accept", "headers": [(b"x-extra", b"1")]}),
        ("accept:hdr_proto", {"type": "websocket.accept", "headers": [(b"sec-websocket-protocol", b"chat")]}),
        ("accept:hdr_pseudo", {"type": "websocket.accept", "headers": [(b":status", b"200")]}),
        ("accept:hdr_sp_pseudo", {"type": "websocket.accept", "headers": [(b" :status", b"200")]}),
        ("accept:hdr_sp_proto", {"type": "websocket.accept", "headers": [(b" sec-websocket-protocol", b"chat")]}),
        ("accept:hdr_blank", {"type": "websocket.accept", "headers": [(b" ", b"v")]}),
        ("accept:hdr_space", {"type": "websocket.accept", "headers": [(b"bad name", b"v")]}),
        ("accept:hdr_nonascii", {"type": "websocket.accept", "headers": [(b"caf\xe9", b"v")]}),
        ("accept:hdr_crlf", {"type": "websocket.accept", "headers": [(b"x-extra", b"1\r\nx: y")]}),
        ("send:text", {"type": "websocket.send", "text": "hi"}),
        ("send:bytes", {"type": "websocket.send", "bytes": b"\x00\x01"}),
        ("send:text_bytes", {"type": "websocket.send", "text": b"hi"}),
        ("send:text_int", {"type": "websocket.send", "bytes": None, "text": 5}),
        ("close", {"type": "websocket.close"}),
        ("close:code", {"type": "websocket.close", "code": 3000}),
        # payloads no close frame can be built from (int() / wsproto's serialisation refuse them while CONNECTED; F63)
        ("close:code_str", {"type": "websocket.close", "code": "abc"}),
        ("close:code_big", {"type": "websocket.close", "code": 70000}),
        ("close:reason_int", {"type": "websocket.close", "code": 1000, "reason": 5}),
        ("rstart:ok", {"type": "websocket.http.response.start", "status": 401, "headers": OKH}),
        ("rstart:crlf", {"type": "websocket.http.response.start", "status": 401, "headers": BAD_HEADERS["crlf_value"]}),
        ("rstart:str", {"type": "websocket.http.response.start", "status": 401, "headers": BAD_HEADERS["str_value"]}),
        ("rbody:final", {"type": "websocket.http.response.body", "body": b"no"}),
        ("rbody:more", {"type": "websocket.http.response.body", "body": b"n", "more_body": True}),
        ("rbody:str", {"type": "websocket.http.response.body", "body": "text"}),
        ("unknown", {"type": "websocket.foo"}),
        ("http.start", {"type": "http.response.start", "status": 200, "headers": []}),
    ]
    return a


# --------------------------------------------------------------------------------------------------------------
# reference automaton (independent of the model): None = unspecified, True = must be accepted, False = must raise
# --------------------------------------------------------------------------------------------------------------
def headers_ok(hs) -> bool:
    for n, v in hs:
        if not isinstance(n, (bytes, bytearray)) or not isinstance(v, (bytes, bytearray)):
            return False
        sent = bytes(n).strip()          # the name as the server would put it on the wire
        if len(sent) == 0 or sent[:1] == b":":
            return False
        if any(c not in TOKEN for c in sent):
            return False
        if any(c in CTL for c in bytes(n)) or any(c in CTL for c in bytes(v)):
            return False
    return True


class HttpRef:
    def __init__(self, version: str) -> None:
        self.st = "REQUEST"
        self.h2 = version in ("2", "3")
        self.trailers = False

    def judge(self, m: dict) -> Optional[bool]:
        t = m["type"]
        if self.st == "CLOSED":
            return False
        if t == "http.response.start":
            return self.st == "REQUEST" and headers_ok(m.get("headers", [])) and isinstance(m.get("status"), int)
        if t == "http.response.body":
            if self.st != "RESPONSE":
                return False
            return None if isinstance(m.get("body", b""), str) else True
        if t == "http.response.trailers":
            if not self.h2:
                return False
            if self.st == "TRAILERS":
                return headers_ok(m.get("headers", [])) or None
            return None      # before the start / before the body completed: unspecified here
        if t == "http.response.push":
            if not self.h2:
                return False
            return isinstance(m.get("path"), str) and headers_ok(m.get("headers", []))
        if t == "http.response.early_hint":
            if not self.h2 or self.st != "REQUEST":
                return False
            return all(isinstance(x, (bytes, bytearray)) and not any(c in CTL for c in bytes(x)) for x in m.get("links", []))
        return False

    def advance(self, m: dict, impl_state: str, accepted: bool = True, verdict: Optional[bool] = True) -> None:
        """The automaton's OWN successor state (it does not follow the implementation): a refused message changes nothing;
        ANY accepted start - whatever its status, interim ones included - is the response start; the final body ends the
        response or, when trailers were announced, opens the trailers; the final trailers end it.  Only where the automaton
        does not say whether the message is valid (verdict None: trailers before the start / before the end of the body,
        a str body) does it go where the implementation went."""
        if not accepted:
            return
        t = m["type"]
        if verdict is None:
            self.st = impl_state
        elif t == "http.response.start":
            self.st = "RESPONSE"
            self.trailers = bool(m.get("trailers", False))
        elif t == "http.response.body" and not m.get("more_body", False):
            self.st = "TRAILERS" if self.trailers else "CLOSED"
        elif t == "http.response.trailers" and not m.get("more_trailers", False):
            self.st = "CLOSED"


def offered_subprotocols(headers) -> Optional[List[str]]:
    """what the client offered (RFC 6455 4.2.1 item 8: a comma separated list; the last header counts, as for the server);
    None = no Sec-WebSocket-Protocol header in the handshake"""
    vals = [v for n, v in headers if n.lower() == b"sec-websocket-protocol"]
    if not vals:
        return None
    return [t.strip() for t in vals[-1].decode("ascii").split(",")]


class WsRef:
    def __init__(self, offered: Optional[List[str]] = ("chat", "superchat")) -> None:
        self.st = "HANDSHAKE"
        self.have_resp = False
        self.offered = offered

    def judge(self, m: dict) -> Optional[bool]:
        t = m["type"]
        if self.st in ("CLOSED", "HTTPCLOSED"):
            return False
        if t == "websocket.accept":
            if self.st != "HANDSHAKE":
                return False
            sp = m.get("subprotocol")
            hs = m.get("headers", [])
            # RFC 6455 4.2.2 /subprotocol/: "a value taken from the client's handshake"; nothing else may be named
            sp_ok = sp is None or (isinstance(sp, str) and self.offered is not None and sp in self.offered and not any(ord(c) in CTL for c in sp))
            return sp_ok and headers_ok(hs) and not any(bytes(n).strip() == b"sec-websocket-protocol" for n, _ in hs)
        if t == "websocket.close":
            if self.st not in ("HANDSHAKE", "CONNECTED"):
                return False
            code, reason = m.get("code", 1000), m.get("reason")
            well_formed = isinstance(code, int) and 0 <= code <= 65535 and (reason is None or isinstance(reason, str))
            # a code / reason outside the ASGI types: unspecified here (the code is not even looked at when the close
            # answers the handshake with 403); whatever the server decides, a refusal must be a no-op (`reject_not_noop`)
            return True if well_formed else None
        if t == "websocket.send":
            if self.st != "CONNECTED":
                return False
            if m.get("bytes") is not None:
                return isinstance(m["bytes"], (bytes, bytearray))
            return isinstance(m.get("text"), str)
        if t == "websocket.http.response.start":
            return None if self.st == "HANDSHAKE" else False      # payload is only looked at when the body arrives
        if t == "websocket.http.response.body":
            if isinstance(m.get("body", b""), str):
                return False if self.st in ("RESPONSE", "HANDSHAKE") else False
            if self.st == "RESPONSE":
                return True
            if self.st == "HANDSHAKE":
                return None if not self.have_resp else None
            return False
        return False

    def advance(self, m: dict, impl_state: str) -> None:
        if m["type"] == "websocket.http.response.start" and self.st == "HANDSHAKE":
            self.have_resp = True
        self.st = impl_state


WS_HEADERS = [(b"host", b"x"), (b"upgrade", b"websocket"), (b"connection", b"upgrade"), (b"sec-websocket-key", b"dGhlIHNhbXBsZSBub25jZQ=="),
              (b"sec-websocket-version", b"13"), (b"sec-websocket-protocol", b"chat, superchat")]
# what the client says about subprotocols in its handshake (None: no Sec-WebSocket-Protocol header at all)
WS_OFFERS: Dict[str, Optional[bytes]] = {"offer": b"chat, superchat", "none": None, "empty": b"", "single": b"chat", "other": b"superchat,v2"}


def ws_init(version: str, offer: str = "offer") -> dict:
    hs = [h for h in WS_HEADERS if h[0] != b"sec-websocket-protocol"]
    if WS_OFFERS[offer] is not None:
        hs.append((b"sec-websocket-protocol", WS_OFFERS[offer]))
    if version != "1.1":
        hs = [h for h in hs if h[0] not in (b"upgrade", b"connection", b"sec-websocket-key")]
    return {"version": version, "headers": hs}


def _classes(seq) -> List[str]:
    return [k for k, _ in seq]


def check_http(ctx: Ctx, version: str, seqs: List[List[Tuple[str, dict]]]) -> None:
    init = {"method": "GET", "version": version, "scheme": "http", "headers": [(b"host", b"x"), (b"te", b"trailers")]}

    async def runall():
        out = []
        for seq in seqs:
            ops = [{"send": dict(m)} for _, m in seq]
            out.append(await S.drive_http(init, ops))
        return out

    obs = S.run(runall())
    model = ctx.model([S.http_model_req(init, [{"send": m} for _, m in seq]) for seq in seqs])
    for i, (seq, steps) in enumerate(zip(seqs, obs)):
        ctx.evaluations += 1
        case = {"family": "http", "version": version, "seq": _classes(seq)}
        ref = HttpRef(version)
        finals, heads, ended, nontriv = 0, 0, False, False
        impl_st = "REQUEST"
        for k, ((cls, m), o) in enumerate(zip(seq, steps)):
            want = ref.judge(m)
            raised = o["error"] is not None
            if m["type"] == "http.response.start":
                ctx.count(f"http{version}.start_status_class", f"{int(m['status']) // 100}xx in {ref.st}")
            ctx.count(f"http{version}.verdict", {None: "unspecified", True: "valid", False: "invalid"}[want])
            if want is False:
                nontriv = True
            sig = {"family": "http", "version": version, "msg": cls, "state": ref.st}
            if want is False and not raised:
                ctx.violation("invalid_accepted", {**case, "at": k}, o, sig)
            if want is True and raised:
                ctx.violation("valid_rejected", {**case, "at": k}, o, sig)
            if raised and (o["events"] or o["state"] != impl_st):
                ctx.violation("reject_not_noop", {**case, "at": k}, o, sig)
            for ev in o["events"]:
                if ev[0] == "response" and m["type"] == "http.response.start":
                    heads += 1
                if ev[0] in ("response", "info", "trailers", "push"):
                    hs = ev[-1]
                    if any(ord(c) in CTL for n, v in hs for c in n + v):
                        ctx.violation("ctl_in_headers", {**case, "at": k}, ev, {"family": "http", "version": version, "msg": cls})
                if ended and ev[0] not in ("streamClosed", "access"):
                    ctx.violation("event_after_end", {**case, "at": k}, ev, sig)
                if ev[0] == "response" and ev[1] >= 200:
                    finals += 1
                if ev[0] == "endBody":
                    if ended:
                        ctx.violation("end_twice", {**case, "at": k}, o, sig)
                    ended = True
            ref.advance(m, o["state"], not raised, want)
            impl_st = o["state"]
        if finals > 1:
            ctx.violation("two_final_heads", case, steps, {"family": "http", "version": version})
        if heads > 1:
            # every accepted http.response.start is the one response start of its request, whatever its status
            ctx.violation("two_response_starts", case, steps, {"family": "http", "version": version})
        if nontriv:
            ctx.distinct(["http", version] + _classes(seq))
        ctx.sample(case, cap=2)
        if model is not None:
            ctx.disagreements_checked += 1
            mo = model[i].get("ok")
            impl = [S.http_obs_for_compare(o, True) for o in steps]
            if mo is None or [{k2: v for k2, v in x.items() if k2 != "puts"} for x in mo] != impl:
                ctx.disagree("stream.http", case, model[i], impl)


def check_ws(ctx: Ctx, version: str, seqs: List[List[Tuple[str, dict]]], offer: str = "offer") -> None:
    init = ws_init(version, offer)
    offered = offered_subprotocols(init["headers"])

    async def runall():
        out = []
        for seq in seqs:
            out.append(await S.drive_ws(init, [{"send": dict(m)} for _, m in seq]))
        return out

    obs = S.run(runall())
    model = ctx.model([S.ws_model_req(init, [{"send": m} for _, m in seq], lib) for seq, (_, lib) in zip(seqs, obs)])
    for i, (seq, (steps, lib)) in enumerate(zip(seqs, obs)):
        ctx.evaluations += 1
        case = {"family": "ws", "version": version, "seq": _classes(seq)}
        if offer != "offer":
            case["offer"] = offer
        ctx.count(f"ws{version}.handshake_subprotocols", offer)
        ref = WsRef(offered)
        finals, nontriv = 0, False
        for k, ((cls, m), o) in enumerate(zip(seq, steps[1:])):
            want = ref.judge(m)
            raised = o["error"] is not None
            ctx.count(f"ws{version}.verdict", {None: "unspecified", True: "valid", False: "invalid"}[want])
            if want is False:
                nontriv = True
            sig = {"family": "ws", "version": version, "msg": cls, "state": ref.st}
            if offer != "offer":
                sig["offer"] = offer
            if want is False and not raised:
                ctx.violation("invalid_accepted", {**case, "at": k}, o, sig)
            if want is True and raised:
                ctx.violation("valid_rejected", {**case, "at": k}, o, sig)
            if raised and (o["events"] or o["state"] != ref.st):
                ctx.violation("reject_not_noop", {**case, "at": k}, o, sig)
            for ev in o["events"]:
                if ev[0] == "response":
                    if any(ord(c) in CTL for n, v in ev[2] for c in n + v):
                        ctx.violation("ctl_in_headers", {**case, "at": k}, ev, {"family": "ws", "version": version, "msg": cls})
                    # a subprotocol the client did not offer never appears in the response head
                    named = [v for n, v in ev[2] if n.lower() == "sec-websocket-protocol"]
                    if any(offered is None or v not in offered for v in named) or len(named) > 1:
                        ctx.violation("unoffered_subprotocol_sent", {**case, "at": k}, ev, sig)
                    finals += 1
            ref.advance(m, o["state"])
        if finals > 1:
            ctx.violation("two_final_heads", case, steps, {"family": "ws", "version": version})
        if nontriv:
            ctx.distinct(["ws", version, offer] + _classes(seq))
        ctx.sample(case, cap=4)
        if model is not None:
            ctx.disagreements_checked += 1
            mo = model[i].get("ok")
            impl = steps
            if mo is None or mo != impl:
                ctx.disagree("stream.ws", case, model[i], impl)


# --------------------------------------------------------------------------------------------------------------
# the wire: the real HTTPStream under the real H2Protocol / H11Protocol, an independent client parser on the other side
# --------------------------------------------------------------------------------------------------------------
# Set to False to leave the family out.
WIRE_FAMILY = True
# `http.response.push` whose header list passes hypercorn's own validation but is refused by h2's outbound validation while
# h2 is already encoding the block (e.g. `te: gzip`): FINDING reported in round 6 (the refusal is swallowed, nothing is written,
# but the HPACK encoder has run: the next header block of the connection is undecodable at the client).  Judged: known finding (known_findings.json), the sessions are on and carry a marked signature.
PUSH_H2_REFUSED_HEADERS = True
# `http.response.early_hint` sent by the application of a PUSHED stream before its response (the scope of a pushed request offers the
# extension): h2 refuses informational headers on a reserved stream (swallowed) and closes the stream, the pushed response that
# follows is dropped without a word, the promise is never kept nor reset.  FINDING reported in round 6.  Judged: known finding (known_findings.json), the sessions are on and carry a marked signature.
HINT_ON_PUSHED_STREAM = True
H2_REFUSED_PUSHES = [("push:te_gzip", {"type": "http.response.push", "path": "/p", "headers": [(b"te", b"gzip")]}),
                     ("push:new_then_te_gzip", {"type": "http.response.push", "path": "/p", "headers": [(b"x-new", b"v"), (b"te", b"gzip")]})]
SERVER_HEADERS = ("date", "server", "alt-svc")
WIRE_REQ_HEADERS = [(b"host", b"x"), (b"te", b"trailers")]
INFO_EVENT = {"event": "info", "status": 103, "headers": [(b"link", b"</s.css>; rel=preload")]}


def _msg(cls: str, version: str) -> Tuple[str, dict]:
    return cls, dict(http_alphabet(version) + (H2_REFUSED_PUSHES if version == "2" else []))[cls]


def _completion(state: str, version: str, trailers: bool) -> List[Tuple[str, dict]]:
    """the valid messages that complete the response from the state the application is in"""
    if state == "REQUEST":
        return [_msg("start:ok", version), _msg("body:final", version)]
    if state == "RESPONSE":
        return [_msg("body:final", version)] + ([_msg("trailers:final", version)] if trailers and version == "2" else [])
    if state == "TRAILERS":
        return [_msg("trailers:final", version)] if version == "2" else []
    return []


async def drive_h2_wire(seq: List[dict], enable_push: Optional[bool], on_pushed: bool) -> dict:
    """one GET (host x, te: trailers) on stream 1 of a real H2Protocol; `seq` = messages the application of stream 1 sends
    (`on_pushed`: stream 1 first pushes /base, the messages are then sent by the application of the PUSHED stream 2).  Per
    message: the exception raised into the application, the bytes written and what the client parsed out of them"""
    import asyncio
    from hypercorn.asyncio.worker_context import WorkerContext
    from hypercorn.config import Config
    from hypercorn.events import RawData
    from hypercorn.protocol.h2 import H2Protocol
    from hypercorn.typing import ConnectionState
    config = Config()
    config._log = S.RecLog([])  # type: ignore
    sends: Dict[int, Any] = {}
    streams: Dict[int, Any] = {}
    scopes: Dict[int, dict] = {}
    order: List[int] = []
    bg: List[Any] = []
    out = bytearray()

    class TG:
        async def spawn_app(self, app, config_, scope, send):
            sid = send.__self__.stream_id
            order.append(sid)
            sends[sid], streams[sid] = send, send.__self__
            scopes[sid] = {"method": scope["method"], "raw_path": bytes(scope["raw_path"]).decode("latin1"), "headers": S.headers_json(scope["headers"])}

            async def app_put(message):
                pass
            return app_put

        def spawn(self, func, *a):
            bg.append(asyncio.ensure_future(func(*a)))

    async def send(ev):
        if isinstance(ev, RawData):
            out.extend(ev.data)

    cl = RH.RogueH2(enable_push=enable_push)
    steps: List[dict] = []
    try:
        proto = H2Protocol(object(), config, WorkerContext(None), TG(), ConnectionState({}), False, ("127.0.0.1", 1), ("10.0.0.1", 80), send)

        async def settle() -> int:
            for _ in range(10):
                await asyncio.sleep(0)
            n = len(out)
            cl.feed(bytes(out))
            del out[:]
            return n

        await proto.initiate()
        await proto.handle(RawData(cl.out()))
        await settle()
        cl.request(C.h2_headers("GET", "/", extra=[(b"te", b"trailers")]))
        await proto.handle(RawData(cl.out()))
        await settle()
        target = 1
        if on_pushed:
            await sends[1]({"type": "http.response.push", "path": "/base", "headers": list(WIRE_REQ_HEADERS[1:])})
            await settle()
            target = 2
        for m in seq:
            if target not in sends:
                break
            n_fr, n_pr, n_inst = len(cl.frames), len(cl.promises), len(order)
            err = None
            try:
                await sends[target](dict(m))
            except Exception as e:  # noqa - raised into the application
                err = type(e).__name__
            wrote = await settle()
            steps.append({"error": err, "state": streams[target].state.name, "wrote": wrote, "frames": [list(f) for f in cl.frames[n_fr:]],
                          "promises": [{"parent": p_["parent"], "promised": p_["promised"], "headers": S.headers_json(p_["headers"])} for p_ in cl.promises[n_pr:]],
                          "instances": order[n_inst:], "parse_error": cl.parse_error})
        # every other application instance (stream 1 when the pushed stream was the subject, every pushed stream) answers
        for sid in list(order):
            if sid != target and streams[sid].state.name == "REQUEST":
                try:
                    await sends[sid]({"type": "http.response.start", "status": 200, "headers": [(b"x-sid", b"%d" % sid)]})
                    await sends[sid]({"type": "http.response.body", "body": b"sid%d" % sid})
                except Exception:  # noqa - judged at the client
                    pass
                await settle()
        await settle()
    finally:
        for t_ in bg:
            t_.cancel()
        for t_ in bg:
            try:
                await t_
            except BaseException:  # noqa
                pass
    return {"steps": steps, "target": target, "instances": order, "scopes": scopes, "parse_error": cl.parse_error,
            "streams": {k: dict(v) for k, v in cl.streams.items()},
            "heads": {k: [[e, S.headers_json(hs)] for e, hs in v] for k, v in cl.heads.items()},
            "promises": [{"parent": p_["parent"], "promised": p_["promised"], "headers": S.headers_json(p_["headers"])} for p_ in cl.promises]}


async def drive_h1_wire(version: str, ops: List[dict], second: bool) -> dict:
    """one GET on a real H11Protocol (HTTP/1.0 or 1.1); ops: {"send": message} = the application sends it, {"event": "info", …} =
    an `InformationalResponse` event (what an HTTP stream emits for early hints) is handed to the protocol's `stream_send` as
    the stream would; `second`: when the response is complete a second request follows on the connection (1.1) and is answered"""
    import asyncio
    from hypercorn.asyncio.worker_context import WorkerContext
    from hypercorn.config import Config
    from hypercorn.events import Closed, RawData
    from hypercorn.protocol.events import InformationalResponse
    from hypercorn.protocol.h11 import H11Protocol
    from hypercorn.typing import ConnectionState
    config = Config()
    config._log = S.RecLog([])  # type: ignore
    apps: List[Any] = []
    out = bytearray()
    closed = [False]
    tasks: List[Any] = []

    class TG:
        async def spawn_app(self, app, config_, scope, send):
            apps.append(send.__self__)

            async def app_put(message):
                pass
            return app_put

        def spawn(self, func, *a):
            tasks.append(asyncio.ensure_future(func(*a)))

    async def send(ev):
        if isinstance(ev, RawData):
            out.extend(ev.data)
        elif isinstance(ev, Closed):
            closed[0] = True

    async def settle() -> None:
        for _ in range(8):
            await asyncio.sleep(0)

    steps: List[dict] = []
    try:
        proto = H11Protocol(object(), config, WorkerContext(None), TG(), ConnectionState({}), False, ("127.0.0.1", 1), ("10.0.0.1", 80), send)
        req = b"GET / HTTP/" + version.encode() + b"\r\nhost: x\r\nte: trailers\r\n\r\n"
        tasks.append(asyncio.ensure_future(proto.handle(RawData(req))))
        await settle()
        stream = apps[0]
        for op in ops:
            before = len(out)
            err = None
            try:
                if "send" in op:
                    await stream.app_send(dict(op["send"]))
                else:
                    await proto.stream_send(InformationalResponse(stream_id=stream.stream_id, headers=list(op["headers"]), status_code=op["status"]))
            except Exception as e:  # noqa
                err = type(e).__name__
            await settle()
            steps.append({"error": err, "state": stream.state.name, "wrote": len(out) - before, "up_closed": closed[0]})
        n_first = len(out)
        second_done = False
        if second and not closed[0] and stream.state.name == "CLOSED":
            tasks.append(asyncio.ensure_future(proto.handle(RawData(b"GET /second HTTP/1.1\r\nhost: x\r\n\r\n"))))
            await settle()
            if len(apps) > 1:
                await apps[1].app_send({"type": "http.response.start", "status": 200, "headers": [(b"x-second", b"1")]})
                await apps[1].app_send({"type": "http.response.body", "body": b"second"})
                await settle()
                second_done = True
    finally:
        for t_ in tasks:
            t_.cancel()
        for t_ in tasks:
            try:
                await t_
            except BaseException:  # noqa
                pass
    return {"steps": steps, "out": bytes(out), "first_len": n_first, "second": second_done, "up_closed": closed[0], "instances": len(apps)}

WIRE_PRES = {"REQUEST": [], "RESPONSE": ["start:ok"], "RESPONSE+chunk": ["start:ok", "body:more"], "CLOSED": ["start:ok", "body:final"],
             "TRAILERS": ["start:trailers", "body:final"]}
WIRE_BODY = {"REQUEST": b"abc", "RESPONSE": b"abc", "RESPONSE+chunk": b"xabc", "CLOSED": b"abc", "TRAILERS": b"abc"}


def gen_wire(ctx: Ctx) -> List[dict]:
    rng = ctx.rng
    cases: List[dict] = []
    a2 = [k for k, _ in http_alphabet("2")]
    focus2 = [k for k in a2 if k.startswith(("push:", "hint:"))] + ([k for k, _ in H2_REFUSED_PUSHES] if PUSH_H2_REFUSED_HEADERS else [])
    bad2 = [k for k in focus2 if k.startswith("push:") and k not in ("push:ok", "push:nohdr", "push:two")]
    for pre in WIRE_PRES:
        for f in focus2:
            for enable, on_pushed in ((None, False), (False, False), (None, True)):
                if (enable is False or on_pushed) and not (ctx.thorough or f in ("push:ok", "push:two", "hint:ok") or (len(cases) + len(f)) % 3 == 0):
                    continue
                cases.append({"family": "wire", "version": "2", "pre": pre, "focus": [f], "enable_push": enable, "on_pushed": on_pushed})
        # an invalid push next to valid ones: it must neither stop the later one nor undo the earlier one
        for i, b in enumerate(bad2):
            if ctx.thorough or (i + len(pre)) % 2 == 0:
                cases.append({"family": "wire", "version": "2", "pre": pre, "focus": [b, "push:ok"] if i % 2 else ["push:ok", b, "push:two"], "enable_push": None,
                              "on_pushed": False})
        cases.append({"family": "wire", "version": "2", "pre": pre, "focus": ["push:ok", "push:two", "push:nohdr"], "enable_push": True, "on_pushed": False})
        cases.append({"family": "wire", "version": "2", "pre": pre, "focus": ["hint:ok", "push:ok", "hint:crlf", "hint:ok"], "enable_push": None, "on_pushed": False})
    for _ in range(ctx.budget(60, 1500)):
        on_pushed = rng.random() < 0.25
        cases.append({"family": "wire", "version": "2", "pre": rng.choice(list(WIRE_PRES)), "focus": [rng.choice(focus2) for _ in range(rng.choice([2, 3, 4]))],
                      "enable_push": rng.choice([None, None, True] + ([] if on_pushed else [False])), "on_pushed": on_pushed})
    if not HINT_ON_PUSHED_STREAM:
        # an early hint the stream accepts (state REQUEST) from the application of a pushed stream: see the switch
        for c in cases:
            if c["on_pushed"] and c["pre"] == "REQUEST":
                c["focus"] = [f for f in c["focus"] if f != "hint:ok"] or ["push:ok"]
    # HTTP/1.0 and 1.1: early hints and pushes do not exist there; the InformationalResponse EVENT is ignored by the protocol
    focus1 = ["hint:ok", "hint:str", "hint:crlf", "push:ok", "push:bytes_path", "push:pseudo", "event:info"]
    for version in ("1.0", "1.1"):
        for pre in ("REQUEST", "RESPONSE", "RESPONSE+chunk", "CLOSED"):
            for f in focus1:
                for second in ((False, True) if version == "1.1" and f in ("hint:ok", "event:info", "push:ok") else (False,)):
                    cases.append({"family": "wire", "version": version, "pre": pre, "focus": [f], "second": second})
            cases.append({"family": "wire", "version": version, "pre": pre, "focus": ["event:info", "event:info"], "second": version == "1.1"})
            cases.append({"family": "wire", "version": version, "pre": pre, "focus": ["hint:ok", "event:info", "push:ok"], "second": False})
        for _ in range(ctx.budget(10, 300)):
            cases.append({"family": "wire", "version": version, "pre": rng.choice(["REQUEST", "RESPONSE", "RESPONSE+chunk", "CLOSED"]),
                          "focus": [rng.choice(focus1) for _ in range(rng.choice([2, 3]))], "second": version == "1.1" and rng.random() < 0.5})
    return cases


def _app_headers_then_server(got: List[List[str]], app: List[List[str]], allow: Tuple[str, ...] = SERVER_HEADERS) -> bool:
    """the application's headers in order, followed only by the server's own"""
    return got[:len(app)] == app and all(n.lower() in allow for n, _ in got[len(app):])


def check_wire(ctx: Ctx, cases: List[dict]) -> None:
    h2cases = [c for c in cases if c["version"] == "2"]
    h1cases = [c for c in cases if c["version"] != "2"]
    runs = []
    for case in h2cases:
        trailers = case["pre"] == "TRAILERS"
        seq = [_msg(k, "2") for k in WIRE_PRES[case["pre"]] + case["focus"]]
        st = {"REQUEST": "REQUEST", "RESPONSE": "RESPONSE", "RESPONSE+chunk": "RESPONSE", "CLOSED": "CLOSED", "TRAILERS": "TRAILERS"}[case["pre"]]
        seq += _completion(st, "2", trailers)
        res = S.run(drive_h2_wire([m for _, m in seq], case.get("enable_push"), bool(case.get("on_pushed"))))
        tscope = res["scopes"].get(res["target"]) or {"headers": []}
        init = {"method": "GET", "version": "2", "scheme": "http", "headers": [(n.encode("latin1"), v.encode("latin1")) for n, v in tscope["headers"]]}
        runs.append((case, seq, res, init))
    model = ctx.model([S.http_model_req(init, [{"send": m} for _, m in seq]) for _, seq, _, init in runs])
    for i, (case, seq, res, init) in enumerate(runs):
        ctx.evaluations += 1
        ctx.count("wire.2.context", f"{case['pre']}{'/pushed stream' if case.get('on_pushed') else ''}/client push {case.get('enable_push')}")
        sig0 = {"family": "wire", "version": "2"}
        # sessions of the two round-6 findings (known_findings.json: F115, F116) are marked, so that what they show is attributed to
        # them and to nothing else
        if any(f in dict(H2_REFUSED_PUSHES) for f in case["focus"]):
            sig0["h2_refused_push"] = True
        if case.get("on_pushed") and case["pre"] == "REQUEST" and "hint:ok" in case["focus"]:
            sig0["hint_on_pushed_stream"] = True
        mo = model[i].get("ok") if model is not None else None
        if len(res["steps"]) != len(seq):
            ctx.violation("wire_session_incomplete", case, {"steps": len(res["steps"]), "messages": len(seq)}, sig0)
            continue
        ref = HttpRef("2")
        nontriv = False
        target = res["target"]
        push_allowed_here = case.get("enable_push") is not False and target % 2 == 1
        expect_promised = 2 + 2 * (1 if case.get("on_pushed") else 0)
        for k, ((cls, m), o) in enumerate(zip(seq, res["steps"])):
            want = ref.judge(m)
            raised = o["error"] is not None
            sig = {**sig0, "msg": cls, "state": ref.st}
            cs = {**case, "at": k}
            ctx.count("wire.2.verdict", {None: "unspecified", True: "valid", False: "invalid"}[want])
            if want is False:
                nontriv = True
                if not raised:
                    ctx.violation("invalid_accepted", cs, o, sig)
            if want is True and raised:
                ctx.violation("valid_rejected", cs, o, sig)
            if raised and (o["wrote"] or o["promises"] or o["instances"]):
                ctx.violation("rejected_wrote_to_wire", cs, o, sig)
            if o["parse_error"]:
                ctx.violation("wire_not_a_valid_prefix", cs, o, sig)
                break
            if m["type"] == "http.response.push" and not raised:
                ctx.count("wire.2.push", "performed" if push_allowed_here else ("client_disabled_push" if target % 2 == 1 else "pushed_from_pushed_stream"))
                if not push_allowed_here:
                    if o["wrote"] or o["promises"] or o["instances"]:
                        ctx.violation("refused_push_wrote_to_wire", cs, o, sig)
                else:
                    # what the model's stream hands to the protocol for this message is what the PUSH_PROMISE must carry
                    mev = next((e for e in ((mo[k]["events"] if mo and k < len(mo) else None) or []) if e[0] == "push"), None)
                    app = [[n.decode("latin1"), v.decode("latin1")] for n, v in m["headers"]]
                    ok = (len(o["promises"]) == 1 and o["promises"][0]["parent"] == target and o["promises"][0]["promised"] == expect_promised
                          and o["instances"] == [expect_promised])
                    if ok:
                        hs = o["promises"][0]["headers"]
                        sc = res["scopes"].get(expect_promised) or {}
                        want_head = [[":method", "GET"], [":path", m["path"]], [":scheme", "http"], [":authority", "x"]]
                        ok = (hs[:4] == want_head and _app_headers_then_server([[n.lower(), v] for n, v in hs[4:]], [[n.strip().lower(), v.strip()] for n, v in app])
                              and sc.get("method") == "GET" and sc.get("raw_path") == m["path"].split("?")[0]
                              and (mev is None or [[n.lower(), v] for n, v in hs[2:2 + len(mev[2])]] == [[n.lower(), v] for n, v in mev[2]]))
                    if not ok:
                        ctx.violation("push_promise_differs", cs, {"step": o, "model_event": mev}, sig)
                    expect_promised += 2
            if m["type"] == "http.response.early_hint" and not raised:
                heads = [f for f in o["frames"] if f[0] == "HeadersFrame" and f[1] == target]
                if len(heads) != 1 or o["promises"] or o["instances"]:
                    ctx.violation("early_hint_not_one_interim_head", cs, o, sig)
            ref.advance(m, o["state"], not raised, want)
            if mo is not None and k < len(mo) and (mo[k]["error"], mo[k]["state"]) != (o["error"], o["state"]):
                ctx.disagree("stream.http/wire", cs, mo[k], o)
                break
        # everything the client decoded: no CR / LF / NUL in any header name or value, one final head per stream, the response intact
        for sid, hl in res["heads"].items():
            for _, hs in hl:
                if any(ord(c) in CTL for n, v in hs for c in n + v):
                    ctx.violation("ctl_on_wire", case, {"sid": sid, "headers": hs}, sig0)
            finals = [hs for _, hs in hl if any(n == ":status" and not v.startswith("1") for n, v in hs)]
            if len(finals) > 1:
                ctx.violation("two_final_heads", case, {"sid": sid, "heads": hl}, sig0)
        for p_ in res["promises"]:
            if any(ord(c) in CTL for n, v in p_["headers"] for c in n + v):
                ctx.violation("ctl_on_wire", case, p_, sig0)
        if res["parse_error"]:
            ctx.violation("wire_not_a_valid_prefix", case, res["parse_error"], sig0)
        else:
            st = res["streams"].get(target) or {}
            finals = [hs for _, hs in res["heads"].get(target, []) if any(n == ":status" and not v.startswith("1") for n, v in hs)]
            app = [[n.decode(), v.decode()] for n, v in OKH]
            if not (st.get("status") == 200 and st.get("ended") and st.get("data") == len(WIRE_BODY[case["pre"]]) and len(finals) == 1
                    and _app_headers_then_server(finals[0][1:], app)):
                ctx.violation("response_not_intact", case, {"sid": target, "client": st, "heads": res["heads"].get(target)}, sig0)
            for sid in res["instances"]:
                st2 = res["streams"].get(sid) or {}
                if sid != target and not (st2.get("status") == 200 and st2.get("ended") and st2.get("data") == len(b"sid%d" % sid)):
                    ctx.violation("response_not_intact", case, {"sid": sid, "client": st2, "which": "other stream"}, sig0)
        if nontriv:
            ctx.distinct(["wire", "2", case["pre"], case["focus"], case.get("enable_push"), bool(case.get("on_pushed"))])
        ctx.sample(case, cap=8)
        if model is not None:
            ctx.disagreements_checked += 1
    # ---- HTTP/1 ----
    runs1 = []
    for case in h1cases:
        version = case["version"]
        pre = [_msg(k, version) for k in WIRE_PRES[case["pre"]]]
        ops: List[Tuple[str, dict]] = list(pre)
        for f in case["focus"]:
            ops.append(("event:info", INFO_EVENT) if f == "event:info" else _msg(f, version))
        st = {"REQUEST": "REQUEST", "RESPONSE": "RESPONSE", "RESPONSE+chunk": "RESPONSE", "CLOSED": "CLOSED"}[case["pre"]]
        ops += _completion(st, version, False)
        res = S.run(drive_h1_wire(version, [({"send": m} if "event" not in m else m) for _, m in ops], bool(case.get("second"))))
        runs1.append((case, ops, res))
    init1 = {v: {"method": "GET", "version": v, "scheme": "http", "headers": WIRE_REQ_HEADERS} for v in ("1.0", "1.1")}
    model1 = ctx.model([S.http_model_req(init1[c["version"]], [{"send": m} for _, m in ops if "event" not in m]) for c, ops, _ in runs1])
    for i, (case, ops, res) in enumerate(runs1):
        ctx.evaluations += 1
        version = case["version"]
        ctx.count(f"wire.{version}.context", case["pre"])
        sig0 = {"family": "wire", "version": version}
        mo = model1[i].get("ok") if model1 is not None else None
        ref = HttpRef(version)
        nontriv = False
        j = 0
        for k, ((cls, m), o) in enumerate(zip(ops, res["steps"])):
            cs = {**case, "at": k}
            raised = o["error"] is not None
            if "event" in m:
                # the protocol is handed the event an HTTP stream emits for early hints: HTTP/1 has no use for it, nothing may be
                # written for it and nothing raised (HC.Proto.H11.httpStreamSend: `.info _ _ => (st, [], false)`)
                ctx.count(f"wire.{version}.info_event", f"in {ref.st}")
                nontriv = True
                if raised:
                    ctx.violation("informational_event_raised", cs, o, {**sig0, "state": ref.st})
                if o["wrote"] or o["up_closed"] and not (k and res["steps"][k - 1]["up_closed"]):
                    ctx.violation("informational_event_wrote_to_wire", cs, o, {**sig0, "state": ref.st})
                continue
            want = ref.judge(m)
            sig = {**sig0, "msg": cls, "state": ref.st}
            ctx.count(f"wire.{version}.verdict", {None: "unspecified", True: "valid", False: "invalid"}[want])
            if want is False:
                nontriv = True
                if not raised:
                    ctx.violation("invalid_accepted", cs, o, sig)
            if want is True and raised:
                ctx.violation("valid_rejected", cs, o, sig)
            if raised and o["wrote"]:
                ctx.violation("rejected_wrote_to_wire", cs, o, sig)
            ref.advance(m, o["state"], not raised, want)
            if mo is not None and j < len(mo) and (mo[j]["error"], mo[j]["state"]) != (o["error"], o["state"]):
                ctx.disagree("stream.http/wire", cs, mo[j], o)
                break
            j += 1
        # the whole byte stream, parsed by an independent client: exactly the response the accepted messages describe, no interim head
        p = C.parse_h1(res["out"], ["GET", "GET"] if res["second"] else ["GET"], server_closed=res["up_closed"])
        finals = [r for r in p["responses"] if not r.get("informational")]
        app = [[n.decode(), v.decode()] for n, v in OKH]
        if any(r.get("informational") for r in p["responses"]):
            ctx.violation("interim_head_on_http1", case, p["responses"], sig0)
        if any(c in CTL for c in res["out"].split(b"\r\n\r\n", 1)[0].replace(b"\r\n", b"")):
            ctx.violation("ctl_on_wire", case, res["out"][:300], sig0)
        ok = (p["error"] is None and len(finals) == (2 if res["second"] else 1) and finals[0]["status"] == 200 and finals[0]["complete"]
              and finals[0]["body"] == WIRE_BODY[case["pre"]].decode() and _app_headers_then_server(finals[0]["headers"], app, SERVER_HEADERS + ("connection", "transfer-encoding")))
        if ok and res["second"]:
            ok = finals[1]["status"] == 200 and finals[1]["complete"] and finals[1]["body"] == "second" and finals[1]["headers"][:1] == [["x-second", "1"]]
        if case.get("second") and version == "1.1" and not res["second"]:
            ok = False          # the connection must still be usable for the next request
        if not ok:
            ctx.violation("response_not_intact", case, {"parse": p, "out": res["out"][:400], "second": res["second"]}, sig0)
        if nontriv:
            ctx.distinct(["wire", version, case["pre"], case["focus"], bool(case.get("second"))])
        ctx.sample(case, cap=10)
        if model1 is not None:
            ctx.disagreements_checked += 1


def _sequences(ctx: Ctx, alphabet, full_len: int, sample_lens: Dict[int, int]) -> List[list]:
    seqs: List[list] = []
    for n in range(1, full_len + 1):
        seqs += [list(p) for p in itertools.product(alphabet, repeat=n)]
    for n, k in sample_lens.items():
        for _ in range(k):
            seqs.append([ctx.rng.choice(alphabet) for _ in range(n)])
    return seqs


def run(ctx: Ctx) -> None:
    full = 3 if ctx.thorough else 2
    samples = {4: 3000, 5: 3000} if ctx.thorough else {3: 1500, 4: 300}
    ctx.extra["exhaustive_sequence_length"] = full
    for version in ("1.1", "2"):
        check_http(ctx, version, _sequences(ctx, http_alphabet(version), full, samples))
        # every kind of handshake: what websocket.accept may name depends on what the client offered
        for offer in WS_OFFERS:
            check_ws(ctx, version, _sequences(ctx, ws_alphabet(), full, samples if offer == "offer" else {n: k // 4 for n, k in samples.items()}), offer)
    if WIRE_FAMILY:
        check_wire(ctx, gen_wire(ctx))


def replay(ctx: Ctx, case: dict) -> None:
    if case["family"] == "wire":
        check_wire(ctx, [{k: v for k, v in case.items() if k != "at"}])
        return
    alpha = dict(http_alphabet(case["version"]) if case["family"] == "http" else ws_alphabet())
    seq = [(k, alpha[k]) for k in case["seq"]]
    if case["family"] == "http":
        check_http(ctx, case["version"], [seq])
    else:
        check_ws(ctx, case["version"], [seq], case.get("offer", "offer"))
