"""C12 — invalid application messages are rejected without corrupting the wire.

Runner: direct drive of the real HTTPStream / WSStream (recording `send`, recording logger), every sequence over the
ASGI send alphabet with valid and invalid payloads; each step is compared with the Lean model and judged by an
independent reference automaton of the ASGI specification (below, in Python)."""
from __future__ import annotations

import itertools
from typing import Any, Dict, List, Optional, Tuple

from ..core import streams as S
from ..core.framework import Ctx

SPEC = {
    "modules": ["HC.Props.C12"],
    "extracted": ["Guards", "Consts", "WsGuards", "AppExit"],
    "technique": "Lean 4 theorems over Except-valued transducer models of HTTPStream.app_send / WSStream.app_send (reject = no-op, one final head, end once, no CTL bytes — for arbitrary message sequences, by budget/potential induction) + differential execution of model and real stream objects on every short sequence of the ASGI send alphabet",
    "level_text": "Proved in Lean for ARBITRARY message sequences (any length, any payloads): a message in a state the reference automaton forbids is rejected with the state and the wire untouched; an invalid payload (non-bytes or pseudo header names/values, CR/LF/NUL, non-str push path or text frame) is rejected before anything is emitted; at most one final response head, at most one response start of ANY status (an accepted http.response.start with an interim status 1xx moves the request to RESPONSE exactly like a final one, so a second start raises - for the model, and for the statement order of the start branch read off the source, in which a conditional state assignment is not a recognised shape) and one end-of-body per request; nothing follows the end of the response; no CR, LF or NUL of an application header reaches the protocol layer.  The HTTP reference automaton keeps its own state (it does not follow the implementation's): any accepted start is the response start.  The model is tied to the code by running every sequence up to length 3 (thorough: 4, sampled 5) over the alphabet x payload variants on the real HTTPStream and WSStream objects, step by step (events, exception class, state); the WebSocket sequences are run against every kind of handshake (subprotocols offered, one offered, an empty Sec-WebSocket-Protocol header, no such header) and the guard that decides which subprotocol of websocket.accept is refused is regenerated from the source (HC/Extracted/WsGuards.lean) and proved to be the model's.",
    "level_note": "Trusted: Lean kernel; hand-written models HC/Stream/{Http,Ws}.lean tied by differential testing; extracted suppress_body / version sets; wsproto's LocalProtocolError conditions (connection-state machine) modelled and sampled; h11's own header validation is library behaviour.  'Raises' means any exception out of send().  http.response.trailers before the response start is treated as unspecified by the monitor (the code accepts it on HTTP/2; see DESIGN.md).",
    "rule": "exhaustive enumeration of sequences over the per-protocol alphabet (message type x payload variant) - WebSocket: x handshake kind (what the client offered as subprotocols) -, quick: all of length <= 2 and a sample of length 3; thorough: all <= 3 and samples of 4-5; distinct = distinct sequences of (type, payload-class); non-trivial = contains at least one message that the reference automaton rejects",
    "trusted": ["wsproto Connection.send state conditions (OPEN / *_CLOSING) as modelled in HC.Stream.Ws.connSend"],
    "partial": ["http trailers-before-start (HTTP/2+) is outside the reject_iff theorem: the code deliberately accepts it (trailers-only response)"],
    "assumptions": ["header lists are lists of 2-tuples; messages are dicts (other shapes are outside the ASGI send alphabet)"],
}

OKH = [(b"x-a", b"1")]
BAD_HEADERS = {
    "str_name": [("x", b"v")], "str_value": [(b"n", "v")], "pseudo": [(b":status", b"200")], "int_value": [(b"n", 3)],
    "crlf_value": [(b"n", b"a\r\nset-cookie: x")], "nul_name": [(b"n\x00", b"v")], "empty_name": [(b"", b"v")], "lf_value": [(b"n", b"a\nb")],
    "none_value": [(b"n", None)],
    # what the server strips before sending is part of the name it sends: a pseudo header / an empty name hidden behind whitespace
    "sp_pseudo": [(b" :status", b"200")], "tab_pseudo": [(b"\t:path", b"/x")], "blank_name": [(b"  ", b"v")],
    # a field name is a token (RFC 9110 5.1): anything else cannot be framed - h11 refuses it, on HTTP/2 it is a connection error at the peer
    "space_name": [(b"bad name", b"v")], "colon_name": [(b"x:y", b"v")], "nonascii_name": [(b"caf\xe9", b"v")], "ctl_name": [(b"a\x01b", b"v")],
    "sep_name": [(b"x(y)", b"v")],
}
TOKEN = frozenset(b"!#$%&'*+-.^_`|~0123456789ABCDEFGHIJKLMNOPQRSTUVWXYZabcdefghijklmnopqrstuvwxyz")
CTL = (0, 10, 13)


def http_alphabet(version: str) -> List[Tuple[str, dict]]:
    a: List[Tuple[str, dict]] = [
        ("start:ok", {"type": "http.response.start", "status": 200, "headers": OKH}),
        ("start:trailers", {"type": "http.response.start", "status": 200, "headers": OKH, "trailers": True}),
        ("start:204", {"type": "http.response.start", "status": 204, "headers": []}),
        ("start:nohdr", {"type": "http.response.start", "status": 201}),
        # a response start with an interim status is still THE response start of the request: whatever follows it is
        # judged in the state after a start (a second start raises), exactly as after a final status
        ("start:100", {"type": "http.response.start", "status": 100, "headers": []}),
        ("start:102", {"type": "http.response.start", "status": 102, "headers": OKH}),
        ("start:103", {"type": "http.response.start", "status": 103, "headers": [(b"link", b"</s.css>; rel=preload")]}),
        ("start:199", {"type": "http.response.start", "status": 199, "headers": OKH, "trailers": True}),
    ]
    for k, h in BAD_HEADERS.items():
        a.append((f"start:{k}", {"type": "http.response.start", "status": 200, "headers": h}))
    a += [
        ("body:final", {"type": "http.response.body", "body": b"abc"}),
        ("body:more", {"type": "http.response.body", "body": b"x", "more_body": True}),
        ("body:empty", {"type": "http.response.body"}),
        ("body:str", {"type": "http.response.body", "body": "text"}),
        ("trailers:final", {"type": "http.response.trailers", "headers": OKH}),
        ("trailers:more", {"type": "http.response.trailers", "headers": OKH, "more_trailers": True}),
        ("trailers:crlf", {"type": "http.response.trailers", "headers": BAD_HEADERS["crlf_value"]}),
        ("push:ok", {"type": "http.response.push", "path": "/p", "headers": OKH}),
        ("push:bytes_path", {"type": "http.response.push", "path": b"/p", "headers": OKH}),
        ("push:pseudo", {"type": "http.response.push", "path": "/p", "headers": BAD_HEADERS["pseudo"]}),
        ("hint:ok", {"type": "http.response.early_hint", "links": [b"</s.css>; rel=preload"]}),
        ("hint:str", {"type": "http.response.early_hint", "links": ["</s.css>"]}),
        ("hint:crlf", {"type": "http.response.early_hint", "links": [b"</s.css>\r\nx: y"]}),
        ("unknown", {"type": "http.response.zerocopysend"}),
        ("ws.send", {"type": "websocket.send", "text": "x"}),
    ]
    return a


def ws_alphabet() -> List[Tuple[str, dict]]:
    a: List[Tuple[str, dict]] = [
        ("accept:ok", {"type": "websocket.accept"}),
        ("accept:sub_ok", {"type": "websocket.accept", "subprotocol": "chat"}),
        ("accept:sub_bad", {"type": "websocket.accept", "subprotocol": "nope"}),
        # the subprotocol becomes a header value without passing through the header validation
        ("accept:sub_crlf", {"type": "websocket.accept", "subprotocol": "chat\r\nset-cookie: x=1"}),
        ("accept:sub_empty", {"type": "websocket.accept", "subprotocol": ""}),
        ("accept:hdr", {"type": "websocket.accept", "headers": [(b"x-extra", b"1")]}),
        ("accept:hdr_proto", {"type": "websocket.accept", "headers": [(b"sec-websocket-protocol", b"chat")]}),
        ("accept:hdr_pseudo", {"type": "websocket.accept", "headers": [(b":status", b"200")]}),
        ("accept:hdr_sp_pseudo", {"type": "websocket.accept", "headers": [(b" :status", b"200")]}),
        ("accept:hdr_sp_proto", {"type": "websocket.accept", "headers": [(b" sec-websocket-protocol", b"chat")]}),
        ("accept:hdr_blank", {"type": "websocket.accept", "headers": [(b" ", b"v")]}),
        ("accept:hdr_space", {"type": "websocket.accept", "headers": [(b"bad name", b"v")]}),
        ("accept:hdr_nonascii", {"type": "websocket.accept", "headers": [(b"caf\xe9", b"v")]}),
        ("accept:hdr_crlf", {"type": "websocket.accept", "headers": [(b"x-extra", b"1\r\nx: y")]}),
        ("send:text", {"type": "websocket.send", "text": "hi"}),
        ("send:bytes", {"type": "websocket.send", "bytes": b"\x00\x01"}),
        ("send:text_bytes", {"type": "websocket.send", "text": b"hi"}),
        ("send:text_int", {"type": "websocket.send", "bytes": None, "text": 5}),
        ("close", {"type": "websocket.close"}),
        ("close:code", {"type": "websocket.close", "code": 3000}),
        # payloads no close frame can be built from (int() / wsproto's serialisation refuse them while CONNECTED; F63)
        ("close:code_str", {"type": "websocket.close", "code": "abc"}),
        ("close:code_big", {"type": "websocket.close", "code": 70000}),
        ("close:reason_int", {"type": "websocket.close", "code": 1000, "reason": 5}),
        ("rstart:ok", {"type": "websocket.http.response.start", "status": 401, "headers": OKH}),
        ("rstart:crlf", {"type": "websocket.http.response.start", "status": 401, "headers": BAD_HEADERS["crlf_value"]}),
        ("rstart:str", {"type": "websocket.http.response.start", "status": 401, "headers": BAD_HEADERS["str_value"]}),
        ("rbody:final", {"type": "websocket.http.response.body", "body": b"no"}),
        ("rbody:more", {"type": "websocket.http.response.body", "body": b"n", "more_body": True}),
        ("rbody:str", {"type": "websocket.http.response.body", "body": "text"}),
        ("unknown", {"type": "websocket.foo"}),
        ("http.start", {"type": "http.response.start", "status": 200, "headers": []}),
    ]
    return a


# --------------------------------------------------------------------------------------------------------------
# reference automaton (independent of the model): None = unspecified, True = must be accepted, False = must raise
# --------------------------------------------------------------------------------------------------------------
def headers_ok(hs) -> bool:
    for n, v in hs:
        if not isinstance(n, (bytes, bytearray)) or not isinstance(v, (bytes, bytearray)):
            return False
        sent = bytes(n).strip()          # the name as the server would put it on the wire
        if len(sent) == 0 or sent[:1] == b":":
            return False
        if any(c not in TOKEN for c in sent):
            return False
        if any(c in CTL for c in bytes(n)) or any(c in CTL for c in bytes(v)):
            return False
    return True


class HttpRef:
    def __init__(self, version: str) -> None:
        self.st = "REQUEST"
        self.h2 = version in ("2", "3")
        self.trailers = False

    def judge(self, m: dict) -> Optional[bool]:
        t = m["type"]
        if self.st == "CLOSED":
            return False
        if t == "http.response.start":
            return self.st == "REQUEST" and headers_ok(m.get("headers", [])) and isinstance(m.get("status"), int)
        if t == "http.response.body":
            if self.st != "RESPONSE":
                return False
            return None if isinstance(m.get("body", b""), str) else True
        if t == "http.response.trailers":
            if not self.h2:
                return False
            if self.st == "TRAILERS":
                return headers_ok(m.get("headers", [])) or None
            return None      # before the start / before the body completed: unspecified here
        if t == "http.response.push":
            if not self.h2:
                return False
            return isinstance(m.get("path"), str) and headers_ok(m.get("headers", []))
        if t == "http.response.early_hint":
            if not self.h2 or self.st != "REQUEST":
                return False
            return all(isinstance(x, (bytes, bytearray)) and not any(c in CTL for c in bytes(x)) for x in m.get("links", []))
        return False

    def advance(self, m: dict, impl_state: str, accepted: bool = True, verdict: Optional[bool] = True) -> None:
        """The automaton's OWN successor state (it does not follow the implementation): a refused message changes nothing;
        ANY accepted start - whatever its status, interim ones included - is the response start; the final body ends the
        response or, when trailers were announced, opens the trailers; the final trailers end it.  Only where the automaton
        does not say whether the message is valid (verdict None: trailers before the start / before the end of the body,
        a str body) does it go where the implementation went."""
        if not accepted:
            return
        t = m["type"]
        if verdict is None:
            self.st = impl_state
        elif t == "http.response.start":
            self.st = "RESPONSE"
            self.trailers = bool(m.get("trailers", False))
        elif t == "http.response.body" and not m.get("more_body", False):
            self.st = "TRAILERS" if self.trailers else "CLOSED"
        elif t == "http.response.trailers" and not m.get("more_trailers", False):
            self.st = "CLOSED"


def offered_subprotocols(headers) -> Optional[List[str]]:
    """what the client offered (RFC 6455 4.2.1 item 8: a comma separated list; the last header counts, as for the server);
    None = no Sec-WebSocket-Protocol header in the handshake"""
    vals = [v for n, v in headers if n.lower() == b"sec-websocket-protocol"]
    if not vals:
        return None
    return [t.strip() for t in vals[-1].decode("ascii").split(",")]


class WsRef:
    def __init__(self, offered: Optional[List[str]] = ("chat", "superchat")) -> None:
        self.st = "HANDSHAKE"
        self.have_resp = False
        self.offered = offered

    def judge(self, m: dict) -> Optional[bool]:
        t = m["type"]
        if self.st in ("CLOSED", "HTTPCLOSED"):
            return False
        if t == "websocket.accept":
            if self.st != "HANDSHAKE":
                return False
            sp = m.get("subprotocol")
            hs = m.get("headers", [])
            # RFC 6455 4.2.2 /subprotocol/: "a value taken from the client's handshake"; nothing else may be named
            sp_ok = sp is None or (isinstance(sp, str) and self.offered is not None and sp in self.offered and not any(ord(c) in CTL for c in sp))
            return sp_ok and headers_ok(hs) and not any(bytes(n).strip() == b"sec-websocket-protocol" for n, _ in hs)
        if t == "websocket.close":
            if self.st not in ("HANDSHAKE", "CONNECTED"):
                return False
            code, reason = m.get("code", 1000), m.get("reason")
            well_formed = isinstance(code, int) and 0 <= code <= 65535 and (reason is None or isinstance(reason, str))
            # a code / reason outside the ASGI types: unspecified here (the code is not even looked at when the close
            # answers the handshake with 403); whatever the server decides, a refusal must be a no-op (`reject_not_noop`)
            return True if well_formed else None
        if t == "websocket.send":
            if self.st != "CONNECTED":
                return False
            if m.get("bytes") is not None:
                return isinstance(m["bytes"], (bytes, bytearray))
            return isinstance(m.get("text"), str)
        if t == "websocket.http.response.start":
            return None if self.st == "HANDSHAKE" else False      # payload is only looked at when the body arrives
        if t == "websocket.http.response.body":
            if isinstance(m.get("body", b""), str):
                return False if self.st in ("RESPONSE", "HANDSHAKE") else False
            if self.st == "RESPONSE":
                return True
            if self.st == "HANDSHAKE":
                return None if not self.have_resp else None
            return False
        return False

    def advance(self, m: dict, impl_state: str) -> None:
        if m["type"] == "websocket.http.response.start" and self.st == "HANDSHAKE":
            self.have_resp = True
        self.st = impl_state


WS_HEADERS = [(b"host", b"x"), (b"upgrade", b"websocket"), (b"connection", b"upgrade"), (b"sec-websocket-key", b"dGhlIHNhbXBsZSBub25jZQ=="),
              (b"sec-websocket-version", b"13"), (b"sec-websocket-protocol", b"chat, superchat")]
# what the client says about subprotocols in its handshake (None: no Sec-WebSocket-Protocol header at all)
WS_OFFERS: Dict[str, Optional[bytes]] = {"offer": b"chat, superchat", "none": None, "empty": b"", "single": b"chat", "other": b"superchat,v2"}


def ws_init(version: str, offer: str = "offer") -> dict:
    hs = [h for h in WS_HEADERS if h[0] != b"sec-websocket-protocol"]
    if WS_OFFERS[offer] is not None:
        hs.append((b"sec-websocket-protocol", WS_OFFERS[offer]))
    if version != "1.1":
        hs = [h for h in hs if h[0] not in (b"upgrade", b"connection", b"sec-websocket-key")]
    return {"version": version, "headers": hs}


def _classes(seq) -> List[str]:
    return [k for k, _ in seq]


def check_http(ctx: Ctx, version: str, seqs: List[List[Tuple[str, dict]]]) -> None:
    init = {"method": "GET", "version": version, "scheme": "http", "headers": [(b"host", b"x"), (b"te", b"trailers")]}

    async def runall():
        out = []
        for seq in seqs:
            ops = [{"send": dict(m)} for _, m in seq]
            out.append(await S.drive_http(init, ops))
        return out

    obs = S.run(runall())
    model = ctx.model([S.http_model_req(init, [{"send": m} for _, m in seq]) for seq in seqs])
    for i, (seq, steps) in enumerate(zip(seqs, obs)):
        ctx.evaluations += 1
        case = {"family": "http", "version": version, "seq": _classes(seq)}
        ref = HttpRef(version)
        finals, heads, ended, nontriv = 0, 0, False, False
        impl_st = "REQUEST"
        for k, ((cls, m), o) in enumerate(zip(seq, steps)):
            want = ref.judge(m)
            raised = o["error"] is not None
            if m["type"] == "http.response.start":
                ctx.count(f"http{version}.start_status_class", f"{int(m['status']) // 100}xx in {ref.st}")
            ctx.count(f"http{version}.verdict", {None: "unspecified", True: "valid", False: "invalid"}[want])
            if want is False:
                nontriv = True
            sig = {"family": "http", "version": version, "msg": cls, "state": ref.st}
            if want is False and not raised:
                ctx.violation("invalid_accepted", {**case, "at": k}, o, sig)
            if want is True and raised:
                ctx.violation("valid_rejected", {**case, "at": k}, o, sig)
            if raised and (o["events"] or o["state"] != impl_st):
                ctx.violation("reject_not_noop", {**case, "at": k}, o, sig)
            for ev in o["events"]:
                if ev[0] == "response" and m["type"] == "http.response.start":
                    heads += 1
                if ev[0] in ("response", "info", "trailers", "push"):
                    hs = ev[-1]
                    if any(ord(c) in CTL for n, v in hs for c in n + v):
                        ctx.violation("ctl_in_headers", {**case, "at": k}, ev, {"family": "http", "version": version, "msg": cls})
                if ended and ev[0] not in ("streamClosed", "access"):
                    ctx.violation("event_after_end", {**case, "at": k}, ev, sig)
                if ev[0] == "response" and ev[1] >= 200:
                    finals += 1
                if ev[0] == "endBody":
                    if ended:
                        ctx.violation("end_twice", {**case, "at": k}, o, sig)
                    ended = True
            ref.advance(m, o["state"], not raised, want)
            impl_st = o["state"]
        if finals > 1:
            ctx.violation("two_final_heads", case, steps, {"family": "http", "version": version})
        if heads > 1:
            # every accepted http.response.start is the one response start of its request, whatever its status
            ctx.violation("two_response_starts", case, steps, {"family": "http", "version": version})
        if nontriv:
            ctx.distinct(["http", version] + _classes(seq))
        ctx.sample(case, cap=2)
        if model is not None:
            ctx.disagreements_checked += 1
            mo = model[i].get("ok")
            impl = [S.http_obs_for_compare(o, True) for o in steps]
            if mo is None or [{k2: v for k2, v in x.items() if k2 != "puts"} for x in mo] != impl:
                ctx.disagree("stream.http", case, model[i], impl)


def check_ws(ctx: Ctx, version: str, seqs: List[List[Tuple[str, dict]]], offer: str = "offer") -> None:
    init = ws_init(version, offer)
    offered = offered_subprotocols(init["headers"])

    async def runall():
        out = []
        for seq in seqs:
            out.append(await S.drive_ws(init, [{"send": dict(m)} for _, m in seq]))
        return out

    obs = S.run(runall())
    model = ctx.model([S.ws_model_req(init, [{"send": m} for _, m in seq], lib) for seq, (_, lib) in zip(seqs, obs)])
    for i, (seq, (steps, lib)) in enumerate(zip(seqs, obs)):
        ctx.evaluations += 1
        case = {"family": "ws", "version": version, "seq": _classes(seq)}
        if offer != "offer":
            case["offer"] = offer
        ctx.count(f"ws{version}.handshake_subprotocols", offer)
        ref = WsRef(offered)
        finals, nontriv = 0, False
        for k, ((cls, m), o) in enumerate(zip(seq, steps[1:])):
            want = ref.judge(m)
            raised = o["error"] is not None
            ctx.count(f"ws{version}.verdict", {None: "unspecified", True: "valid", False: "invalid"}[want])
            if want is False:
                nontriv = True
            sig = {"family": "ws", "version": version, "msg": cls, "state": ref.st}
            if offer != "offer":
                sig["offer"] = offer
            if want is False and not raised:
                ctx.violation("invalid_accepted", {**case, "at": k}, o, sig)
            if want is True and raised:
                ctx.violation("valid_rejected", {**case, "at": k}, o, sig)
            if raised and (o["events"] or o["state"] != ref.st):
                ctx.violation("reject_not_noop", {**case, "at": k}, o, sig)
            for ev in o["events"]:
                if ev[0] == "response":
                    if any(ord(c) in CTL for n, v in ev[2] for c in n + v):
                        ctx.violation("ctl_in_headers", {**case, "at": k}, ev, {"family": "ws", "version": version, "msg": cls})
                    # a subprotocol the client did not offer never appears in the response head
                    named = [v for n, v in ev[2] if n.lower() == "sec-websocket-protocol"]
                    if any(offered is None or v not in offered for v in named) or len(named) > 1:
                        ctx.violation("unoffered_subprotocol_sent", {**case, "at": k}, ev, sig)
                    finals += 1
            ref.advance(m, o["state"])
        if finals > 1:
            ctx.violation("two_final_heads", case, steps, {"family": "ws", "version": version})
        if nontriv:
            ctx.distinct(["ws", version, offer] + _classes(seq))
        ctx.sample(case, cap=4)
        if model is not None:
            ctx.disagreements_checked += 1
            mo = model[i].get("ok")
            impl = steps
            if mo is None or mo != impl:
                ctx.disagree("stream.ws", case, model[i], impl)


def _sequences(ctx: Ctx, alphabet, full_len: int, sample_lens: Dict[int, int]) -> List[list]:
    seqs: List[list] = []
    for n in range(1, full_len + 1):
        seqs += [list(p) for p in itertools.product(alphabet, repeat=n)]
    for n, k in sample_lens.items():
        for _ in range(k):
            seqs.append([ctx.rng.choice(alphabet) for _ in range(n)])
    return seqs


def run(ctx: Ctx) -> None:
    full = 3 if ctx.thorough else 2
    samples = {4: 3000, 5: 3000} if ctx.thorough else {3: 1500, 4: 300}
    ctx.extra["exhaustive_sequence_length"] = full
    for version in ("1.1", "2"):
        check_http(ctx, version, _sequences(ctx, http_alphabet(version), full, samples))
        # every kind of handshake: what websocket.accept may name depends on what the client offered
        for offer in WS_OFFERS:
            check_ws(ctx, version, _sequences(ctx, ws_alphabet(), full, samples if offer == "offer" else {n: k // 4 for n, k in samples.items()}), offer)


def replay(ctx: Ctx, case: dict) -> None:
    alpha = dict(http_alphabet(case["version"]) if case["family"] == "http" else ws_alphabet())
    seq = [(k, alpha[k]) for k in case["seq"]]
    if case["family"] == "http":
        check_http(ctx, case["version"], [seq])
    else:
        check_ws(ctx, case["version"], [seq], case.get("offer", "offer"))
