"""C20 — middleware semantics.  Direct-call runner: the real middleware classes wrap a recording application."""
from __future__ import annotations

import asyncio
import copy
import itertools
from typing import Any, Dict, List, Optional, Tuple
from urllib.parse import unquote, urlsplit

from ..core.framework import Ctx, b2s, s2b

SPEC = {
    "modules": ["HC.Props.C20"],
    "technique": "Lean 4 theorems over an executable model of the three middlewares (prefix non-interference, first-match routing, fan-out invariant by induction over reports, redirect URL law) + differential execution of model and real classes",
    "level_text": "Proved in Lean for all inputs: trusted value / client / scheme / host are independent of anything a client prepends (earlier header lines or inline) once the trusted proxies appended >= hops values; zero hops, too few values and non-www scopes leave the scope untouched; dispatcher picks the first matching mount, strips the prefix, never hands on an empty path, 404 iff no prefix matches; lifespan fan-out forwards each completion at most once and only when every mount reported (induction over arbitrary report sequences); cleartext http/ws scopes redirect to https/wss with the same host, path and query, secure scopes pass through. The model is tied to the code by running both on the same generated inputs on every run (thousands of header sets, all completion orders for <=3 mounts on both dispatcher variants), and the property monitors (pairwise prefix independence, snapshot non-mutation, redirect target parse) are evaluated on the real classes.",
    "level_note": "Trusted: Lean kernel; the hand-written model HC/Pure/Middleware.lean (tied by differential testing only); extracted comparator `len(values) >= trusted_hops` and extracted choice of the scope key the redirect path is read from (raw_path); urlunsplit modelled for netloc-bearing schemes; deepcopy non-mutation sampled by snapshots, not proved; fan-out theorem assumes each mount reports a completion at most once.",
    "extracted": ["Guards", "RedirectSites"],
    "rule": "direct calls of ProxyFixMiddleware / DispatcherMiddleware (asyncio+trio) / HTTPToHTTPSRedirectMiddleware with a recording "
            "inner app, each compared with the Lean model (hcdriver) and judged by the monitors; distinct = distinct "
            "(family, mode/hops/enough-class/prefix-kind | mount-count/match-index | scope-kind/version/host-source/ext) classes; "
            "non-trivial = a forwarding header / a matching mount / a cleartext scope is present. Redirect scopes are built the way the "
            "protocol layer builds them (raw_path = the target's path as sent, path = its percent-decoded form): a deterministic "
            "corpus of targets with escaped space / ? / # / / / % / CR LF / UTF-8 / malformed escapes x scope kinds x root paths x "
            "queries runs first on every tier, random targets follow",
    "trusted": ["urllib.parse.urlunsplit is modelled for netloc-bearing schemes (HC.Middleware.urlunsplit)",
                "copy.deepcopy semantics (non-mutation is checked by snapshot comparison, not proved)"],
    "partial": ["lifespan_fanout assumes each mount reports each completion at most once (a duplicate report after completion is forwarded again by the code)",
                "redirect_http/redirect_ws assume a non-empty host is known (constructor or host header); without one the code raises ValueError (F28b)"],
    "assumptions": ["str values decoded with latin-1 are carried as bytes in the model"],
}

FWD = [b"x-forwarded-for", b"x-forwarded-proto", b"x-forwarded-host", b"forwarded"]
WS = [b"", b" ", b"  ", b"\t", b" \t ", b"\xa0", b"\x85", b"\x1c"]
TOK = [b"1.2.3.4", b"10.0.0.1", b"https", b"http", b"example.com", b"evil.test", b"a", b"", b"h\xe9", b"::1", b"x y", b"wss"]


def _case_name(rng, name: bytes) -> bytes:
    r = rng.random()
    if r < 0.6:
        return name
    if r < 0.8:
        return name.title()
    return bytes(c ^ 0x20 if 97 <= c <= 122 and rng.random() < 0.5 else c for c in name)


def _value(rng, n: int, fwd: bool) -> bytes:
    parts = []
    for _ in range(n):
        if fwd and rng.random() < 0.85:
            els = []
            for key in rng.sample([b"for=", b"host=", b"proto=", b"by=", b"For=", b" for="], rng.randint(1, 3)):
                els.append(key + rng.choice(WS) + rng.choice(TOK) + rng.choice(WS))
            tok = b";".join(els)
        else:
            tok = rng.choice(TOK)
        parts.append(rng.choice(WS) + tok + rng.choice(WS))
    return b",".join(parts)


def _count(name: bytes, headers) -> int:
    return sum(len(v.split(b",")) for n, v in headers if n.lower() == name)


# --------------------------------------------------------------------------------------------------------------
# ProxyFix
# --------------------------------------------------------------------------------------------------------------
def gen_proxy(ctx: Ctx, n: int) -> List[dict]:
    rng = ctx.rng
    cases = []
    for _ in range(n):
        modern = rng.random() < 0.5
        hops = rng.choice([0, 1, 1, 2, 2, 3, 4])
        trusted: List[Tuple[bytes, bytes]] = []
        names = FWD if modern else FWD[:3]
        style = rng.choice(["enough", "enough", "enough", "short", "mixed", "none"])
        for name in names:
            if style == "none":
                continue
            if style == "enough":
                k = hops + rng.randint(0, 1)
            elif style == "short":
                k = rng.randint(0, max(0, hops - 1))
            else:
                k = rng.randint(0, hops + 1)
            # spread k values over 1..2 header lines
            while k > 0:
                take = rng.randint(1, k)
                trusted.append((_case_name(rng, name), _value(rng, take, name == b"forwarded")))
                k -= take
        other = [(b"host", rng.choice([b"orig.example", b"o"])), (b"accept", b"*/*"), (b"Host", b"second")]
        base = trusted + rng.sample(other, rng.randint(0, 2))
        rng.shuffle(base)
        # attacker prefix: earlier lines and/or inline in front of the first matching line
        pre = []
        for _ in range(rng.randint(0, 3)):
            name = rng.choice(names)
            pre.append((_case_name(rng, name), _value(rng, rng.randint(1, 2), name == b"forwarded")))
        inline = None
        if base and rng.random() < 0.4:
            idx = [i for i, (nm, _) in enumerate(base) if nm.lower() in names]
            if idx:
                inline = (idx[0], _value(rng, rng.randint(1, 2), base[idx[0]][0].lower() == b"forwarded"))
        kind = rng.choice(["http", "http", "websocket", "lifespan"])
        cases.append({"family": "proxy", "modern": modern, "hops": hops, "kind": kind,
                      "client": rng.choice([None, ["9.9.9.9", 1234]]), "scheme": "ws" if kind == "websocket" else "http",
                      "base": [[b2s(a), b2s(b)] for a, b in base], "pre": [[b2s(a), b2s(b)] for a, b in pre],
                      "inline": None if inline is None else [inline[0], b2s(inline[1])]})
    return cases


def _proxy_headers(case: dict, with_prefix: bool):
    base = [(s2b(a), s2b(b)) for a, b in case["base"]]
    if not with_prefix:
        return base
    hs = list(base)
    if case.get("inline") is not None:
        i, pv = case["inline"]
        n, v = hs[i]
        hs[i] = (n, s2b(pv) + b"," + v)
    return [(s2b(a), s2b(b)) for a, b in case["pre"]] + hs


def _mk_scope(case: dict, headers) -> dict:
    sc: Dict[str, Any] = {"type": case["kind"], "headers": list(headers), "scheme": case["scheme"],
                          "client": None if case["client"] is None else tuple(case["client"]),
                          "path": "/p", "state": {"k": [1, 2]}, "extensions": {"x": {}}}
    return sc


async def _call_proxy(case: dict, headers) -> Tuple[dict, dict, dict]:
    from hypercorn.middleware import ProxyFixMiddleware
    seen: Dict[str, Any] = {}

    async def app(scope, receive, send):
        seen["scope"] = scope

    mw = ProxyFixMiddleware(app, mode="modern" if case["modern"] else "legacy", trusted_hops=case["hops"])
    scope = _mk_scope(case, headers)
    snap = copy.deepcopy(scope)
    await mw(scope, None, None)
    return seen["scope"], scope, snap


def _scope_proj(sc: dict) -> dict:
    c = sc.get("client")
    return {"kind": sc["type"], "client": None if c is None else [c[0] if isinstance(c[0], str) else repr(c[0]), c[1]],
            "scheme": sc.get("scheme"), "headers": [[b2s(a), b2s(b)] for a, b in sc["headers"]]}


def _trio_of(sc_in: dict, sc_out: dict):
    """(client, scheme, host header value) the middleware decided on."""
    host = None
    if sc_out["headers"] != sc_in["headers"] and sc_out["headers"] and sc_out["headers"][-1][0] == b"host":
        host = sc_out["headers"][-1][1]
    return (sc_out.get("client"), sc_out.get("scheme"), host)


def check_proxy(ctx: Ctx, cases: List[dict]) -> None:
    async def runall():
        res = []
        for c in cases:
            hs_full = _proxy_headers(c, True)
            hs_base = _proxy_headers(c, False)
            try:
                res.append((await _call_proxy(c, hs_full), await _call_proxy(c, hs_base)))
            except Exception as e:  # the middleware must not raise on header bytes
                res.append(e)
        return res

    results = asyncio.run(runall())
    reqs = []
    for c in cases:
        hs = _proxy_headers(c, True)
        reqs.append({"cmd": "c20.proxy", "modern": c["modern"], "hops": c["hops"],
                     "scope": {"kind": c["kind"], "client": c["client"], "scheme": c["scheme"], "headers": [[b2s(a), b2s(b)] for a, b in hs]}})
    model = ctx.model(reqs)
    for i, (c, r) in enumerate(zip(cases, results)):
        ctx.evaluations += 1
        if isinstance(r, Exception):
            ctx.violation("proxy_raises", c, repr(r), {"family": "proxy", "error": type(r).__name__})
            continue
        (seen_f, caller_f, snap_f), (seen_b, caller_b, snap_b) = r
        names = FWD if c["modern"] else FWD[:3]
        base_h = _proxy_headers(c, False)
        enough = (c["hops"] <= _count(b"forwarded", base_h)) if c["modern"] else all(c["hops"] <= _count(n, base_h) for n in FWD[:3])
        has_prefix = bool(c["pre"]) or c.get("inline") is not None
        www = c["kind"] in ("http", "websocket")
        ctx.count("proxy.mode", "modern" if c["modern"] else "legacy")
        ctx.count("proxy.hops", c["hops"])
        ctx.count("proxy.enough", enough)
        ctx.count("proxy.prefix", "inline+lines" if c["pre"] and c.get("inline") else "inline" if c.get("inline") else "lines" if c["pre"] else "none")
        if www and any(_count(n, _proxy_headers(c, True)) for n in names):
            ctx.distinct(["proxy", c["modern"], c["hops"], enough, bool(c["pre"]), c.get("inline") is not None, c["kind"]])
        ctx.sample(c, cap=1)
        # M3: never mutates the caller's scope
        if caller_f != snap_f:
            ctx.violation("scope_mutated", c, {"before": snap_f, "after": caller_f}, {"family": "proxy"})
        # M1: prefix independence under Enough
        if www and enough and has_prefix:
            t_f, t_b = _trio_of(caller_f, seen_f), _trio_of(caller_b, seen_b)
            if t_f != t_b:
                ctx.violation("prefix_used", c, {"with_prefix": t_f, "without": t_b}, {"family": "proxy", "modern": c["modern"]})
        # M2: too few everywhere / zero hops / other scope types ⇒ untouched
        full_h = _proxy_headers(c, True)
        too_few = all(_count(n, full_h) < c["hops"] for n in FWD)
        if (c["hops"] == 0 or too_few or not www) and seen_f != snap_f:
            ctx.violation("untouched_violated", c, {"seen": _scope_proj(seen_f)}, {"family": "proxy"})
        # correspondence with the model
        if model is not None:
            ctx.disagreements_checked += 1
            m = model[i]
            if "ok" not in m or m["ok"] != _scope_proj(seen_f):
                ctx.disagree("c20.proxy", c, m, _scope_proj(seen_f))
            # everything outside the modelled fields is handed on untouched
            rest_in = {k: v for k, v in snap_f.items() if k not in ("client", "scheme", "headers")}
            rest_out = {k: v for k, v in seen_f.items() if k not in ("client", "scheme", "headers")}
            if rest_in != rest_out:
                ctx.disagree("c20.proxy.rest", c, rest_in, rest_out)


# --------------------------------------------------------------------------------------------------------------
# Dispatcher routing
# --------------------------------------------------------------------------------------------------------------
PATHS = ["/", "/api", "/api/", "/api/v2", "/apix", "/a", "", "/static/é", "/api/v2/items", "/x/y", "/API"]


def gen_dispatch(ctx: Ctx, n: int) -> List[dict]:
    rng = ctx.rng
    cases = []
    for _ in range(n):
        k = rng.randint(0, 4)
        mounts = rng.sample(PATHS, k)
        path = rng.choice(PATHS + [m + t for m in mounts for t in ("", "/", "/z", "z")] + ["/nomatch"])
        cases.append({"family": "dispatch", "mounts": mounts, "path": path, "kind": rng.choice(["http", "http", "websocket"]),
                      "variant": rng.choice(["asyncio", "trio"])})
    return cases


def check_dispatch(ctx: Ctx, cases: List[dict]) -> None:
    from hypercorn.middleware.dispatcher import AsyncioDispatcherMiddleware, TrioDispatcherMiddleware

    async def one(c):
        hit: Dict[str, Any] = {}

        def mk(i):
            async def app(scope, receive, send):
                hit["index"] = i
                hit["path"] = scope["path"]
            return app

        mounts = {m: mk(i) for i, m in enumerate(c["mounts"])}
        cls = AsyncioDispatcherMiddleware if c["variant"] == "asyncio" else TrioDispatcherMiddleware
        sent: List[dict] = []

        async def send(m):
            sent.append(m)

        await cls(mounts)({"type": c["kind"], "path": c["path"], "headers": []}, None, send)
        return hit, sent

    async def runall():
        out = []
        for c in cases:
            try:
                out.append(await one(c))
            except Exception as e:
                out.append(e)
        return out

    results = asyncio.run(runall())
    model = ctx.model([{"cmd": "c20.dispatch", "mounts": c["mounts"], "path": c["path"]} for c in cases])
    for i, (c, r) in enumerate(zip(cases, results)):
        ctx.evaluations += 1
        if isinstance(r, Exception):
            ctx.violation("dispatch_raises", c, repr(r), {"family": "dispatch", "error": type(r).__name__})
            continue
        hit, sent = r
        first = next((j for j, m in enumerate(c["mounts"]) if c["path"].startswith(m)), None)
        ctx.count("dispatch.match", "none" if first is None else f"mount{first}")
        if c["mounts"]:
            ctx.distinct(["dispatch", len(c["mounts"]), first, c["path"] in c["mounts"], c["kind"]])
        ctx.sample(c, cap=2)
        if first is None:
            ok = not hit and sent and sent[0].get("status") == 404
            if not ok:
                ctx.violation("dispatch_404", c, {"hit": hit, "sent": sent}, {"family": "dispatch"})
        else:
            exp_path = c["path"][len(c["mounts"][first]):] or "/"
            if hit.get("index") != first or hit.get("path") != exp_path or hit.get("path") == "" or sent:
                ctx.violation("dispatch_first_match", c, {"hit": hit, "sent": sent, "expected": [first, exp_path]}, {"family": "dispatch"})
        if model is not None:
            ctx.disagreements_checked += 1
            m = model[i].get("ok", "error")
            impl = None if not hit else {"index": hit["index"], "path": hit["path"]}
            if m != impl:
                ctx.disagree("c20.dispatch", c, model[i], impl)


# --------------------------------------------------------------------------------------------------------------
# Dispatcher lifespan fan-out (real _handle_lifespan on both variants, every completion order for ≤3 mounts)
# --------------------------------------------------------------------------------------------------------------
def gen_fanout(ctx: Ctx) -> List[dict]:
    cases = []
    for n in (1, 2, 3):
        for up in itertools.permutations(range(n)):
            for down in itertools.permutations(range(n)):
                for variant in ("asyncio", "trio"):
                    cases.append({"family": "fanout", "n": n, "up": list(up), "down": list(down), "variant": variant})
    return cases


def _run_fanout(c: dict) -> dict:
    n = c["n"]
    log: List[Any] = []
    if c["variant"] == "asyncio":
        from hypercorn.middleware.dispatcher import AsyncioDispatcherMiddleware as Cls
        mk_event = asyncio.Event
    else:
        import trio
        from hypercorn.middleware.dispatcher import TrioDispatcherMiddleware as Cls
        mk_event = trio.Event
    gates: Dict[Tuple[str, int], Any] = {}
    got: Dict[int, List[str]] = {i: [] for i in range(n)}
    phase_done: Dict[str, Any] = {}

    def mk(i):
        async def app(scope, receive, send):
            m = await receive()
            got[i].append(m["type"])
            await gates[("up", i)].wait()
            log.append(("report", "up", i))
            await send({"type": "lifespan.startup.complete"})
            m = await receive()
            got[i].append(m["type"])
            await gates[("down", i)].wait()
            log.append(("report", "down", i))
            await send({"type": "lifespan.shutdown.complete"})
        return app

    async def upstream_send(m):
        log.append(("forward", m["type"]))
        if m["type"] == "lifespan.startup.complete":
            phase_done["up"].set()
        elif m["type"] == "lifespan.shutdown.complete":
            phase_done["down"].set()

    async def body(sleep0, spawn):
        for kind in ("up", "down"):
            for i in range(n):
                gates[(kind, i)] = mk_event()
            phase_done[kind] = mk_event()
        msgs = ["lifespan.startup", "lifespan.shutdown"]
        state = {"k": 0}

        async def receive():
            if state["k"] == 1:
                # release the mounts in the scripted order, then wait for the forwarded completion
                for i in c["up"]:
                    gates[("up", i)].set()
                    for _ in range(5):
                        await sleep0()
                await phase_done["up"].wait()
            m = {"type": msgs[state["k"]]}
            state["k"] += 1
            return m

        mw = Cls({f"/m{i}": mk(i) for i in range(n)})

        async def releaser():
            # after shutdown was broadcast, release in the scripted order
            while state["k"] < 2:
                await sleep0()
            for i in c["down"]:
                gates[("down", i)].set()
                for _ in range(5):
                    await sleep0()

        await spawn(mw, receive, upstream_send, releaser)

    if c["variant"] == "asyncio":
        async def main():
            async def spawn(mw, receive, send, releaser):
                t = asyncio.ensure_future(releaser())
                await asyncio.wait_for(mw({"type": "lifespan"}, receive, send), 5)
                await t
            await body(lambda: asyncio.sleep(0), spawn)
        asyncio.run(main())
    else:
        import trio

        async def main():
            async def spawn(mw, receive, send, releaser):
                with trio.fail_after(5):
                    async with trio.open_nursery() as nur:
                        nur.start_soon(releaser)
                        await mw({"type": "lifespan"}, receive, send)
            await body(trio.lowlevel.checkpoint, spawn)
        trio.run(main)
    return {"log": log, "got": got}


def check_fanout(ctx: Ctx, cases: List[dict]) -> None:
    reqs = []
    obs = []
    for c in cases:
        try:
            o = _run_fanout(c)
        except BaseException as e:  # noqa
            o = {"error": repr(e)}
        obs.append(o)
        ops = []
        if "log" in o:
            for ev in o["log"]:
                if ev[0] == "report":
                    ops.append(["s" if ev[1] == "up" else "d", ev[2]])
        reqs.append({"cmd": "c20.fan", "n": c["n"], "ops": ops})
    model = ctx.model(reqs)
    for i, (c, o) in enumerate(zip(cases, obs)):
        ctx.evaluations += 1
        ctx.count("fanout.n", c["n"])
        ctx.distinct(["fanout", c["n"], c["up"], c["down"], c["variant"]])
        ctx.sample(c, cap=3)
        if "error" in o:
            ctx.violation("fanout_hangs_or_raises", c, o, {"family": "fanout"})
            continue
        log = o["log"]
        for kind, typ in (("up", "lifespan.startup.complete"), ("down", "lifespan.shutdown.complete")):
            fw = [k for k, ev in enumerate(log) if ev == ("forward", typ)]
            reports = [k for k, ev in enumerate(log) if ev[0] == "report" and ev[1] == kind]
            if len(fw) != 1 or len(reports) != c["n"] or fw[0] < max(reports):
                ctx.violation("fanout_completion", c, {"log": log, "kind": kind}, {"family": "fanout", "kind": kind})
        if any(g != ["lifespan.startup", "lifespan.shutdown"] for g in o["got"].values()):
            ctx.violation("fanout_broadcast", c, o["got"], {"family": "fanout"})
        if model is not None:
            ctx.disagreements_checked += 1
            m = model[i].get("ok")
            impl_fw = []
            k = 0
            # forwarded flag after each report op = whether a forward event directly follows in the log
            for j, ev in enumerate(log):
                if ev[0] == "report":
                    impl_fw.append(j + 1 < len(log) and log[j + 1][0] == "forward")
            if m is None or m["forwarded"] != impl_fw:
                ctx.disagree("c20.fan", c, model[i], impl_fw)


# --------------------------------------------------------------------------------------------------------------
# HTTPS redirect
# --------------------------------------------------------------------------------------------------------------
HOSTS = ["example.com", "a.example:8080", "h\xe9.test", "[::1]:80", "x"]
RPATHS = ["/", "/a/b", "/p%20q", "", "a", "//evil", "/x;y", "*"]
# request targets whose percent-decoded form differs from what was sent (scope["path"] != scope["raw_path"].decode()):
# escaped space, `?` (would start a query), `#` (a fragment), `/`, `%`, CR LF, UTF-8, dot segments, malformed / lower-case escapes
ESCAPED = ["/a%20b", "/files/report%3F2024.pdf", "/tag/c%23", "/a%2Fb", "/100%25", "/x%0d%0aSet-Cookie:%20a=b", "/caf%C3%A9",
           "/%e4%b8%ad/%E6%96%87", "/%2e%2e/etc", "/%zz", "/trailing%", "/%41bc", "/a%2520b", "/%3f%23", "/a%00b", "%2Fno-slash"]
QUERIES = ["", "a=1", "a=1&b=%20", "?"]
ROOTS = ["", "/root", "/r/"]
HEX = "0123456789ABCDEFabcdef"


def _decoded_path(raw_path: str) -> str:
    """scope["path"] as hypercorn's protocol layer derives it from the target (http_stream.py / ws_stream.py)"""
    return unquote(raw_path)


def _random_target(rng) -> str:
    out = []
    for _ in range(rng.randint(1, 4)):
        seg = ""
        for _ in range(rng.randint(0, 4)):
            r = rng.random()
            if r < 0.45:
                seg += rng.choice("abcXYZ019-._~;=+,")
            elif r < 0.9:
                seg += "%" + rng.choice(HEX) + rng.choice(HEX)
            else:
                seg += rng.choice(["%", "%2", "%G1", "%%"])
        out.append(seg)
    return "/" + "/".join(out)


def _redirect_case(kind: str, secure: bool, http_version: str, ws_ext: bool, cfg_host, hdr_host, second_host: bool, root_path: str,
                   raw_path: str, query: str, path: Optional[str] = None) -> dict:
    scheme = {"http": "https" if secure else "http", "websocket": "wss" if secure else "ws", "lifespan": ""}[kind]
    return {"family": "redirect", "kind": kind, "scheme": scheme, "http_version": http_version, "ws_ext": ws_ext, "cfg_host": cfg_host,
            "hdr_host": hdr_host, "second_host": second_host, "root_path": root_path, "raw_path": raw_path,
            "path": _decoded_path(raw_path) if path is None else path, "query": query}


def redirect_corpus() -> List[dict]:
    """deterministic: every escaped target x {http, websocket+extension on 1.1 and 2} x root path x query, host from the header or
    the constructor; plus secure scopes with the same targets (must pass through untouched)"""
    cases = []
    for i, raw in enumerate(ESCAPED):
        for j, (kind, ver, ext) in enumerate((("http", "1.1", False), ("websocket", "1.1", True), ("websocket", "2", True))):
            root = ROOTS[(i + j) % len(ROOTS)]
            query = QUERIES[(i + 2 * j) % len(QUERIES)]
            cfg = None if (i + j) % 2 == 0 else HOSTS[i % len(HOSTS)]
            cases.append(_redirect_case(kind, False, ver, ext, cfg, HOSTS[(i + j) % len(HOSTS)], False, root, raw, query))
        cases.append(_redirect_case("http", True, "1.1", False, None, "example.com", False, "", raw, ""))
    # a path rewritten by an outer middleware (DispatcherMiddleware strips the mount prefix from `path`, not from `raw_path`)
    cases.append(_redirect_case("http", False, "1.1", False, None, "example.com", False, "", "/mount/a%20b", "x=1", path="/a b"))
    return cases


def gen_redirect(ctx: Ctx, n: int) -> List[dict]:
    rng = ctx.rng
    cases = redirect_corpus()
    for _ in range(n):
        kind = rng.choice(["http", "http", "websocket", "websocket", "lifespan"])
        secure = rng.random() < 0.25
        cfg_host = rng.choice([None, None, rng.choice(HOSTS)])
        hdr_host = rng.choice([None, rng.choice(HOSTS), rng.choice(HOSTS)])
        if cfg_host is None and hdr_host is None and rng.random() < 0.8:
            hdr_host = rng.choice(HOSTS)
        r = rng.random()
        raw = rng.choice(RPATHS) if r < 0.4 else (rng.choice(ESCAPED) if r < 0.6 else _random_target(rng))
        cases.append(_redirect_case(kind, secure, rng.choice(["1.1", "1.1", "2", "1.0"]), rng.random() < 0.75, cfg_host, hdr_host,
                                    rng.random() < 0.2, rng.choice(ROOTS), raw, rng.choice(QUERIES)))
    return cases


def _target_class(c: dict) -> str:
    raw, dec = c["raw_path"], c.get("path", c["raw_path"])
    if dec == raw:
        return "plain"
    cls = [name for name, ch in (("query-sep", "?"), ("fragment", "#"), ("slash", "/"), ("percent", "%"), ("space", " "), ("crlf", "\n"))
           if dec.count(ch) > raw.count(ch)]
    if any(ord(ch) > 127 for ch in dec):
        cls.append("non-ascii")
    return "escaped:" + ("+".join(cls) if cls else "other")


def check_redirect(ctx: Ctx, cases: List[dict]) -> None:
    from hypercorn.middleware import HTTPToHTTPSRedirectMiddleware

    async def one(c):
        seen: Dict[str, Any] = {}

        async def app(scope, receive, send):
            seen["scope"] = scope

        headers = [(b"accept", b"*/*")]
        if c["hdr_host"] is not None:
            headers.append((b"host", c["hdr_host"].encode("latin-1")))
            if c["second_host"]:
                headers.append((b"host", b"second.example"))
        scope: Dict[str, Any] = {"type": c["kind"], "headers": headers, "root_path": c["root_path"],
                                 "raw_path": c["raw_path"].encode(), "query_string": c["query"].encode(),
                                 "http_version": c["http_version"], "path": c.get("path", c["raw_path"])}
        if c["kind"] != "lifespan":
            scope["scheme"] = c["scheme"]
        if c["kind"] == "websocket" and c["ws_ext"]:
            scope["extensions"] = {"websocket.http.response": {}}
        elif c["kind"] == "websocket":
            scope["extensions"] = {}
        snap = copy.deepcopy(scope)
        sent: List[dict] = []

        async def send(m):
            sent.append(m)

        try:
            await HTTPToHTTPSRedirectMiddleware(app, c["cfg_host"])(scope, None, send)
        except ValueError:
            return {"action": "value_error"}, scope, snap, seen
        if "scope" in seen:
            return {"action": "pass"}, scope, snap, seen
        types = [m["type"] for m in sent]
        if types == ["http.response.start", "http.response.body"] and sent[0]["status"] == 307:
            return {"action": "http_redirect", "url": dict(sent[0]["headers"])[b"location"].decode()}, scope, snap, seen
        if types == ["websocket.http.response.start", "websocket.http.response.body"] and sent[0]["status"] == 307:
            return {"action": "ws_redirect", "url": dict(sent[0]["headers"])[b"location"].decode()}, scope, snap, seen
        if types == ["websocket.close"]:
            return {"action": "ws_close"}, scope, snap, seen
        return {"action": "other", "sent": repr(sent)}, scope, snap, seen

    async def runall():
        return [await one(c) for c in cases]

    results = asyncio.run(runall())
    reqs = [{"cmd": "c20.redirect", "host": c["cfg_host"],
             "scope": {"kind": c["kind"], "scheme": c["scheme"], "http_version": c["http_version"], "ws_ext": c["kind"] == "websocket" and c["ws_ext"],
                       "host_header": c["hdr_host"], "root_path": c["root_path"], "raw_path": c["raw_path"], "path": c.get("path", c["raw_path"]),
                       "query": c["query"]}} for c in cases]
    model = ctx.model(reqs)
    for i, (c, (act, scope, snap, seen)) in enumerate(zip(cases, results)):
        ctx.evaluations += 1
        cleartext = (c["kind"], c["scheme"]) in (("http", "http"), ("websocket", "ws"))
        host = c["cfg_host"] if c["cfg_host"] is not None else c["hdr_host"]
        tcls = _target_class(c)
        ctx.count("redirect.kind", f"{c['kind']}/{c['scheme']}")
        ctx.count("redirect.target", tcls)
        if cleartext:
            ctx.distinct(["redirect", c["kind"], c["http_version"] == "2", c["cfg_host"] is not None, c["hdr_host"] is not None, c["ws_ext"],
                          c["root_path"] != "", c["query"] != "", tcls])
        ctx.sample(c, cap=2)
        if not cleartext:
            if act["action"] != "pass" or seen.get("scope") != snap:
                ctx.violation("secure_not_passed_through", c, act, {"family": "redirect"})
        elif host:
            exp_scheme = "https" if c["kind"] == "http" or c["http_version"] == "2" else "wss"
            if c["kind"] == "websocket" and not c["ws_ext"]:
                if act["action"] != "ws_close":
                    ctx.violation("ws_without_extension_not_closed", c, act, {"family": "redirect"})
            else:
                want = "http_redirect" if c["kind"] == "http" else "ws_redirect"
                ok = act["action"] == want
                if ok:
                    u = urlsplit(act["url"])
                    p = c["root_path"] + c["raw_path"]
                    p = p if (p == "" or p.startswith("/")) else "/" + p
                    ok = (u.scheme == exp_scheme and u.netloc == host and u.path == p and u.query == c["query"] and act["url"].startswith(f"{exp_scheme}://{host}"))
                    # the same resource: the target's path and query go back octet for octet as they were sent (no escape is
                    # decoded into a delimiter, a space or a control character), nothing is appended
                    ok = ok and u.fragment == "" and act["url"] == f"{exp_scheme}://{host}{p}" + (f"?{c['query']}" if c["query"] else "")
                if not ok:
                    ctx.violation("redirect_target", c, act, {"family": "redirect", "kind": c["kind"], "target": tcls.split(":")[0]})
        if model is not None:
            ctx.disagreements_checked += 1
            if model[i].get("ok") != act:
                ctx.disagree("c20.redirect", c, model[i], act)


FAMILIES = {"proxy": check_proxy, "dispatch": check_dispatch, "fanout": check_fanout, "redirect": check_redirect}


def run(ctx: Ctx) -> None:
    check_proxy(ctx, gen_proxy(ctx, ctx.budget(1500, 60000)))
    check_dispatch(ctx, gen_dispatch(ctx, ctx.budget(600, 20000)))
    fan = gen_fanout(ctx)
    if not ctx.thorough:
        fan = [c for c in fan if c["n"] <= 2] + ctx.rng.sample([c for c in fan if c["n"] == 3], 12)
    else:
        ctx.extra["fanout_orders_exhaustive_up_to_3_mounts"] = True
    check_fanout(ctx, fan)
    check_redirect(ctx, gen_redirect(ctx, ctx.budget(800, 30000)))


def replay(ctx: Ctx, case: dict) -> None:
    FAMILIES[case["family"]](ctx, [case])
