"""C13 — protocol selection and upgrades lose no bytes and ignore segmentation.

Layer 1: direct drive of `H11Protocol` on openings (plain, h2c with / without body, prior-knowledge preface,
websocket) compared with the Lean model (`checkProtocol`, `isWebsocketRequest`, switch outputs).
Layer 2: end to end through `TCPServer` (both workers): every opening followed by further traffic, **every** two-way
split of the client's bytes, random k-way splits; the protocol actually spoken is read off the scopes and off the wire
with independent h11 / h2 clients, and must be the same for every split of the same session."""
from __future__ import annotations

import random
from typing import Any, Dict, List, Optional, Tuple

import h2.config
import h2.connection

from ..core import clients as C
from ..core import h11sessions as HS
from ..core import runner as R
from ..core.framework import Ctx, b2s

SPEC = {
    "modules": ["HC.Props.C13"],
    "extracted": ["Guards", "Consts", "H11Tables", "H2Init"],
    "technique": "Lean 4: selection function characterised (ALPN, h2c iff Upgrade: h2c and no body headers, preface iff PRI * HTTP/2.0), byte-accounting theorem over arbitrary later reads for both switches (h2 input = client bytes from the cut on), stream-1 header synthesis law — tied by direct drive of H11Protocol and by end-to-end runs over every two-way split of every opening on both workers",
    "level_text": "Proved in Lean: the protocol is selected by ALPN (h2 iff 'h2'), an h2c upgrade is taken iff the last Upgrade header is h2c (any case) and no content-length / transfer-encoding header is present, the cleartext preface iff the request line is PRI * HTTP/2.0, everything else stays HTTP/1.x (an h2c upgrade with a body is ignored); after either switch the HTTP/2 machine has been given exactly the client's bytes from the cut on (preface line re-attached for prior knowledge, trailing data for h2c), for every later sequence of reads - nothing lost, duplicated or reordered - and no later read reaches the HTTP/1 machine; stream 1 of an h2c upgrade carries the request's method, target and headers with host first.  End to end: six opening kinds x further traffic x both workers, every two-way split of the client's byte string (exhaustive per session) plus random k-way splits; the protocol spoken, the scopes and the responses must agree with the specification and be identical across all splits.",
    "level_note": "Trusted: Lean kernel; model HC/Proto/{H11,Wrapper}.lean; h11's trailing_data (bytes buffered past the parsed head) and h2's upgrade handling (initiate_upgrade_connection, HTTP2-Settings decoding) are library behaviour; TLS/ALPN negotiation is an input (the harness presents an ssl object reporting 'h2').",
    "rule": "opening kind x follow-up x worker x split; every two-way split of each session's byte string is enumerated; distinct = (opening, follow-up, worker, split class); non-trivial = a switch or an upgrade is involved",
    "trusted": ["h11 trailing_data semantics", "h2 upgrade/preface handling"],
    "partial": [],
    "assumptions": [],
}

OK_SCRIPT = [["recv_body"], ["send", {"type": "http.response.start", "status": 200, "headers": [(b"content-length", b"2")]}],
             ["send", {"type": "http.response.body", "body": b"ok"}]]
WS_SCRIPT = [["recv"], ["send", {"type": "websocket.accept"}], ["recv"], ["send", {"type": "websocket.send", "text": "echo"}], ["recv"]]


H2C_KINDS = ("h2c", "h2c_settings", "h2c_absent", "h2c_custom", "h2c_twice")


def build_opening(kind: str) -> dict:
    """client byte string + what the specification says must happen"""
    if kind == "alpn_h2":
        c = C.H2Client()
        c.request(C.h2_headers("GET", "/one"))
        c.request(C.h2_headers("POST", "/two"), b"body2")
        return {"alpn": "h2", "bytes": c.out(), "expect": {"proto": "2", "scopes": [("2", "GET", "/one"), ("2", "POST", "/two")]}, "parse": "h2"}
    if kind == "prior":
        c = C.H2Client()
        c.request(C.h2_headers("GET", "/one"))
        c.request(C.h2_headers("POST", "/two"), b"body2")
        return {"alpn": None, "bytes": c.out(), "expect": {"proto": "2", "scopes": [("2", "GET", "/one"), ("2", "POST", "/two")]}, "parse": "h2"}
    if kind in H2C_KINDS:
        # the HTTP2-Settings payloads: empty value, the client's real settings, header absent, a hand-made payload
        # (MAX_CONCURRENT_STREAMS=100, INITIAL_WINDOW_SIZE=65535), the header twice (the last one counts)
        conn = h2.connection.H2Connection(config=h2.config.H2Configuration(client_side=True, header_encoding=None))
        settings = conn.initiate_upgrade_connection()
        payload = {"h2c": [b""], "h2c_settings": [settings], "h2c_absent": [], "h2c_custom": [b"AAMAAABkAAQAAP__"],
                   "h2c_twice": [b"AAMAAABk", b""]}[kind]
        head = C.h1_request("GET", "/up?x=1", [(b"host", b"h.example"), (b"upgrade", b"h2c"), (b"connection", b"Upgrade, HTTP2-Settings")]
                            + [(b"http2-settings", p) for p in payload] + [(b"x-a", b"1")])
        conn.send_headers(3, C.h2_headers("GET", "/second"), end_stream=True)
        rest = conn.data_to_send()
        return {"alpn": None, "bytes": head + rest, "cut": len(head),
                "expect": {"proto": "2", "scopes": [("2", "GET", "/up"), ("2", "GET", "/second")], "status101": True}, "parse": "h2c"}
    if kind == "h2c_body":
        head = C.h1_request("POST", "/up", [(b"host", b"h.example"), (b"upgrade", b"h2c"), (b"connection", b"Upgrade, HTTP2-Settings"),
                                            (b"http2-settings", b"")], b"abc")
        second = C.h1_request("GET", "/second", [(b"host", b"h.example")])
        return {"alpn": None, "bytes": head + second, "expect": {"proto": "1.1", "scopes": [("1.1", "POST", "/up"), ("1.1", "GET", "/second")]}, "parse": "h1",
                "methods": ["POST", "GET"]}
    if kind == "ws":
        ws = C.WsClient() if hasattr(C, "WsClient") else None
        head = C.h1_request("GET", "/chat", [(b"host", b"h.example"), (b"upgrade", b"websocket"), (b"connection", b"Upgrade"),
                                             (b"sec-websocket-key", HS.WS_KEY), (b"sec-websocket-version", b"13")])
        from wsproto.connection import Connection, ConnectionType
        from wsproto.events import TextMessage
        wc = Connection(ConnectionType.CLIENT)
        frames = wc.send(TextMessage(data="hello"))
        # a client sends frames only once it has seen the 101 (frames before acceptance are answered 400 by design)
        return {"alpn": None, "bytes": head, "after": frames, "expect": {"proto": "ws", "scopes": [("1.1", "websocket", "/chat")]}, "parse": "ws"}
    if kind == "plain11":
        b = C.h1_request("GET", "/a", [(b"host", b"x")]) + C.h1_request("POST", "/b", [(b"host", b"x")], b"zz")
        return {"alpn": None, "bytes": b, "expect": {"proto": "1.1", "scopes": [("1.1", "GET", "/a"), ("1.1", "POST", "/b")]}, "parse": "h1", "methods": ["GET", "POST"]}
    if kind == "plain10":
        b = C.h1_request("GET", "/a", [(b"host", b"x")], version="1.0")
        return {"alpn": None, "bytes": b, "expect": {"proto": "1.0", "scopes": [("1.0", "GET", "/a")]}, "parse": "h1", "methods": ["GET"]}
    if kind == "alpn_http11":
        b = C.h1_request("GET", "/a", [(b"host", b"x"), (b"upgrade", b"foo")])
        return {"alpn": "http/1.1", "bytes": b, "expect": {"proto": "1.1", "scopes": [("1.1", "GET", "/a")]}, "parse": "h1", "methods": ["GET"]}
    raise ValueError(kind)


def stream_views(streams: Dict[str, dict]) -> List[list]:
    """what the independent client saw per stream, as a split-independent (sorted) list of [status, ended, data, reset].
    Total on anything a misbehaving server can produce: an unanswered stream has status None, a head without (or with a
    non-numeric) `:status` has status -1 - neither may break the harness, both are judged by the monitor."""
    views = []
    for st in streams.values():
        status: Optional[int] = None
        if st.get("headers"):
            raw = dict((n, v) for n, v in st["headers"]).get(":status")
            status = int(raw) if isinstance(raw, str) and raw.isdigit() else -1
        views.append([status, bool(st.get("ended")), st.get("data"), st.get("reset")])
    return sorted(views, key=lambda v: (v[0] is None, v[0] if v[0] is not None else 0, v[1], str(v[2]), str(v[3])))


OPENINGS = ["alpn_h2", "prior", "h2c", "h2c_settings", "h2c_absent", "h2c_custom", "h2c_twice", "h2c_body", "ws", "plain11", "plain10", "alpn_http11"]


def observe(worker: str, op: dict, reads: List[bytes]) -> dict:
    scripts = [WS_SCRIPT] if op["parse"] == "ws" else [OK_SCRIPT]

    async def client(io):
        for chunk in reads:
            await io.send(chunk)
        await io.sleep(0.5)
        if op.get("after"):
            await io.send(op["after"])
        await io.sleep(0.5)

    res = R.RUNNERS[worker]({"keep_alive_timeout": 2}, op["alpn"], client, scripts, tail=8)
    scopes = [(a["scope"].get("http_version"), a["scope"].get("method") or a["scope"]["type"], a["scope"]["path"]) for a in res["apps"]]
    out = res["out"]
    wire: Dict[str, Any] = {}
    if op["parse"] == "h1":
        p = C.parse_h1(out, op["methods"])
        wire = {"statuses": [r["status"] for r in p["responses"] if not r.get("informational")], "error": p["error"]}
    elif op["parse"] in ("h2", "h2c"):
        rest = out
        wire["status101"] = False
        if op["parse"] == "h2c":
            head, sep, rest = out.partition(b"\r\n\r\n")
            wire["status101"] = head.startswith(b"HTTP/1.1 101")
            wire["upgrade_header"] = b"upgrade: h2c" in head.lower()
        cc = C.H2Client()
        if op["parse"] == "h2c":
            # a client that upgraded has stream 1 half-closed(local) and stream 3 open: replay its side
            cc = C.H2Client()
            cc.conn = h2.connection.H2Connection(config=h2.config.H2Configuration(client_side=True, header_encoding=None))
            cc.conn.initiate_upgrade_connection()
            cc.conn.send_headers(3, C.h2_headers("GET", "/second"), end_stream=True)
            cc._st(1)
            cc._st(3)
        else:
            cc.request(C.h2_headers("GET", "/one"))
            cc.request(C.h2_headers("POST", "/two"), b"body2")
        cc.conn.data_to_send()
        cc.receive(rest)
        s = cc.summary()
        wire.update({"statuses": stream_views(s["streams"]), "error": s["error"]})
    else:
        head, sep, rest = out.partition(b"\r\n\r\n")
        wire = {"status101": head.startswith(b"HTTP/1.1 101"), "frames": len(rest) > 0}
    recv = []
    for a in res["apps"]:
        if a["scope"]["type"] == "http":
            msgs = [m for m in a["recv"] if m[1] == "http.request"]
            recv.append(["http", "".join(m[2] for m in msgs), sum(1 for m in msgs if m[3] is False)])
        else:
            recv.append([m[1:] for m in a["recv"]])
    return {"scopes": scopes, "wire": wire, "recv": recv, "error": res["error"], "loop_errors": res["loop_errors"], "closed_at": res["closed_at"]}


def check_e2e(ctx: Ctx, kinds: List[str], workers: List[str], exhaustive: bool) -> None:
    for kind in kinds:
        op = build_opening(kind)
        data = op["bytes"]
        L = len(data)
        for worker in workers:
            rng = random.Random(hash((kind, worker, ctx.seed)) & 0xFFFFFF)
            splits: List[List[bytes]] = [[data]]
            if exhaustive:
                splits += [[data[:k], data[k:]] for k in range(1, L)]
            else:
                ks = sorted(set([1, L - 1] + [rng.randrange(1, L) for _ in range(ctx.budget(12, 60))] + ([op["cut"], op["cut"] - 1, op["cut"] + 1] if "cut" in op else [])))
                splits += [[data[:k], data[k:]] for k in ks if 0 < k < L]
            splits += [HS.split_bytes(rng, data, "random") for _ in range(3)]
            if L < 500:
                splits.append(HS.split_bytes(rng, data, "bytewise"))
            ref = None
            for reads in splits:
                o = observe(worker, op, reads)
                ctx.evaluations += 1
                cls = "one" if len(reads) == 1 else ("two" if len(reads) == 2 else ("bytewise" if len(reads) == L else "kway"))
                ctx.count("opening", kind)
                ctx.count("split", cls)
                case = {"family": "e2e", "opening": kind, "worker": worker, "reads": [len(x) for x in reads]}
                sig = {"family": "e2e", "opening": kind, "worker": worker}
                if kind not in ("plain11", "plain10", "alpn_http11"):
                    ctx.distinct([kind, worker, cls, reads[0].__len__() if cls == "two" else 0])
                if o["error"] or o["loop_errors"]:
                    ctx.violation("handler_exception", case, {"error": o["error"], "loop": o["loop_errors"]}, {**sig, "kind": "internal"})
                    continue
                exp = op["expect"]
                want_scopes = sorted(exp["scopes"])
                if sorted(tuple(s) for s in o["scopes"]) != want_scopes:
                    clause = "h2c_upgrade_served_as_stream_1" if kind in H2C_KINDS else "protocol_selection"
                    ctx.violation(clause, case, {"scopes": o["scopes"], "want": want_scopes, "wire": o["wire"]}, sig if clause == "protocol_selection" else {"clause": clause})
                w = o["wire"]
                if op["parse"] == "h1" and (w["error"] or w["statuses"] != [200] * len(exp["scopes"])):
                    ctx.violation("not_all_answered", case, w, sig)
                if op["parse"] in ("h2", "h2c"):
                    ok = w["error"] is None and len(w["statuses"]) == len(exp["scopes"]) and all(s[0] == 200 and s[1] and s[2] == "ok" for s in w["statuses"])
                    if op["parse"] == "h2c":
                        ok = ok and w["status101"] and w["upgrade_header"]
                    if not ok:
                        ctx.violation("h2c_upgrade_served_as_stream_1" if op["parse"] == "h2c" else "not_all_answered", case, w,
                                      {"clause": "h2c_upgrade_served_as_stream_1"} if op["parse"] == "h2c" else sig)
                if op["parse"] == "ws":
                    got = [m for a in o["recv"] for m in a if isinstance(m, list)]
                    if not w["status101"] or ["websocket.receive", {"text": "hello"}] not in got:
                        ctx.violation("bytes_lost_across_upgrade", case, {"wire": w, "recv": o["recv"]}, sig)
                view = [sorted(tuple(s) for s in o["scopes"]), {k: v for k, v in w.items()}, o["recv"]]
                if ref is None:
                    ref = view
                elif view != ref:
                    ctx.violation("segmentation_dependent", case, {"view": view, "ref": ref}, sig)
            ctx.sample({"family": "e2e", "opening": kind, "worker": worker, "bytes": L, "splits": len(splits)}, cap=3)


def check_direct(ctx: Ctx, n: int) -> None:
    rng = ctx.rng
    for _ in range(n):
        opts = {"big": False, "weights": [3, 2, 1, 1, 1, 1, 1, 3, 4, 3, 0]}
        reqs = [HS.gen_request(rng, 0, opts)]
        if rng.random() < 0.25:
            reqs = [{"kind": "prior", "method": "PRI", "target": "*", "headers": [], "version": "2.0", "body": "", "chunks": None}]
        follow = HS.gen_request(rng, 1, {"big": False, "weights": [5, 2, 0, 0, 0, 0, 0, 0, 0, 0, 0]})
        blob = HS.request_bytes(reqs[0]) if reqs[0]["kind"] != "prior" else b"PRI * HTTP/2.0\r\n\r\nSM\r\n\r\n" + bytes(rng.randrange(256) for _ in range(rng.randint(0, 30)))
        blob2 = HS.request_bytes(follow)
        data = blob + (blob2 if reqs[0]["kind"] != "prior" else b"")
        case = {"family": "direct", "requests": reqs + [follow], "apps": [HS.gen_app(rng, r, {"no_crash": True}) for r in reqs + [follow]],
                "split": rng.choice(["one", "random", "bytewise"]), "seed": rng.randrange(1 << 30)}
        r2 = random.Random(case["seed"])
        reads = HS.split_bytes(r2, data, case["split"])
        policy = HS.Policy(r2, reads, case["requests"], case["apps"], eof=False, closed_at_end=False)
        mops, obs, lib = HS.run_session({}, policy)
        ctx.evaluations += 1
        ctx.traces_validated += 1
        ctx.count("direct.kind", reqs[0]["kind"])
        HS.compare_with_model(ctx, case, {}, mops, obs, lib)
        flat = [e for o in obs if o is not None for e in o["outs"]]
        k = reqs[0]["kind"]
        has_body_header = any(h in blob.lower().split(b"\r\n\r\n")[0] for h in (b"\r\ncontent-length:", b"\r\ntransfer-encoding:"))
        want = {"h2c": None if has_body_header else "switchH2c", "prior": "switchPrior"}.get(k)
        got = [e[0] for e in flat if e[0] in ("switchH2c", "switchPrior")]
        if (want is None and got) or (want is not None and got != [want]):
            ctx.violation("switch_decision", case, {"got": got, "want": want}, {"family": "direct", "kind": k})
        if k in ("h2c", "prior", "ws", "h2c_body"):
            ctx.distinct(["direct", k, case["split"]])


def run(ctx: Ctx) -> None:
    check_direct(ctx, ctx.budget(250, 6000))
    workers = ["asyncio", "trio"]
    if ctx.thorough:
        extra = {"h2c_absent": "asyncio", "h2c_custom": "trio", "h2c_twice": "asyncio"}
        check_e2e(ctx, [k for k in OPENINGS if k not in extra], workers, exhaustive=True)
        for k, w in extra.items():
            check_e2e(ctx, [k], [w], exhaustive=True)
            check_e2e(ctx, [k], [x for x in workers if x != w], exhaustive=False)
        ctx.extra["two_way_splits_exhaustive"] = "all openings on both workers (the additional HTTP2-Settings payloads h2c_absent / h2c_custom / h2c_twice on one worker each, sampled on the other)"
    else:
        # exhaustive two-way splits for the upgrade openings on alternating workers, sampled splits for the rest
        check_e2e(ctx, ["h2c"], ["asyncio"], exhaustive=True)
        check_e2e(ctx, ["prior"], ["trio"], exhaustive=True)
        check_e2e(ctx, [k for k in OPENINGS], workers, exhaustive=False)
        ctx.extra["two_way_splits_exhaustive"] = "h2c on asyncio, prior on trio"


def replay(ctx: Ctx, case: dict) -> None:
    if case.get("family") == "e2e":
        op = build_opening(case["opening"])
        data = op["bytes"]
        reads, pos = [], 0
        for n in case["reads"]:
            reads.append(data[pos:pos + n])
            pos += n
        o = observe(case["worker"], op, reads)
        exp = op["expect"]
        if sorted(tuple(s) for s in o["scopes"]) != sorted(exp["scopes"]) or o["error"]:
            clause = "h2c_upgrade_served_as_stream_1" if case["opening"] in H2C_KINDS else "protocol_selection"
            ctx.violation(clause, case, o, {"clause": clause} if clause != "protocol_selection" else {"family": "e2e", "opening": case["opening"], "worker": case["worker"]})
    else:
        check_direct(ctx, 50)
