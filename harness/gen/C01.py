"""C01 — HTTP request delivery fidelity (scope and body reach the application exactly).

Layer 1: direct drive of `H11Protocol` (sessions of harness/core/h11sessions.py) — scope and body monitors + model.
Layer 2: `filter_pseudo_headers` against the Lean function on random header lists.
Layer 3: end-to-end on both workers, HTTP/1.0, 1.1 and 2, every two-way split of short requests, random k-way and
one-byte-per-read splits, eager / lazy / slow consumers (more chunks than the app queue holds)."""
from __future__ import annotations

import random
from typing import Any, Dict, List, Optional, Tuple

from ..core import clients as C
from ..core import h11sessions as HS
from ..core import runner as R
from ..core import streams as S
from ..core.framework import Ctx, b2s

SPEC = {
    "modules": ["HC.Props.C01"],
    "extracted": ["Guards", "Consts", "H11Tables"],
    "technique": "Lean 4: scope construction law (target split, method, headers), per-event forwarding lemmas and a transducer theorem for runs of body events (concatenation / one final message / segmentation independence at the glue), filter_pseudo_headers spec, one instance per request (with C06 serial) — tied by direct drive of H11Protocol with h11 taps and by end-to-end runs on both workers over every two-way split",
    "level_text": "Proved in Lean: the HTTP/1 scope is exactly (upper-cased method, target split at the first '?' with nothing lost, version, header list as h11 reports it or raw when configured); a WebSocket scope is chosen iff GET + Upgrade: websocket + Connection upgrade token; on HTTP/2 the header list is host (from :authority, else host) followed by the non-pseudo, non-host headers in order; every Data / EndOfMessage event of the parser is forwarded to the live instance as exactly one http.request message carrying those bytes; for every chunking of the body the messages concatenate to the body with exactly one more_body=False message iff the parser reported completion, independently of how the parser cut the bytes; handling a Request spawns exactly one instance, and (C06) only when none is live.  That the parsers' events carry the client's bytes for every segmentation is library behaviour: sampled end-to-end on both workers (HTTP/1.0, 1.1, 2; content-length, chunked, DATA frames; every two-way split of requests <= 300 bytes, random k-way and one-byte-per-read splits; eager, lazy and slow consumers with more chunks than the bounded app queue holds).",
    "level_note": "Trusted: Lean kernel; models HC/Proto/H11.lean, HC/Stream/Http.lean, HC/Pure/Utils.lean (differential runs); h11 / h2 / hpack parsing and the asyncio Queue / trio memory channel FIFO semantics are library behaviour (sampled); urllib.parse.unquote is compared with an independent percent-decoder written in the harness; the HTTP/2 protocol glue is covered end-to-end only (no Lean model of H2Protocol's receive side beyond filter_pseudo_headers).",
    "rule": "request kinds x framing x body-size class x split class x consumer class x protocol x worker; every two-way split of sessions <= 300 bytes is enumerated (exhaustive for those sessions); distinct = (protocol, framing, pipeline length, body-size class, split class, consumer class); non-trivial = non-empty body or a pipeline",
    "trusted": ["h11 0.16 / h2 4.4.1 parsers", "asyncio.Queue and trio memory channels"],
    "partial": ["methods are compared after ASCII upper-casing; non-UTF-8 percent-escapes are compared through Python's replacement policy"],
    "assumptions": [],
}


def pct_decode(raw: bytes) -> str:
    """independent oracle for `unquote(path.decode('ascii'))`"""
    out = bytearray()
    i = 0
    hexd = b"0123456789abcdefABCDEF"
    while i < len(raw):
        if raw[i] == 0x25 and i + 2 < len(raw) + 0 and i + 2 <= len(raw) - 1 + 0 and raw[i + 1] in hexd and raw[i + 2] in hexd:
            out.append(int(raw[i + 1:i + 3], 16))
            i += 3
        else:
            out.append(raw[i])
            i += 1
    return out.decode("utf-8", "replace")


def expected_scope_h1(r: dict) -> dict:
    target = r["target"].encode("latin1")
    raw_path, _, query = target.partition(b"?")
    headers = [[n.lower(), v.strip(" \t")] for n, v in r["headers"]]
    if r["chunks"] is not None:
        headers.append(["transfer-encoding", "chunked"])
    elif r["body"] or r["method"] in ("POST", "PUT", "PATCH"):
        if not any(n == "content-length" for n, _ in headers):
            headers.append(["content-length", str(len(r["body"]))])
    return {"method": r["method"].upper(), "raw_path": b2s(raw_path), "query_string": b2s(query), "path": pct_decode(raw_path),
            "http_version": r["version"], "headers": headers}


def check_scope(ctx: Ctx, case: dict, k: int, r: dict, scope: dict, where: str, extra_sig: dict) -> None:
    want = expected_scope_h1(r)
    got = {"method": scope["method"], "raw_path": scope["raw_path"], "query_string": scope["query_string"],
           "path": scope.get("_path", scope.get("path")), "http_version": scope["http_version"], "headers": scope["headers"]}
    if got != want:
        diff = {f: [got[f], want[f]] for f in want if got[f] != want[f]}
        ctx.violation("scope", {**case, "where": where}, {"k": k, "diff": diff}, {"family": where, "fields": sorted(diff), **extra_sig})


def check_direct(ctx: Ctx, cases: List[dict]) -> None:
    for case in cases:
        rng = random.Random(case["seed"])
        blobs = [HS.request_bytes(r) for r in case["requests"]]
        reads = blobs if case["split"] == "per_request" else HS.split_bytes(rng, b"".join(blobs), case["split"])
        cfg = {"keep_alive_max_requests": 1000}
        policy = HS.Policy(rng, reads, case["requests"], case["apps"], eof=True)
        mops, obs, lib = HS.run_session(cfg, policy)
        ctx.evaluations += 1
        ctx.traces_validated += 1
        HS.compare_with_model(ctx, case, cfg, mops, obs, lib)
        flat: List[list] = []
        for o in obs:
            if o is not None:
                flat += o["outs"]
                if o.get("handler_exception"):
                    ctx.violation("handler_exception", case, o["handler_exception"], {"family": "direct", "error": o["handler_exception"]})
        spawns = [e for e in flat if e[0] == "spawn"]
        reqs = case["requests"]
        closes_early = False
        for k, sp in enumerate(spawns):
            if k >= len(reqs):
                ctx.violation("phantom_instance", case, sp, {"family": "direct"})
                break
            check_scope(ctx, case, k, reqs[k], sp[2], "direct", {})
            body = HS.request_body(reqs[k])
            msgs = [e[2] for e in flat if e[0] == "put" and e[1] == sp[1] and e[2][0] == "http.request"]
            got = "".join(m[1] for m in msgs).encode("latin1")
            finals = [m for m in msgs if m[2] is False]
            after_final = msgs[msgs.index(finals[0]) + 1:] if finals else []
            if not body.startswith(got) or len(finals) > 1 or (finals and got != body) or after_final:
                ctx.violation("body", case, {"k": k, "got": len(got), "want": len(body), "finals": len(finals)}, {"family": "direct"})
            a = case["apps"][k % len(case["apps"])]
            ctx.distinct(["direct", reqs[k]["kind"], len(reqs), "big" if len(body) > 1000 else ("none" if not body else "small"), case["split"], a["when"]])
        ctx.count("direct.split", case["split"])


def check_filter_pseudo(ctx: Ctx, n: int) -> None:
    from hypercorn.utils import filter_pseudo_headers
    rng = ctx.rng
    pool = [(b":method", b"GET"), (b":path", b"/"), (b":authority", b"a.example"), (b":authority", b"second"), (b":scheme", b"https"),
            (b"host", b"h.example"), (b"host", b"h2"), (b"user-agent", b"x"), (b"accept", b""), (b"x-a", b"1"), (b"x-a", b"2"), (b"cookie", b"a=b")]
    cases = [[rng.choice(pool) for _ in range(rng.randint(0, 8))] for _ in range(n)]
    model = ctx.model([{"cmd": "utils.filter_pseudo", "headers": S.headers_json(hs)} for hs in cases])
    for i, hs in enumerate(cases):
        ctx.evaluations += 1
        got = filter_pseudo_headers(list(hs))
        auth = [v for nm, v in hs if nm == b":authority"]
        host = [v for nm, v in hs if nm == b"host"]
        want = [(b"host", auth[-1] if auth else (host[-1] if host else b""))] + [(nm, v) for nm, v in hs if not nm.startswith(b":") and nm != b"host"]
        if got != want:
            ctx.violation("filter_pseudo", {"family": "filter_pseudo", "headers": S.headers_json(hs)}, S.headers_json(got), {"family": "filter_pseudo"})
        if model is not None:
            ctx.disagreements_checked += 1
            if model[i].get("ok") != S.headers_json(got):
                ctx.disagree("utils.filter_pseudo", S.headers_json(hs), model[i], S.headers_json(got))
    ctx.distinct(["filter_pseudo", "random"])


# --------------------------------------------------------------------------------------------------------------
# end to end
# --------------------------------------------------------------------------------------------------------------
def consumer_script(kind: str) -> List[list]:
    ok = [["send", {"type": "http.response.start", "status": 200, "headers": [(b"content-length", b"2")]}], ["send", {"type": "http.response.body", "body": b"ok"}]]
    if kind == "eager":
        return [["recv_body"]] + ok
    if kind == "slow":
        # sleeps before reading: the bounded app queue fills and back-pressures the reader
        return [["sleep", 0.5], ["recv_body"]] + ok
    if kind == "lazy":
        return [["sleep", 2.0], ["recv_body"]] + ok
    return [["recv_body"]] + ok


def e2e_observe(worker: str, proto: str, reads: List[bytes], reqs: List[dict], consumer: str, h2_bodies: Optional[list] = None) -> dict:
    scripts = [consumer_script(consumer)]
    if proto == "2":
        box: Dict[str, Any] = {}

        async def client(io):
            c = C.H2Client()
            box["c"] = c
            for r in reqs:
                body = HS.request_body(r)
                hs = [(n.lower().encode("latin1"), v.encode("latin1")) for n, v in r["headers"] if n.lower() != "host"]
                c.request(C.h2_headers(r["method"].upper(), r["target"], authority="x", extra=hs), body if (body or r["chunks"] is not None) else None)
            # the client's bytes, cut as the case says
            data = c.out()
            sizes = [len(x) for x in reads]
            pos = 0
            for n in sizes:
                await io.send(data[pos:pos + n])
                pos += n
            if pos < len(data):
                await io.send(data[pos:])
            await c.pump(io)
            await io.sleep(3.0)
            await c.pump(io)
            return c.summary()
        res = R.RUNNERS[worker]({}, "h2", client, scripts, tail=10)
    else:
        async def client(io):
            for chunk in reads:
                await io.send(chunk)
            await io.sleep(3.0)
        res = R.RUNNERS[worker]({}, None, client, scripts, tail=10)
    apps = [{"scope": a["scope"], "body": "".join(m[2] for m in a["recv"] if m[1] == "http.request"),
             "finals": sum(1 for m in a["recv"] if m[1] == "http.request" and m[3] is False),
             "msgs": len([m for m in a["recv"] if m[1] == "http.request"])} for a in res["apps"]]
    return {"apps": apps, "error": res["error"], "loop_errors": res["loop_errors"], "client_error": res["client_error"]}


def gen_e2e_session(ctx: Ctx) -> dict:
    rng = ctx.rng
    proto = rng.choice(["1.1", "1.1", "1.0", "2", "2"])
    n = 1 if proto == "1.0" else rng.choice([1, 1, 2, 3])
    opts = {"big": rng.random() < 0.35, "weights": [5, 5, 5 if proto != "2" else 0, 0, 0, 0, 1, 0, 0, 0, 0]}
    reqs = [HS.gen_request(rng, i, opts) for i in range(n)]
    for r in reqs:
        if proto == "1.0":
            r["version"] = "1.0"
            if r["chunks"] is not None:
                r["body"], r["chunks"] = "".join(r["chunks"]), None
        if proto == "2":
            r["method"] = r["method"].upper()
            if r["target"] == "/star":
                r["target"] = "/"
    # many small chunks: more than the bounded app queue (10) holds
    if rng.random() < 0.3 and proto != "1.0":
        reqs[0]["method"] = "POST"
        if proto == "2":
            reqs[0]["body"], reqs[0]["chunks"] = "m" * 25000, None
        else:
            reqs[0]["chunks"], reqs[0]["body"] = ["c%02d" % i for i in range(25)], ""
    return {"family": "e2e", "proto": proto, "requests": reqs, "consumer": rng.choice(["eager", "eager", "slow", "lazy"]),
            "worker": rng.choice(["asyncio", "trio"]), "seed": rng.randrange(1 << 30)}


def check_e2e(ctx: Ctx, sessions: List[dict], all_two_way: bool) -> None:
    for case in sessions:
        rng = random.Random(case["seed"])
        reqs = case["requests"]
        if case["proto"] == "2":
            c = C.H2Client()
            total = 24 + 9 + 6 * 1 + 60   # approximate; the split list is interpreted as sizes only
            blob_len = None
        blob = b"".join(HS.request_bytes(r) for r in reqs) if case["proto"] != "2" else None
        if blob is not None:
            L = len(blob)
        else:
            # build once to learn the length of the client's byte stream
            c = C.H2Client()
            for r in reqs:
                body = HS.request_body(r)
                hs = [(n.lower().encode("latin1"), v.encode("latin1")) for n, v in r["headers"] if n.lower() != "host"]
                c.request(C.h2_headers(r["method"].upper(), r["target"], authority="x", extra=hs), body if (body or r["chunks"] is not None) else None)
            L = len(c.out())
            blob = bytes(L)
        splits: List[List[bytes]] = [[blob]]
        if all_two_way and L <= 300:
            splits += [[blob[:k], blob[k:]] for k in range(1, L)]
            ctx.extra["two_way_splits_exhaustive_sessions"] = ctx.extra.get("two_way_splits_exhaustive_sessions", 0) + 1
        else:
            splits += [HS.split_bytes(rng, blob, "random") for _ in range(3)]
            if L <= 400:
                splits.append(HS.split_bytes(rng, blob, "bytewise"))
        ref = None
        for reads in splits:
            o = e2e_observe(case["worker"], case["proto"], reads, reqs, case["consumer"])
            ctx.evaluations += 1
            cls = "one" if len(reads) == 1 else ("two" if len(reads) == 2 else ("bytewise" if len(reads) == L else "kway"))
            ctx.count("e2e.split", cls)
            ctx.count("e2e.proto", case["proto"])
            sig = {"family": "e2e", "proto": case["proto"], "worker": case["worker"]}
            short = {"family": "e2e", "proto": case["proto"], "worker": case["worker"], "consumer": case["consumer"], "requests": reqs,
                     "reads": [len(x) for x in reads], "seed": case["seed"]}
            if o["error"] or o["loop_errors"] or o["client_error"]:
                ctx.violation("handler_exception", short, {k: o[k] for k in ("error", "loop_errors", "client_error")}, {**sig, "kind": "internal"})
                continue
            if len(o["apps"]) != len(reqs):
                ctx.violation("instance_count", short, {"got": len(o["apps"]), "want": len(reqs)}, sig)
            for k, (a, r) in enumerate(zip(o["apps"], reqs)):
                body = HS.request_body(r)
                if a["body"].encode("latin1") != body or a["finals"] != 1:
                    ctx.violation("body", short, {"k": k, "got": len(a["body"]), "want": len(body), "finals": a["finals"]}, sig)
                sc = a["scope"]
                if case["proto"] == "2":
                    target = r["target"].encode("latin1")
                    raw_path, _, query = target.partition(b"?")
                    want_h = [["host", "x"]] + [[n.lower(), v.strip()] for n, v in r["headers"] if n.lower() != "host"]   # h2 strips OWS
                    got = [sc["method"], sc["raw_path"], sc["query_string"], sc["path"], sc["http_version"], sc["scheme"], sc["headers"]]
                    want = [r["method"].upper(), b2s(raw_path), b2s(query), pct_decode(raw_path), "2", "https", want_h]
                    if got != want:
                        ctx.violation("scope", short, {"k": k, "got": got, "want": want}, {**sig, "fields": "h2"})
                else:
                    check_scope(ctx, short, k, r, {**sc, "_path": sc["path"]}, "e2e", {"proto": case["proto"]})
                    if sc["scheme"] != "http" or sc["client"] != ["127.0.0.1", 4242] or sc["server"] != ["162.1.1.1", 80]:
                        ctx.violation("scope_addresses", short, sc, sig)
                size = "big" if len(body) > 1000 else ("none" if not body else "small")
                ctx.distinct(["e2e", case["proto"], r["kind"], len(reqs), size, cls, case["consumer"]])
            # segmentation independence: the observation is the same for every split of the same session
            view = [[a["scope"], a["body"], a["finals"]] for a in o["apps"]]
            if ref is None:
                ref = view
            elif view != ref:
                ctx.violation("segmentation_dependent", short, {"reads": [len(x) for x in reads]}, sig)
        ctx.sample({"family": "e2e", "proto": case["proto"], "kinds": [r["kind"] for r in reqs], "consumer": case["consumer"], "splits": len(splits)}, cap=3)


def run(ctx: Ctx) -> None:
    rng = ctx.rng
    cases = []
    for i in range(ctx.budget(300, 15000)):
        n = rng.choice([1, 1, 2, 3])
        opts = {"big": rng.random() < 0.3, "weights": [6, 5, 5, 1, 1, 1, 1, 0, 0, 0, 0]}
        reqs = [HS.gen_request(rng, j, opts) for j in range(n)]
        apps = [HS.gen_app(rng, r, {"no_crash": True}) for r in reqs]
        cases.append({"family": "direct", "requests": reqs, "apps": apps, "split": rng.choice(["one", "random", "random", "bytewise", "per_request"]),
                      "seed": rng.randrange(1 << 30)})
    check_direct(ctx, cases)
    check_filter_pseudo(ctx, ctx.budget(400, 20000))
    sessions = [gen_e2e_session(ctx) for _ in range(ctx.budget(40, 1200))]
    # short sessions get every two-way split
    shorts = []
    for _ in range(ctx.budget(3, 40)):
        s = gen_e2e_session(ctx)
        s["requests"] = s["requests"][:1]
        r = s["requests"][0]
        r["body"], r["chunks"] = ("ab" if r["body"] or r["chunks"] else ""), None
        r["target"] = "/p?q=1"
        r["headers"] = r["headers"][:2]
        shorts.append(s)
    # corpus: uploads larger than one 64 KiB read / than the HTTP/2 flow-control window, on both workers
    for worker in ("asyncio", "trio"):
        for proto, n in (("2", 70000), ("2", 200000), ("1.1", 70000), ("1.1", 200000)):
            sessions.append({"family": "e2e", "proto": proto, "worker": worker, "consumer": "slow", "seed": 7 + n,
                             "requests": [{"kind": "body_cl", "method": "POST", "target": "/up", "headers": [["Host", "x"]], "version": "1.1",
                                           "body": "u" * n, "chunks": None}]})
    check_e2e(ctx, sessions, all_two_way=False)
    check_e2e(ctx, shorts, all_two_way=True)


def replay(ctx: Ctx, case: dict) -> None:
    if case.get("family") == "direct":
        check_direct(ctx, [case])
    elif case.get("family") == "filter_pseudo":
        check_filter_pseudo(ctx, 200)
    else:
        reads_sizes = case.get("reads")
        check_e2e(ctx, [case], all_two_way=True)
