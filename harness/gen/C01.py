"""C01 — HTTP request delivery fidelity (scope and body reach the application exactly).

Layer 1: direct drive of `H11Protocol` (sessions of harness/core/h11sessions.py) — scope and body monitors + model.
Layer 2: `filter_pseudo_headers` against the Lean function on random header lists.
Layer 3: end-to-end on both workers, HTTP/1.0, 1.1 and 2, every two-way split of short requests, random k-way and
one-byte-per-read splits, eager / lazy / slow consumers (more chunks than the app queue holds).
Layer 4: HTTP/2 connections carrying several requests, with applications that answer before (or without) reading the
body and clients that upload late: what a later request's application receives must not depend on them.
Layer 5: requests that last longer than a small keep_alive_timeout (uploads in pieces with pauses in virtual time, late
consumers, abandoned uploads) over every entry path: HTTP/1.0, 1.1 (content-length, chunked, an h2c offer that is not taken
up), cleartext HTTP/2 with prior knowledge (preface + SETTINGS + HEADERS + DATA in one read or cut anywhere), h2c upgrade,
ALPN h2; both workers.
All layers run under the configurations the statement names: raw headers on/off x server names set/unset, with the
client's own spelling of the header names (`Host`, `host`, `HOST` ...)."""
from __future__ import annotations

import random
from typing import Any, Dict, List, Optional, Tuple

from ..core import clients as C
from ..core import h11sessions as HS
from ..core import runner as R
from ..core import streams as S
from ..core.framework import Ctx, b2s, s2b

SPEC = {
    "modules": ["HC.Props.C01"],
    "extracted": ["Guards", "Consts", "H11Tables", "ReqGlue", "Runtime", "C04Sites"],
    "technique": "Lean 4: scope construction law (target split, method, headers), per-event forwarding lemmas and a transducer theorem for runs of body events (concatenation / one final message / segmentation independence at the glue), filter_pseudo_headers spec, one instance per request (with C06 serial); HTTP/2 END TO END: a contents-carrying wrapper of the C04 receive-side model of H2Protocol (HC/Proto/H2Deliver.lean: header lists, DATA payloads, flow-controlled lengths), frame conditions for every operation of that model, and delivery theorems over every run (h2_request_delivered, h2_request_end_to_end, h2_data_acked) composed with the HTTPStream transducer — tied by direct drive of H11Protocol with h11 taps, by direct drive of the real H2Protocol (tap log replayed through the composed model: scopes, http.request messages, acknowledgements), and by end-to-end runs on both workers over every two-way split",
    "level_text": "Proved in Lean: the HTTP/1 scope is exactly (upper-cased method, target split at the first '?' with nothing lost - the expressions HTTPStream.handle(Request) puts under raw_path / query_string (and percent-decodes for path) are extracted from the source: target_split_spec, so no other character of the target ('#', ';', a leading '//', 'scheme://host', a second '?') is interpreted -, version, header list as h11 reports it or raw when configured); a WebSocket scope is chosen iff GET + Upgrade: websocket + Connection upgrade token; on HTTP/2 the header list is host (from :authority, else host) followed by the non-pseudo, non-host headers in order; every Data / EndOfMessage event of the parser is forwarded to the live instance as exactly one http.request message carrying those bytes; for every chunking of the body the messages concatenate to the body with exactly one more_body=False message iff the parser reported completion, independently of how the parser cut the bytes; handling a Request spawns exactly one instance, and (C06) only when none is live; the server-name decision (host-header test extracted from utils.valid_server_name) is the same for the raw and the lower-cased header list, so configuring raw headers never changes whether an instance is started; on HTTP/2 every DataReceived acknowledges exactly its flow-controlled length whether or not its stream still exists (call counts extracted from _handle_events), so the connection receive window is conserved over any sequence of DATA events.  HTTP/2 END TO END (theorems h2_request_delivered / h2_request_end_to_end / h2_data_acked): for every run of the receive side of H2Protocol - h2 events of any number of streams, PRIORITY / WINDOW_UPDATE / SETTINGS, the applications' stream_send calls and the send task's iterations in any order, the libraries answering as they may - in which a stream not known before receives RequestReceived(headers), then DataReceived events, then StreamEnded iff the client completed the body, the request being one _create_stream accepts and the stream not being removed in between (no RST_STREAM for it, connection not closed, its application not finished): exactly one stream object is created for it, its scope is (:method upper-cased, :path split at the first '?' with nothing lost, header list = filter_pseudo_headers(headers), HTTP version 2), and it is handed exactly one Body per DATA event carrying that event's payload, in order, then EndBody iff StreamEnded came - so the http.request messages concatenate to the DATA payloads with exactly one final message iff the client ended the stream, whatever the other streams did; and in EVERY run (reset streams, finished applications, closed connection included) every DATA event is acknowledged exactly once with its flow-controlled length, in order (the per-path call counts of the receive-side model = the extracted ones: h2_ack_paths).  The argument lists of Request(...), Body(...), the header loop of _create_stream are extracted and pinned.  The composed model is tied to the code by direct drive of the real H2Protocol with real HTTPStreams (frame-level sessions: several requests with bodies in several DATA frames incl. empty and padded ones, frames of the streams interleaved, applications answering early, resets): the tap log is replayed through it and the scopes, the http.request messages each application was put, the acknowledgements (stream, amount) and the abstract request flags must agree; where the theorem's hypotheses hold its conclusion is evaluated on the implementation's own observations.  That the parsers' events carry the client's bytes for every segmentation is library behaviour: sampled end-to-end on both workers (HTTP/1.0, 1.1, 2; content-length, chunked, DATA frames; every two-way split of requests <= 300 bytes, random k-way and one-byte-per-read splits; eager, lazy and slow consumers with more chunks than the bounded app queue holds; raw headers on/off x server names set/unset with the client's own spelling of Host; HTTP/2 connections with several requests, applications answering before or without reading the body and late uploads; requests that last longer than a small keep_alive_timeout - uploads in pieces with pauses, late consumers, abandoned uploads - over HTTP/1.0, HTTP/1.1 content-length / chunked / with an h2c offer that is not taken up, cleartext HTTP/2 with prior knowledge with the preface, SETTINGS, HEADERS and first DATA in one read or cut anywhere, h2c upgrade and ALPN h2).",
    "level_note": "Trusted: Lean kernel; models HC/Proto/H11.lean, HC/Stream/Http.lean, HC/Pure/Utils.lean (differential runs); h11 / h2 / hpack parsing and the asyncio Queue / trio memory channel FIFO semantics are library behaviour (sampled); urllib.parse.unquote is compared with an independent percent-decoder written in the harness; the receive-side model of H2Protocol HC/Proto/H2Recv.lean is C04's (tied by its differential run) and its contents wrapper HC/Proto/H2Deliver.lean is tied by the direct-drive comparison here; what h2 reports in RequestReceived / DataReceived for the client's bytes (HPACK, padding, segmentation) is library behaviour (sampled end to end); the bounded application queue between HTTPStream and the application is asyncio's / trio's (sampled end to end with more chunks than it holds).",
    "rule": "request targets (origin-form with and without query / percent-escapes, leading '//', '#', ';', absolute-form, '*', a second '?', empty path before '?': a deterministic corpus of every such target directly and end to end on HTTP/1.0, 1.1 and 2, both workers, + sampling) x request kinds x framing x body-size class x split class x consumer class x protocol x worker x configuration (raw headers, server names); HTTP/2 connection sessions: mode x consumer x upload timing x body-size class; slow sessions: entry path (h1.0, h1.1 cl/chunked/h2c offer with body, prior knowledge, h2c upgrade, ALPN) x worker x cut of the first bytes x consumer x (upload longer than the keep-alive time-out or not) x completed/abandoned; every two-way split of sessions <= 300 bytes is enumerated (exhaustive for those sessions); distinct = (protocol, framing, pipeline length, body-size class, split class, consumer class); non-trivial = non-empty body or a pipeline",
    "trusted": ["h11 0.16 / h2 4.4.1 parsers", "asyncio.Queue and trio memory channels"],
    "partial": ["methods are compared after ASCII upper-casing; non-UTF-8 percent-escapes are compared through Python's replacement policy"],
    "assumptions": [],
}


# Request targets beyond the everyday origin-form: everything h11 (`request-target = 1*VCHAR`) and h2 (`:path` not empty)
# hand on.  The statement quantifies over "all targets": the scope must report the client's bytes up to the first `?` as raw
# path (percent-decoded as path) and everything behind it as query string - no other character is a delimiter to a server:
# a leading `//` is not a network location, `scheme://host` (absolute-form, RFC 9112 3.2.2) is not stripped, `#` does not
# start a fragment, `;` no parameters, a second `?` belongs to the query.
UNUSUAL_TARGETS = [
    "//cdn/assets/app.js?v=1", "//host.example/p", "//", "///x//y/?//z",                     # leading `//`
    "/search?q=a#b", "/docs/page#section?x=1", "/#", "/a%23b#c%23d",                        # `#`
    "/a;p=1/b;q?x;y=1", "/;", "/p;jsessionid=1?k",                                           # `;`
    "http://host.example/p?q=1", "http://x/", "https://u:p@h.example:8443/a%20b?c=d#e", "HTTP://H/?", "ftp://h",   # absolute-form
    "?x=1", "?", "??",                                                                      # empty path before `?`
    "/x??y", "/a?b?c=d", "/?a=/b/../c?&d=#?",                                                # a second `?`
    "/a/../b/./c", "/%2F%2Fcdn/x?%3F=%23", "/:80/@x", "/a@b:c/?d@e:f", "/\\h\\p?\\q", "/[::1]/{x}|^`?[]",
]
C01_TARGETS = HS.TARGETS + UNUSUAL_TARGETS


def pct_decode(raw: bytes) -> str:
    """independent oracle for `unquote(path.decode('ascii'))`"""
    out = bytearray()
    i = 0
    hexd = b"0123456789abcdefABCDEF"
    while i < len(raw):
        if raw[i] == 0x25 and i + 2 < len(raw) + 0 and i + 2 <= len(raw) - 1 + 0 and raw[i + 1] in hexd and raw[i + 2] in hexd:
            out.append(int(raw[i + 1:i + 3], 16))
            i += 3
        else:
            out.append(raw[i])
            i += 1
    return out.decode("utf-8", "replace")


def admitted(r: dict, cfg: Optional[dict]) -> bool:
    """is the request for one of the configured server names (always, when none are configured)?  A request for
    another host is refused by configuration (404, no application instance): not a request the statement speaks about."""
    names = (cfg or {}).get("server_names") or []
    if not names:
        return True
    host = next((v.strip(" \t") for n, v in r["headers"] if n.lower() == "host"), "")
    return host in names


def h2_authority(r: dict) -> str:
    """the HTTP/2 client sends the request's Host value as :authority"""
    return next((v.strip(" \t") for n, v in r["headers"] if n.lower() == "host"), "x")


def expected_scope_h1(r: dict, raw: bool = False) -> dict:
    target = r["target"].encode("latin1")
    raw_path, _, query = target.partition(b"?")
    # names lower-cased unless raw headers are configured (then: the client's spelling)
    headers = [[n if raw else n.lower(), v.strip(" \t")] for n, v in r["headers"]]
    if r["chunks"] is not None:
        headers.append(["transfer-encoding", "chunked"])
    elif r["body"] or r["method"] in ("POST", "PUT", "PATCH"):
        if not any(n == "content-length" for n, _ in headers):
            headers.append(["content-length", str(len(r["body"]))])
    return {"method": r["method"].upper(), "raw_path": b2s(raw_path), "query_string": b2s(query), "path": pct_decode(raw_path),
            "http_version": r["version"], "headers": headers}


def check_scope(ctx: Ctx, case: dict, k: int, r: dict, scope: dict, where: str, extra_sig: dict, raw: bool = False) -> None:
    want = expected_scope_h1(r, raw)
    got = {"method": scope["method"], "raw_path": scope["raw_path"], "query_string": scope["query_string"],
           "path": scope.get("_path", scope.get("path")), "http_version": scope["http_version"], "headers": scope["headers"]}
    if got != want:
        diff = {f: [got[f], want[f]] for f in want if got[f] != want[f]}
        ctx.violation("scope", {**case, "where": where}, {"k": k, "diff": diff}, {"family": where, "fields": sorted(diff), **extra_sig})


class _Answered:
    """`ctx` whose `model()` answers from a batch made beforehand (one driver process for all sessions instead of one each)"""

    def __init__(self, ctx: Ctx, answer: Any) -> None:
        object.__setattr__(self, "_ctx", ctx)
        object.__setattr__(self, "_answer", answer)

    def model(self, reqs: List[dict]) -> Optional[List[Any]]:
        return None if self._answer is None else [self._answer]

    def __getattr__(self, name: str) -> Any:
        return getattr(self._ctx, name)

    def __setattr__(self, name: str, value: Any) -> None:
        setattr(self._ctx, name, value)


def check_direct(ctx: Ctx, all_cases: List[dict]) -> None:
    for at in range(0, len(all_cases), 250):
        _check_direct(ctx, all_cases[at:at + 250])


def _check_direct(ctx: Ctx, cases: List[dict]) -> None:
    from ..core import h11drive as H
    runs = []
    for case in cases:
        rng = random.Random(case["seed"])
        blobs = [HS.request_bytes(r) for r in case["requests"]]
        reads = blobs if case["split"] == "per_request" else HS.split_bytes(rng, b"".join(blobs), case["split"])
        ccfg = case.get("cfg") or {}
        cfg = {"keep_alive_max_requests": 1000, **ccfg}
        policy = HS.Policy(rng, reads, case["requests"], case["apps"], eof=True)
        runs.append((case, cfg) + tuple(HS.run_session(cfg, policy)))
    answers = ctx.model([H.h11_model_req(cfg, mops, lib, HS.SERVER_HEADERS) for _, cfg, mops, _, lib in runs])
    for n, (case, cfg, mops, obs, lib) in enumerate(runs):
        ccfg = case.get("cfg") or {}
        raw = bool(ccfg.get("h11_pass_raw_headers"))
        ctx.evaluations += 1
        ctx.traces_validated += 1
        HS.compare_with_model(_Answered(ctx, None if answers is None else answers[n]), case, cfg, mops, obs, lib)  # type: ignore
        # library fact the theorem `server_name_raw_indep` assumes: h11's `headers` are `raw_items()` with lower-cased names
        for mo in mops:
            if mo.get("k") == "request":
                ctx.disagreements_checked += 1
                if mo["headers"] != [[n.lower(), v] for n, v in mo["raw_headers"]]:
                    ctx.disagree("lib.h11.raw_items", case, mo["raw_headers"], mo["headers"])
        flat: List[list] = []
        for o in obs:
            if o is not None:
                flat += o["outs"]
                if o.get("handler_exception"):
                    ctx.violation("handler_exception", case, o["handler_exception"], {"family": "direct", "error": o["handler_exception"]})
        spawns = [e for e in flat if e[0] == "spawn"]
        # the requests that can be served: a request for another server name is answered 404 + connection: close
        reqs = []
        for r in case["requests"]:
            if not admitted(r, cfg):
                break
            reqs.append(r)
        sigc = {"raw": raw, "names": bool(ccfg.get("server_names"))} if ccfg else {}
        if len(spawns) < min(1, len(reqs)):
            # the first request of a connection is always reached: it must start its application
            ctx.violation("instance_count", case, {"got": len(spawns), "want_at_least": 1, "cfg": ccfg}, {"family": "direct", **sigc})
        for k, sp in enumerate(spawns):
            if k >= len(reqs):
                ctx.violation("phantom_instance", case, sp, {"family": "direct", **sigc})
                break
            check_scope(ctx, case, k, reqs[k], sp[2], "direct", sigc, raw)
            body = HS.request_body(reqs[k])
            msgs = [e[2] for e in flat if e[0] == "put" and e[1] == sp[1] and e[2][0] == "http.request"]
            got = "".join(m[1] for m in msgs).encode("latin1")
            finals = [m for m in msgs if m[2] is False]
            after_final = msgs[msgs.index(finals[0]) + 1:] if finals else []
            if not body.startswith(got) or len(finals) > 1 or (finals and got != body) or after_final:
                ctx.violation("body", case, {"k": k, "got": len(got), "want": len(body), "finals": len(finals)}, {"family": "direct"})
            a = case["apps"][k % len(case["apps"])]
            ctx.distinct(["direct", reqs[k]["kind"], len(reqs), "big" if len(body) > 1000 else ("none" if not body else "small"), case["split"], a["when"],
                          raw, bool(ccfg.get("server_names"))])
        ctx.count("direct.split", case["split"])
        ctx.count("direct.cfg", f"raw={int(raw)} names={int(bool(ccfg.get('server_names')))}")


def check_filter_pseudo(ctx: Ctx, n: int) -> None:
    from hypercorn.utils import filter_pseudo_headers
    rng = ctx.rng
    pool = [(b":method", b"GET"), (b":path", b"/"), (b":authority", b"a.example"), (b":authority", b"second"), (b":scheme", b"https"),
            (b"host", b"h.example"), (b"host", b"h2"), (b"user-agent", b"x"), (b"accept", b""), (b"x-a", b"1"), (b"x-a", b"2"), (b"cookie", b"a=b")]
    cases = [[rng.choice(pool) for _ in range(rng.randint(0, 8))] for _ in range(n)]
    model = ctx.model([{"cmd": "utils.filter_pseudo", "headers": S.headers_json(hs)} for hs in cases])
    for i, hs in enumerate(cases):
        ctx.evaluations += 1
        got = filter_pseudo_headers(list(hs))
        auth = [v for nm, v in hs if nm == b":authority"]
        host = [v for nm, v in hs if nm == b"host"]
        want = [(b"host", auth[-1] if auth else (host[-1] if host else b""))] + [(nm, v) for nm, v in hs if not nm.startswith(b":") and nm != b"host"]
        if got != want:
            ctx.violation("filter_pseudo", {"family": "filter_pseudo", "headers": S.headers_json(hs)}, S.headers_json(got), {"family": "filter_pseudo"})
        if model is not None:
            ctx.disagreements_checked += 1
            if model[i].get("ok") != S.headers_json(got):
                ctx.disagree("utils.filter_pseudo", S.headers_json(hs), model[i], S.headers_json(got))
    ctx.distinct(["filter_pseudo", "random"])


# --------------------------------------------------------------------------------------------------------------
# end to end
# --------------------------------------------------------------------------------------------------------------
def consumer_script(kind: str) -> List[list]:
    ok = [["send", {"type": "http.response.start", "status": 200, "headers": [(b"content-length", b"2")]}], ["send", {"type": "http.response.body", "body": b"ok"}]]
    if kind == "eager":
        return [["recv_body"]] + ok
    if kind == "slow":
        # sleeps before reading: the bounded app queue fills and back-pressures the reader
        return [["sleep", 0.5], ["recv_body"]] + ok
    if kind == "lazy":
        return [["sleep", 2.0], ["recv_body"]] + ok
    return [["recv_body"]] + ok


def e2e_observe(worker: str, proto: str, reads: List[bytes], reqs: List[dict], consumer: str, h2_bodies: Optional[list] = None,
                cfg: Optional[dict] = None) -> dict:
    scripts = [consumer_script(consumer)]
    cfg = dict(cfg or {})
    if proto == "2":
        box: Dict[str, Any] = {}

        async def client(io):
            c = C.H2Client()
            box["c"] = c
            for r in reqs:
                body = HS.request_body(r)
                hs = [(n.lower().encode("latin1"), v.encode("latin1")) for n, v in r["headers"] if n.lower() != "host"]
                c.request(C.h2_headers(r["method"].upper(), r["target"], authority=h2_authority(r), extra=hs), body if (body or r["chunks"] is not None) else None)
            # the client's bytes, cut as the case says
            data = c.out()
            sizes = [len(x) for x in reads]
            pos = 0
            for n in sizes:
                await io.send(data[pos:pos + n])
                pos += n
            if pos < len(data):
                await io.send(data[pos:])
            await c.pump(io)
            await io.sleep(3.0)
            await c.pump(io)
            return c.summary()
        res = R.RUNNERS[worker](cfg, "h2", client, scripts, tail=10)
    else:
        async def client(io):
            for chunk in reads:
                if io.closed_at is not None:      # the server has closed (404 + connection: close): a client stops writing
                    break
                await io.send(chunk)
            await io.sleep(3.0)
        res = R.RUNNERS[worker](cfg, None, client, scripts, tail=10)
    apps = [{"scope": a["scope"], "body": "".join(m[2] for m in a["recv"] if m[1] == "http.request"),
             "finals": sum(1 for m in a["recv"] if m[1] == "http.request" and m[3] is False),
             "msgs": len([m for m in a["recv"] if m[1] == "http.request"])} for a in res["apps"]]
    return {"apps": apps, "error": res["error"], "loop_errors": res["loop_errors"], "client_error": res["client_error"]}


HOST_SPELLINGS = ["Host", "host", "HOST", "hOsT"]


def gen_cfg(rng) -> dict:
    """the configurations the statement names: raw headers on/off x server names set/unset"""
    cfg: Dict[str, Any] = {}
    if rng.random() < 0.4:
        cfg["h11_pass_raw_headers"] = True
    names = rng.choice([None, None, ["x"], ["x", "alt.example"]])
    if names:
        cfg["server_names"] = names
    return cfg


def respell(rng, reqs: List[dict], cfg: dict) -> None:
    """the client's own spelling of the Host header name; now and then a request for a server name that is not configured"""
    for r in reqs:
        for h in r["headers"]:
            if h[0].lower() == "host":
                h[0] = rng.choice(HOST_SPELLINGS)
                if cfg.get("server_names") and rng.random() < 0.08:
                    h[1] = "other.example"


def cfg_corpus() -> Tuple[List[dict], List[dict]]:
    """deterministic: every configuration x every spelling of `Host`, direct and end-to-end, both workers"""
    direct, e2e = [], []
    i = 0
    for raw in (False, True):
        for names in (None, ["x"]):
            cfg: Dict[str, Any] = {}
            if raw:
                cfg["h11_pass_raw_headers"] = True
            if names:
                cfg["server_names"] = names
            for sp in ("Host", "host", "HOST"):
                i += 1
                reqs = [{"kind": "plain", "method": "GET", "target": "/a?b=1", "headers": [[sp, "x"], ["X-Mixed-Case", "v1"]], "version": "1.1", "body": "", "chunks": None},
                        {"kind": "body_cl", "method": "POST", "target": "/up", "headers": [[sp, "x"], ["Accept", ""]], "version": "1.1", "body": "hello=world", "chunks": None}]
                app = {"when": "after_body", "status": 200, "chunks": ["ok"], "content_length": True, "crash": None, "ws": "close"}
                direct.append({"family": "direct", "requests": reqs, "apps": [app, app], "split": ["one", "random", "bytewise"][i % 3], "seed": 100 + i, "cfg": cfg})
                e2e.append({"family": "e2e", "proto": "1.1" if i % 4 else "1.0", "worker": "asyncio" if i % 2 else "trio", "consumer": "eager", "seed": 200 + i,
                            "requests": [dict(reqs[1], version="1.1" if i % 4 else "1.0")], "cfg": cfg})
    # a request for a server name that is not configured starts no application (and HTTP/1 serves nothing after it)
    other = {"kind": "plain", "method": "GET", "target": "/", "headers": [["Host", "other.example"]], "version": "1.1", "body": "", "chunks": None}
    ok = {"kind": "plain", "method": "GET", "target": "/", "headers": [["Host", "x"]], "version": "1.1", "body": "", "chunks": None}
    for proto, worker in (("1.1", "asyncio"), ("2", "trio")):
        e2e.append({"family": "e2e", "proto": proto, "worker": worker, "consumer": "eager", "seed": 300, "requests": [dict(ok), dict(other), dict(ok)],
                    "cfg": {"server_names": ["x"]}})
    return direct, e2e


def target_corpus() -> Tuple[List[dict], List[dict]]:
    """deterministic: every unusual request target (and `OPTIONS *`), handed to `H11Protocol` directly (two requests on one
    connection, over one / random / one-byte reads) and end to end on HTTP/1.0, 1.1 and 2, both workers"""
    direct, e2e = [], []
    app = {"when": "after_body", "status": 200, "chunks": ["ok"], "content_length": True, "crash": None, "ws": "close"}
    for i, t in enumerate(UNUSUAL_TARGETS + ["*"]):
        post = i % 2 == 1 and t != "*"
        req = {"kind": "body_cl" if post else "plain", "method": "OPTIONS" if t == "*" else ("POST" if post else "GET"), "target": t,
               "headers": [["Host", "x"], ["X-T", str(i)]], "version": "1.1", "body": "t=%d" % i if post else "", "chunks": None}
        direct.append({"family": "direct", "requests": [dict(req), dict(req, headers=[["Host", "x"]])], "apps": [app, app],
                       "split": ["one", "random", "bytewise"][i % 3], "seed": 500 + i, "cfg": {}})
        for j, proto in enumerate(("1.0", "1.1", "2")):
            e2e.append({"family": "e2e", "proto": proto, "worker": ("asyncio", "trio")[(i + j) % 2], "consumer": "eager", "seed": 600 + 3 * i + j,
                        "requests": [dict(req, version="1.0" if proto == "1.0" else "1.1")], "cfg": {}, "splits": "few"})
    return direct, e2e


def timing_corpus() -> List[dict]:
    """deterministic: read time-out set, more body messages than the bounded application queue holds, and an application
    that starts to receive later than the time-out - the whole request is sent at once, so the body must arrive whole"""
    out = []
    k = 0
    for worker in ("asyncio", "trio"):
        for proto, req, q in (
                ("1.1", {"kind": "body_chunked", "method": "POST", "target": "/up", "headers": [["Host", "x"]], "version": "1.1", "body": "",
                         "chunks": ["c%02d" % i for i in range(25)]}, None),
                ("1.1", {"kind": "body_cl", "method": "POST", "target": "/up", "headers": [["Host", "x"]], "version": "1.1", "body": "u" * 70000, "chunks": None}, 2),
                ("1.0", {"kind": "body_cl", "method": "POST", "target": "/up", "headers": [["Host", "x"]], "version": "1.0", "body": "v" * 5000, "chunks": None}, 1),
                ("2", {"kind": "body_cl", "method": "POST", "target": "/up", "headers": [["Host", "x"]], "version": "1.1", "body": "w" * 50000, "chunks": None}, 2)):
            for consumer in ("lazy", "slow"):
                k += 1
                cfg: Dict[str, Any] = {"read_timeout": 1}
                if q is not None:
                    cfg["max_app_queue_size"] = q
                out.append({"family": "e2e", "proto": proto, "worker": worker, "consumer": consumer, "seed": 400 + k, "requests": [dict(req)], "cfg": cfg})
    return out


def gen_e2e_session(ctx: Ctx) -> dict:
    rng = ctx.rng
    proto = rng.choice(["1.1", "1.1", "1.0", "2", "2"])
    n = 1 if proto == "1.0" else rng.choice([1, 1, 2, 3])
    opts = {"big": rng.random() < 0.35, "weights": [5, 5, 5 if proto != "2" else 0, 0, 0, 0, 1, 0, 0, 0, 0], "targets": C01_TARGETS}
    reqs = [HS.gen_request(rng, i, opts) for i in range(n)]
    for r in reqs:
        if proto == "1.0":
            r["version"] = "1.0"
            if r["chunks"] is not None:
                r["body"], r["chunks"] = "".join(r["chunks"]), None
        if proto == "2":
            r["method"] = r["method"].upper()
            if r["target"] == "/star":
                r["target"] = "/"
    # many small chunks: more than the bounded app queue (10) holds
    if rng.random() < 0.3 and proto != "1.0":
        reqs[0]["method"] = "POST"
        if proto == "2":
            reqs[0]["body"], reqs[0]["chunks"] = "m" * 25000, None
        else:
            reqs[0]["chunks"], reqs[0]["body"] = ["c%02d" % i for i in range(25)], ""
    cfg = gen_cfg(rng)
    respell(rng, reqs, cfg)
    # timing-relevant configuration: a small bounded application queue (back-pressure on the reader after a few
    # messages) and a read time-out shorter than the slow consumers' delays.  The read time-out bounds the wait for
    # *client bytes* only: it is set where the client has nothing left to send when it could fire (one request, sent
    # up front, an HTTP/2 body inside the initial window) - otherwise closing a slow client's connection is the
    # configured behaviour and not a subject of the statement.
    if rng.random() < 0.35:
        cfg["max_app_queue_size"] = rng.choice([1, 2, 3])
    if n == 1 and (proto != "2" or len(HS.request_body(reqs[0])) <= 60000) and rng.random() < 0.5:
        cfg["read_timeout"] = 1
    return {"family": "e2e", "proto": proto, "requests": reqs, "consumer": rng.choice(["eager", "eager", "slow", "lazy"]),
            "worker": rng.choice(["asyncio", "trio"]), "seed": rng.randrange(1 << 30), "cfg": cfg}


def check_e2e(ctx: Ctx, sessions: List[dict], all_two_way: bool) -> None:
    for case in sessions:
        rng = random.Random(case["seed"])
        reqs = case["requests"]
        if case["proto"] == "2":
            c = C.H2Client()
            total = 24 + 9 + 6 * 1 + 60   # approximate; the split list is interpreted as sizes only
            blob_len = None
        blob = b"".join(HS.request_bytes(r) for r in reqs) if case["proto"] != "2" else None
        if blob is not None:
            L = len(blob)
        else:
            # build once to learn the length of the client's byte stream
            c = C.H2Client()
            for r in reqs:
                body = HS.request_body(r)
                hs = [(n.lower().encode("latin1"), v.encode("latin1")) for n, v in r["headers"] if n.lower() != "host"]
                c.request(C.h2_headers(r["method"].upper(), r["target"], authority=h2_authority(r), extra=hs), body if (body or r["chunks"] is not None) else None)
            L = len(c.out())
            blob = bytes(L)
        splits: List[List[bytes]] = [[blob]]
        if all_two_way and L <= 300:
            splits += [[blob[:k], blob[k:]] for k in range(1, L)]
            ctx.extra["two_way_splits_exhaustive_sessions"] = ctx.extra.get("two_way_splits_exhaustive_sessions", 0) + 1
        elif case.get("splits") == "few":          # corpus sessions whose subject is the contents, not the segmentation
            splits.append(HS.split_bytes(rng, blob, "random"))
        else:
            splits += [HS.split_bytes(rng, blob, "random") for _ in range(3)]
            if L <= 400:
                splits.append(HS.split_bytes(rng, blob, "bytewise"))
        ref = None
        ccfg = case.get("cfg") or {}
        raw = bool(ccfg.get("h11_pass_raw_headers"))
        # requests the configuration admits: HTTP/1 answers a request for another server name 404 + connection: close
        # (nothing after it is served), HTTP/2 refuses only that stream
        if case["proto"] == "2":
            served = [r for r in reqs if admitted(r, ccfg)]
        else:
            served = []
            for r in reqs:
                if not admitted(r, ccfg):
                    break
                served.append(r)
        for reads in splits:
            o = e2e_observe(case["worker"], case["proto"], reads, reqs, case["consumer"], cfg=ccfg)
            ctx.evaluations += 1
            cls = "one" if len(reads) == 1 else ("two" if len(reads) == 2 else ("bytewise" if len(reads) == L else "kway"))
            ctx.count("e2e.split", cls)
            ctx.count("e2e.proto", case["proto"])
            sig = {"family": "e2e", "proto": case["proto"], "worker": case["worker"]}
            if ccfg:
                sig.update({"raw": raw, "names": bool(ccfg.get("server_names"))})
                if ccfg.get("read_timeout") is not None:
                    sig["read_timeout"] = True
                ctx.count("e2e.timing", f"read_timeout={ccfg.get('read_timeout')} queue={ccfg.get('max_app_queue_size', 'default')} consumer={case['consumer']}")
                ctx.count("e2e.cfg", f"raw={int(raw)} names={int(bool(ccfg.get('server_names')))}")
            short = {"family": "e2e", "proto": case["proto"], "worker": case["worker"], "consumer": case["consumer"], "requests": reqs,
                     "reads": [len(x) for x in reads], "seed": case["seed"], "cfg": ccfg, **({"splits": case["splits"]} if case.get("splits") else {})}
            if o["error"] or o["loop_errors"] or o["client_error"]:
                ctx.violation("handler_exception", short, {k: o[k] for k in ("error", "loop_errors", "client_error")}, {**sig, "kind": "internal"})
                continue
            if len(o["apps"]) != len(served):
                ctx.violation("instance_count", short, {"got": len(o["apps"]), "want": len(served)}, sig)
            for k, (a, r) in enumerate(zip(o["apps"], served)):
                body = HS.request_body(r)
                if a["body"].encode("latin1") != body or a["finals"] != 1:
                    ctx.violation("body", short, {"k": k, "got": len(a["body"]), "want": len(body), "finals": a["finals"]}, sig)
                sc = a["scope"]
                if case["proto"] == "2":
                    target = r["target"].encode("latin1")
                    raw_path, _, query = target.partition(b"?")
                    want_h = [["host", h2_authority(r)]] + [[n.lower(), v.strip()] for n, v in r["headers"] if n.lower() != "host"]   # h2 strips OWS
                    got = [sc["method"], sc["raw_path"], sc["query_string"], sc["path"], sc["http_version"], sc["scheme"], sc["headers"]]
                    want = [r["method"].upper(), b2s(raw_path), b2s(query), pct_decode(raw_path), "2", "https", want_h]
                    if got != want:
                        ctx.violation("scope", short, {"k": k, "got": got, "want": want}, {**sig, "fields": "h2"})
                else:
                    check_scope(ctx, short, k, r, {**sc, "_path": sc["path"]}, "e2e", {k2: v for k2, v in sig.items() if k2 not in ("family", "worker")}, raw)
                    if sc["scheme"] != "http" or sc["client"] != ["127.0.0.1", 4242] or sc["server"] != ["162.1.1.1", 80]:
                        ctx.violation("scope_addresses", short, sc, sig)
                size = "big" if len(body) > 1000 else ("none" if not body else "small")
                ctx.distinct(["e2e", case["proto"], r["kind"], len(reqs), size, cls, case["consumer"], raw, bool(ccfg.get("server_names"))])
            # segmentation independence: the observation is the same for every split of the same session
            view = [[a["scope"], a["body"], a["finals"]] for a in o["apps"]]
            if ref is None:
                ref = view
            elif view != ref:
                ctx.violation("segmentation_dependent", short, {"reads": [len(x) for x in reads]}, sig)
        ctx.sample({"family": "e2e", "proto": case["proto"], "kinds": [r["kind"] for r in reqs], "consumer": case["consumer"], "splits": len(splits)}, cap=3)


# --------------------------------------------------------------------------------------------------------------
# HTTP/2 connections with several requests: early answers, late uploads
# --------------------------------------------------------------------------------------------------------------
H2_CONSUMERS = {
    # reads the whole body, then answers
    "eager": lambda: consumer_script("eager"),
    "slow": lambda: consumer_script("slow"),
    # answers without reading anything / after the first message only: the rest of the upload finds the stream gone
    "early": lambda: consumer_script("eager")[1:],
    "partial": lambda: [["recv"]] + consumer_script("eager")[1:],
}


def h2conn_observe(case: dict) -> dict:
    reqs = case["requests"]
    scripts = [H2_CONSUMERS[r["consumer"]]() for r in reqs]

    async def client(io):
        c = C.H2Client()
        sids = []
        for r in reqs:
            body = r["body_len"] * b"u" if r["body_len"] else b""
            hs = C.h2_headers(r["method"], r["target"], authority="x", extra=[(b"x-k", str(len(sids)).encode())])
            if not r["body_len"]:
                sid = c.request(hs, None)
            elif r["upload"] == "late":
                # the request head first; the body only after the application has had time to answer
                sid = c.request(hs, None, end=False)
                await c.pump(io)
                await io.sleep(1.0)
                await c.pump(io)
                c.send_data(sid, body, True)
            else:
                sid = c.request(hs, body)
            sids.append(sid)
            if case["mode"] == "sequential":
                for _ in range(12):
                    await c.pump(io)
                    if c.streams[sid]["ended"] and sid not in c.pending:
                        break
                    await io.sleep(0.5)
        for _ in range(10):
            await c.pump(io)
            await io.sleep(0.5)
        await c.pump(io)
        return {"summary": c.summary(), "sids": sids, "unsent": {str(k): len(v[0]) for k, v in c.pending.items()},
                "conn_window": c.conn.outbound_flow_control_window}
    # (the idle timeout is not this property's subject: a client that waits for window must not find the connection gone)
    res = R.RUNNERS[case["worker"]]({"keep_alive_timeout": 1000.0, **(case.get("cfg") or {})}, "h2", client, scripts, tail=10)
    apps = [{"scope": a["scope"], "body_len": sum(len(m[2]) for m in a["recv"] if m[1] == "http.request"),
             "body_ok": all(set(m[2]) <= {"u"} for m in a["recv"] if m[1] == "http.request"),
             "finals": sum(1 for m in a["recv"] if m[1] == "http.request" and m[3] is False),
             "after_final": any(m[1] == "http.request" for m in a["recv"][[i for i, m in enumerate(a["recv"]) if m[1] == "http.request" and m[3] is False][0] + 1:])
             if any(m[1] == "http.request" and m[3] is False for m in a["recv"]) else False,
             "exit": a["exit"]} for a in res["apps"]]
    return {"apps": apps, "error": res["error"], "loop_errors": res["loop_errors"], "client_error": res["client_error"], "client": res.get("client_result")}


def h2conn_corpus() -> List[dict]:
    out = []
    early = {"method": "POST", "target": "/early", "body_len": 40000, "consumer": "early", "upload": "late"}
    for worker in ("asyncio", "trio"):
        # more than a connection window (65535) of uploads whose applications had already answered, then an ordinary upload
        out.append({"family": "h2conn", "worker": worker, "mode": "sequential", "seed": 1,
                    "requests": [dict(early), dict(early), {"method": "POST", "target": "/read", "body_len": 100000, "consumer": "eager", "upload": "with_head"}]})
    out.append({"family": "h2conn", "worker": "asyncio", "mode": "concurrent", "seed": 2,
                "requests": [dict(early, body_len=30000), {"method": "PUT", "target": "/p", "body_len": 70000, "consumer": "partial", "upload": "with_head"},
                             {"method": "POST", "target": "/read?x=1", "body_len": 90000, "consumer": "slow", "upload": "late"}]})
    out.append({"family": "h2conn", "worker": "trio", "mode": "sequential", "seed": 3,
                "requests": [dict(early, body_len=70000, upload="with_head"), {"method": "GET", "target": "/g", "body_len": 0, "consumer": "eager", "upload": "with_head"},
                             {"method": "POST", "target": "/read", "body_len": 66000, "consumer": "eager", "upload": "with_head"}]})
    return out


def gen_h2conn(ctx: Ctx) -> dict:
    rng = ctx.rng
    n = rng.choice([2, 3, 3, 4])
    reqs = []
    for k in range(n):
        size = rng.choice([0, 1, 5000, 30000, 40000, 70000])
        reqs.append({"method": "POST" if size else rng.choice(["GET", "POST"]), "target": rng.choice(["/a", "/a/b?x=1", "/p%41th?%3F"]), "body_len": size,
                     "consumer": rng.choice(["eager", "slow", "early", "early", "partial"]), "upload": rng.choice(["with_head", "late"])})
    # the last one is an ordinary upload that is read
    reqs[-1].update({"consumer": rng.choice(["eager", "slow"]), "body_len": rng.choice([1, 5000, 70000, 100000]), "method": "POST"})
    return {"family": "h2conn", "worker": rng.choice(["asyncio", "trio"]), "mode": rng.choice(["sequential", "sequential", "concurrent"]),
            "requests": reqs, "seed": rng.randrange(1 << 30)}


def check_h2conn(ctx: Ctx, sessions: List[dict]) -> None:
    for case in sessions:
        o = h2conn_observe(case)
        ctx.evaluations += 1
        reqs = case["requests"]
        sig = {"family": "h2conn", "worker": case["worker"]}
        ctx.count("h2conn.mode", case["mode"])
        if o["error"] or o["loop_errors"] or o["client_error"] or (o["client"] or {}).get("summary", {}).get("error"):
            ctx.violation("handler_exception", case, {k: o[k] for k in ("error", "loop_errors", "client_error")} | {"client": (o["client"] or {}).get("summary", {}).get("error")},
                          {**sig, "kind": "internal"})
            continue
        if len(o["apps"]) != len(reqs):
            ctx.violation("instance_count", case, {"got": len(o["apps"]), "want": len(reqs)}, sig)
        # instances are started in the order of the requests' HEADERS frames; `x-k` says which request an instance belongs to
        for a in o["apps"]:
            k = int(dict((n, v) for n, v in a["scope"]["headers"]).get("x-k", "-1"))
            if not 0 <= k < len(reqs):
                ctx.violation("scope", case, a["scope"], {**sig, "fields": "h2conn"})
                continue
            r = reqs[k]
            ctx.count("h2conn.consumer", r["consumer"])
            target = r["target"].encode("latin1")
            raw_path, _, query = target.partition(b"?")
            sc = a["scope"]
            got = [sc["method"], sc["raw_path"], sc["query_string"], sc["path"], sc["http_version"], sc["headers"]]
            want = [r["method"], b2s(raw_path), b2s(query), pct_decode(raw_path), "2", [["host", "x"], ["x-k", str(k)]]]
            if got != want:
                ctx.violation("scope", case, {"k": k, "got": got, "want": want}, {**sig, "fields": "h2conn"})
            reads_all = r["consumer"] in ("eager", "slow")
            detail = {"k": k, "consumer": r["consumer"], "got": a["body_len"], "want": r["body_len"], "finals": a["finals"],
                      "client_unsent": (o["client"] or {}).get("unsent"), "client_conn_window": (o["client"] or {}).get("conn_window")}
            if not a["body_ok"] or a["body_len"] > r["body_len"] or a["finals"] > 1 or a["after_final"] or (a["finals"] == 1 and a["body_len"] != r["body_len"]):
                ctx.violation("body", case, detail, {**sig, "reader": reads_all})
            elif reads_all and (a["body_len"] != r["body_len"] or a["finals"] != 1):
                # the client completed this body (it had every byte to send and nothing but the server's flow control in
                # its way): an application that reads must get all of it and exactly one final message
                ctx.violation("body", case, detail, {**sig, "reader": True})
            ctx.distinct(["h2conn", case["mode"], r["consumer"], r["upload"], "big" if r["body_len"] > 65535 else ("none" if not r["body_len"] else "small"), k > 0])
        ctx.sample({"family": "h2conn", "mode": case["mode"], "requests": [[r["consumer"], r["upload"], r["body_len"]] for r in reqs]}, cap=5)


# --------------------------------------------------------------------------------------------------------------
# the receive side of H2Protocol with contents, against the composed model (direct drive of harness/core/h2recv.py)
# --------------------------------------------------------------------------------------------------------------
GLUE_APPS = {
    # what the application of a stream does, message by message (None = it returns)
    "reads": [{"type": "http.response.start", "status": 200, "headers": []}, {"type": "http.response.body", "body": b"ok"}, None],
    "early": [{"type": "http.response.start", "status": 200, "headers": []}, {"type": "http.response.body", "body": b"early"}, None],
    "streaming": [{"type": "http.response.start", "status": 200, "headers": []}, {"type": "http.response.body", "body": b"a" * 100, "more_body": True},
                  {"type": "http.response.body", "body": b"", "more_body": False}, None],
    "silent": [],
}


def gen_h2glue(rng, idx: int) -> dict:
    """frame-level sessions: 1-4 requests with bodies in several DATA frames (distinct payloads, padding, empty frames), the
    frames of the streams interleaved, WINDOW_UPDATE / PRIORITY / SETTINGS in between, applications that answer early (the rest
    of the upload finds the stream gone), client resets, and the send task running in between"""
    from ..core import h2recv as G
    F = G.Frames()
    steps: List[dict] = [{"read": b2s(F.preface())}]
    n = rng.choice([1, 2, 2, 3, 4])
    plans = []
    for k in range(n):
        sid = 1 + 2 * k
        kind = rng.choice(["post", "post", "query", "te_trailers", "no_authority_host", "odd_method", "big_headers", "get", "nonascii_path", "connect_plain",
                           "lower_method"])
        nd = 0 if kind in ("get", "connect_plain") else rng.choice([0, 1, 2, 3, 6])
        frames = []
        for j in range(nd):
            size = rng.choice([0, 1, 7, 50, 300])
            payload = (b"%d.%d|" % (sid, j) + bytes(rng.randrange(256) for _ in range(size)))[:max(size, 0)] if size else b""
            frames.append((payload, rng.choice([0, 0, 0, 5])))
        plans.append({"sid": sid, "kind": kind, "path": rng.choice(["/", "/a/b?x=1&y=%ff", "/p%41th?%3F", "/q?"] + ([rng.choice(UNUSUAL_TARGETS)] if rng.random() < 0.4 else [])), "frames": frames,
                      "ends": rng.random() < 0.8, "app": rng.choice(["reads", "reads", "early", "streaming", "silent"]),
                      "rst": rng.random() < 0.1, "hdr_sent": False, "sent": 0, "ended": False, "app_at": rng.choice(["start", "middle", "end"])})
    apps = {p["sid"]: list(GLUE_APPS[p["app"]]) for p in plans}
    pending = list(plans)
    guard = 0
    while pending and guard < 400:
        guard += 1
        p = rng.choice(pending)
        sid = p["sid"]
        r = rng.random()
        if not p["hdr_sent"]:
            if p["kind"] == "lower_method":      # HTTP/2 does not fold the case of :method, the scope reports it upper-cased
                hs = [(":method", rng.choice(["post", "pUt"])), (":scheme", "http"), (":authority", "x"), (":path", p["path"])]
            else:
                hs = G.req_headers(p["kind"], path=p["path"]) if p["kind"] not in ("query", "nonascii_path", "odd_method", "connect_plain") else G.req_headers(p["kind"])
            hs = hs + [("x-k", str(sid))]
            end_now = not p["frames"] and p["ends"]
            steps.append({"read": b2s(F.headers(sid, hs, end_stream=end_now, cont=rng.choice([0, 0, 3])))})
            p["hdr_sent"] = True
            p["ended"] = end_now
            if p["app_at"] == "start":
                steps += [{"app": [sid, m]} for m in apps.pop(sid, [])]
        elif r < 0.12:
            steps.append({"read": b2s(rng.choice([F.window_update(0, 1000), F.window_update(sid, 10), F.priority(sid + 100, 0, 5), F.ping(),
                                                  F.settings({4: rng.choice([10, 65535, 1 << 20])})]))})
        elif p["sent"] < len(p["frames"]):
            payload, pad = p["frames"][p["sent"]]
            p["sent"] += 1
            last = p["sent"] == len(p["frames"]) and p["ends"] and rng.random() < 0.5
            steps.append({"read": b2s(F.data(sid, payload, end_stream=last, pad=pad))})
            p["ended"] = p["ended"] or last
            if p["app_at"] == "middle" and p["sent"] == max(1, len(p["frames"]) // 2) and sid in apps:
                steps += [{"app": [sid, m]} for m in apps.pop(sid, [])]
            if p["rst"] and p["sent"] == 1 and not p["ended"]:
                steps.append({"read": b2s(F.rst(sid, 8))})
                p["ended"] = True
                p["frames"] = p["frames"][:p["sent"]]
        else:
            if p["ends"] and not p["ended"]:
                steps.append({"read": b2s(F.data(sid, b"", end_stream=True))})
                p["ended"] = True
            pending.remove(p)
            steps += [{"app": [sid, m]} for m in apps.pop(sid, [])]
    return {"family": "h2glue", "steps": steps, "cfg": {"keep_alive_max_requests": 1000}, "idx": idx,
            "kinds": [p["kind"] for p in plans], "apps": [p["app"] + "@" + p["app_at"] for p in plans]}


def _glue_steps_py(steps: List[dict]) -> List[dict]:
    return [({"read": s2b(st["read"])} if "read" in st else st) for st in steps]


def check_h2glue(ctx: Ctx, cases: List[dict]) -> None:
    from ..core import h2recv as G
    runs, reqs = [], []
    for case in cases:
        r = G.run(G.drive_h2(case["cfg"], _glue_steps_py(case["steps"])))
        ops, _seen = G.to_ops(r["log"])
        rich = []
        for o in ops:
            if o["op"] in ("stray", "unsupported"):
                continue
            o = {k: v for k, v in o.items() if not k.startswith("_")}
            if o["op"] == "ev" and o["k"] == "request":
                rich.append({"op": "request", "sid": o["sid"], "headers": o["headers"], "ins": o.get("ins"), "lib": o.get("lib"), "_flags": o})
            elif o["op"] == "ev" and o["k"] == "data":
                rich.append({"op": "data", "sid": o["sid"], "d": o["d"], "flow": o["flow"]})
            else:
                rich.append(o)
        ids = sorted({o["sid"] for o in rich if o.get("op") in ("request", "data")})
        reqs.append({"cmd": "h2deliver.run", "ka_max": case["cfg"].get("keep_alive_max_requests", 1000), "ids": ids,
                     "ops": [{k: v for k, v in o.items() if k != "_flags"} for o in rich]})
        runs.append((case, r, rich, ids))
    model = ctx.model(reqs)
    for n, (case, r, rich, ids) in enumerate(runs):
        ctx.evaluations += 1
        ctx.traces_validated += 1
        sig = {"family": "h2glue"}
        if r["error"]:
            ctx.violation("handler_exception", case, {"error": r["error"]}, {**sig, "kind": "internal"})
            continue
        # ---- the implementation's own observations ----
        acks = [[e[2], e[4]] for e in r["log"] if e[0] == "h2" and e[1] == "acknowledge_received_data" and e[3] is None]
        flows = [[o["sid"], o["flow"]] for o in rich if o["op"] == "data"]
        if acks != flows:
            # every DATA frame is acknowledged exactly once, with its flow-controlled length, whether or not its stream still exists
            ctx.violation("data_not_acknowledged", case, {"acks": acks[:12], "data_events": flows[:12]}, sig)
        if model is None:
            continue
        ctx.disagreements_checked += 1
        m = model[n].get("ok")
        if m is None or m["error"] is not None or not m["ok"]:
            ctx.disagree("h2deliver.run", case, model[n], "run of the real H2Protocol without an uncaught exception")
            continue
        # the abstract request the wrapper computes from the header list = what the C04 taps derive from the h2 event
        flags = [{k: o["_flags"][k] for k in ("sid", "hasMethod", "methodAscii", "isConnect", "hasPath", "pathAscii")} for o in rich if o["op"] == "request"]
        if m["reqs"] != flags:
            ctx.disagree("h2deliver.reqOf", case, m["reqs"], flags)
        if [[d[1], d[2]] for d in m["dlv"] if d[0] == "ack"] != acks:
            ctx.disagree("h2deliver.acks", case, [d for d in m["dlv"] if d[0] == "ack"][:12], acks[:12])
        for sid in ids:
            mine = [d for d in m["dlv"] if d[0] != "ack" and d[1] == sid]
            starts = [d for d in mine if d[0] == "start"]
            a = r["apps"].get(sid)
            http = bool(starts) and not starts[0][2]
            if not http:
                if a is not None and a["type"] == "http":
                    ctx.disagree("h2deliver.start", {**case, "sid": sid}, mine[:4], a["scope"])
                continue
            ctx.count("h2glue.stream", "http")
            if a is None or a["spawns"] != len(starts) or len(starts) != 1:
                ctx.disagree("h2deliver.start", {**case, "sid": sid}, mine[:4], a)
                continue
            if starts[0][3] != a["scope"]:
                ctx.disagree("h2deliver.scope", {**case, "sid": sid}, starts[0][3], a["scope"])
            bodies = [[d[2], True] for d in mine if d[0] == "body"] + [["", False] for d in mine if d[0] == "endBody"]
            order = [d[0] for d in mine[1:]]
            real_msgs = [[x[1], x[2]] for x in a["msgs"] if x[0] == "http.request"]
            if bodies != real_msgs or sorted(order, key=lambda k: {"body": 0, "endBody": 1, "closed": 2}[k]) != order:
                ctx.disagree("h2deliver.body", {**case, "sid": sid}, [[len(b), mb] for b, mb in bodies][:12], [[len(b), mb] for b, mb in real_msgs][:12])
            if (["closed"] if "closed" in order else []) != ["closed" for x in a["msgs"] if x[0] == "http.disconnect"]:
                ctx.disagree("h2deliver.closed", {**case, "sid": sid}, order, [x[0] for x in a["msgs"]])
            # ---- theorem `h2_request_delivered`, evaluated on the implementation: where its hypotheses hold (`Adm`: request accepted,
            # stream not removed), the application got exactly the DATA payloads in order and one final message iff END_STREAM came
            # (`admLen`: the prefix of the run up to the operation that removes the stream - its application finishing, a reset; nothing
            # is handed to a removed stream afterwards, so what the application got over the whole run is what it got in that prefix)
            pre = rich[:m["admLen"].get(str(sid), 0)]
            if pre:
                rx = [o for o in pre if (o["op"] in ("request", "data") and o["sid"] == sid) or (o["op"] == "ev" and o.get("k") == "ended" and o.get("sid") == sid)]
                if rx and rx[0]["op"] == "request" and sum(1 for o in rx if o["op"] == "request") == 1:
                    # the scope, against an independent reading of the client's header list (the statement's own words)
                    hl = [(n_.encode("latin1"), v_.encode("latin1")) for n_, v_ in rx[0]["headers"]]
                    meth = [v_ for n_, v_ in hl if n_ == b":method"][-1]
                    rawp, _, qs = [v_ for n_, v_ in hl if n_ == b":path"][-1].partition(b"?")
                    auth = [v_ for n_, v_ in hl if n_ == b":authority"]
                    hostv = auth[-1] if auth else ([v_ for n_, v_ in hl if n_ == b"host"] or [b""])[-1]
                    want_scope = {"method": meth.decode("ascii").upper(), "http_version": "2", "raw_path": b2s(rawp), "query_string": b2s(qs),
                                  "headers": [["host", b2s(hostv)]] + [[b2s(n_), b2s(v_)] for n_, v_ in hl if not n_.startswith(b":") and n_ != b"host"]}
                    if a["scope"] != want_scope:
                        diff = {f: [a["scope"].get(f), want_scope[f]] for f in want_scope if a["scope"].get(f) != want_scope[f]}
                        ctx.violation("scope", {**case, "sid": sid}, diff, {**sig, "fields": sorted(diff)})
                    ended = rx[-1]["op"] == "ev"
                    datas = [o["d"] for o in rx if o["op"] == "data"]
                    want = [[d, True] for d in datas] + ([["", False]] if ended else [])
                    ctx.count("h2glue.theorem_hypotheses_hold", "ended" if ended else "open")
                    ctx.distinct(["h2glue", len(datas), ended, len(ids), case["apps"][ids.index(sid)] if ids.index(sid) < len(case["apps"]) else "?"])
                    if real_msgs != want:
                        ctx.violation("body", {**case, "sid": sid}, {"got": [[len(b), mb] for b, mb in real_msgs][:12], "want": [[len(b), mb] for b, mb in want][:12]},
                                      {**sig, "reader": True})
        ctx.sample({"family": "h2glue", "kinds": case["kinds"], "apps": case["apps"], "ops": len(rich)}, cap=3)


# --------------------------------------------------------------------------------------------------------------
# Layer 5: requests that last longer than the keep-alive time-out, over every way a connection comes to speak
# HTTP/1 or HTTP/2 ("every relative timing between reads and application progress" x "every way the request bytes
# are split across network reads"): the body is uploaded piece by piece with pauses (virtual time) whose total
# exceeds a small keep_alive_timeout, or the application starts to read later than that; the first bytes of the
# connection (request head / connection preface + SETTINGS + HEADERS + first DATA) arrive in one read or cut in two.
# --------------------------------------------------------------------------------------------------------------
SLOW_T = 1.0          # keep_alive_timeout of these sessions (virtual seconds)
SLOW_ENTRIES = [
    "h11_cl", "h11_chunked", "h10_cl",     # HTTP/1.1 content-length / chunked, HTTP/1.0
    "h11_h2c_body",                        # HTTP/1.1 request with a body that offers `Upgrade: h2c` (not taken up: served as HTTP/1.1)
    "prior",                               # cleartext HTTP/2 with prior knowledge: h11 sees `PRI * HTTP/2.0`, the wrapper switches
    "h2c",                                 # cleartext HTTP/2 by upgrade: GET with `Upgrade: h2c` (stream 1), the upload is stream 3
    "alpn",                                # TLS with ALPN h2
]
SLOW_TARGET = "/up%41/b?x=1&y=%2F"


def slow_parts(case: dict) -> List[bytes]:
    """the pieces of the body, one per client write (distinct contents: a lost, repeated or reordered piece shows)"""
    return [bytes((i * 41 + j + case["seed"]) % 251 for j in range(n)) for i, n in enumerate(case["sizes"])]


def slow_cut(blob: bytes, cut: Any) -> Optional[int]:
    """where the first bytes of the connection are cut: None = one read; k = after k bytes; "head" = after the HTTP/1 request head /
    after the HTTP/2 connection preface and the client's SETTINGS frame"""
    if cut == "head":
        if blob.startswith(b"PRI * HTTP/2.0\r\n\r\nSM\r\n\r\n"):
            cut = 24 + 9 + int.from_bytes(blob[24:27], "big")
        else:
            cut = blob.find(b"\r\n\r\n") + 4
    return cut if isinstance(cut, int) and 0 < cut < len(blob) else None


def slow_observe(case: dict, cut: Any) -> dict:
    entry, worker = case["entry"], case["worker"]
    parts = slow_parts(case)
    complete = case["complete"]
    to_send = parts if complete else parts[:-1]      # an abandoned upload: the last piece never leaves the client
    total = sum(len(p) for p in parts)
    scripts = [consumer_script(case["consumer"])]
    if entry == "h2c":
        scripts = [consumer_script("eager"), consumer_script(case["consumer"])]
    info: Dict[str, Any] = {}

    async def first_read(io, blob: bytes) -> None:
        k = slow_cut(blob, cut)
        info["first"] = [len(blob), k]
        if k is None:
            await io.send(blob)
        else:
            await io.send(blob[:k])
            if case.get("cut_gap"):
                await io.sleep(case["cut_gap"])
            await io.send(blob[k:])

    async def rest(io, emit) -> None:
        for i in range(1, len(to_send)):
            await io.sleep(case["pauses"][i - 1])
            await emit(i)
        if complete:
            await io.sleep(3.0)
        else:
            # the client gives up: it waits (longer than the time-out) and closes
            await io.sleep(case.get("linger", 2.37))
            await io.eof()
            await io.sleep(1.0)

    cfg = {"keep_alive_timeout": case.get("T", SLOW_T), **(case.get("cfg") or {})}
    if entry in ("prior", "h2c", "alpn"):
        async def client(io):
            c = C.H2Client(upgrade=(entry == "h2c"))
            hs = C.h2_headers("POST", SLOW_TARGET, authority="x", extra=[(b"x-entry", entry.encode())])
            end0 = complete and len(parts) == 1
            if entry == "h2c":
                uh = [(b"Host", b"x"), (b"Connection", b"Upgrade, HTTP2-Settings"), (b"Upgrade", b"h2c"), (b"HTTP2-Settings", c.upgrade_settings)]
                await first_read(io, C.h1_request("GET", "/first?u=1", uh))
                got = io.take()
                head, _, tail = got.partition(b"\r\n\r\n")
                if not head.startswith(b"HTTP/1.1 101"):
                    raise RuntimeError(f"no 101 to the h2c upgrade: {got[:60]!r}")
                c._st(1)
                c.receive(tail)
                await c.pump(io)
                sid = c.request(hs, to_send[0] if to_send else b"", end=end0)      # HEADERS + first DATA in one read
                await c.pump(io)
            else:
                # connection preface, SETTINGS, HEADERS and the first DATA frame leave the client together
                sid = c.request(hs, to_send[0] if to_send else b"", end=end0)
                await first_read(io, c.out())
                await c.pump(io)

            async def emit(i: int) -> None:
                c.send_data(sid, to_send[i], complete and i == len(parts) - 1)
                await c.pump(io)
            await rest(io, emit)
            await c.pump(io)
            return {"first": info.get("first"), "error": c.error, "goaway": c.goaway, "unsent": {str(k): len(v[0]) for k, v in c.pending.items()}}
        res = R.RUNNERS[worker](cfg, "h2" if entry == "alpn" else None, client, scripts, tail=10)
    else:
        version = "1.0" if entry == "h10_cl" else "1.1"
        chunked = entry == "h11_chunked"
        hs = slow_h1_headers(entry, total)
        head = f"POST {SLOW_TARGET} HTTP/{version}\r\n".encode() + b"".join(s2b(n) + b": " + s2b(v) + b"\r\n" for n, v in hs) + b"\r\n"

        def enc(i: int) -> bytes:
            p = to_send[i]
            if not chunked:
                return p
            out = (b"%x\r\n" % len(p) + p + b"\r\n") if p else b""
            return out + (b"0\r\n\r\n" if complete and i == len(parts) - 1 else b"")

        async def client(io):
            await first_read(io, head + (enc(0) if to_send else b""))

            async def emit(i: int) -> None:
                if io.closed_at is None and enc(i):      # (a client stops writing once the server has closed)
                    await io.send(enc(i))
            await rest(io, emit)
            return {"first": info.get("first")}
        res = R.RUNNERS[worker](cfg, None, client, scripts, tail=10)
    apps = []
    for a in res["apps"]:
        msgs = [m for m in a["recv"] if m[1] == "http.request"]
        fin = [i for i, m in enumerate(msgs) if m[3] is False]
        apps.append({"scope": a["scope"], "body": "".join(m[2] for m in msgs), "finals": len(fin), "after_final": len(msgs) - fin[0] - 1 if fin else 0,
                     "recv": [[m[0], m[1]] + ([len(m[2]), m[3]] if m[1] == "http.request" else []) for m in a["recv"]][-6:], "exit": a["exit"]})
    # (the session runs in a forked child: what the client noted comes back with its result)
    client_result = dict(res.get("client_result") or {})
    first = client_result.pop("first", None)
    return {"apps": apps, "error": res["error"], "loop_errors": res["loop_errors"], "client_error": res["client_error"], "client": client_result or None,
            "closed_at": res.get("closed_at"), "first": first, "stuck": bool(res.get("stuck_session"))}


def slow_h1_headers(entry: str, total: int) -> List[List[str]]:
    hs = [["Host", "x"], ["X-Entry", entry]]
    if entry == "h11_h2c_body":
        hs += [["Connection", "Upgrade, HTTP2-Settings"], ["Upgrade", "h2c"], ["HTTP2-Settings", "AAMAAABkAAQAAP__"]]
    hs.append(["Transfer-Encoding", "chunked"] if entry == "h11_chunked" else ["Content-Length", str(total)])
    return hs


def slow_expected(case: dict) -> List[dict]:
    """what the statement demands of the instances of a session: scope fields, body, whether the client completed it"""
    entry = case["entry"]
    parts = slow_parts(case)
    sent = b"".join(parts if case["complete"] else parts[:-1])
    raw_path, _, query = SLOW_TARGET.encode().partition(b"?")
    up = {"method": "POST", "raw_path": b2s(raw_path), "query_string": b2s(query), "path": pct_decode(raw_path), "body": sent, "complete": case["complete"],
          "client": ["127.0.0.1", 4242], "server": ["162.1.1.1", 80]}
    if entry in ("prior", "h2c", "alpn"):
        up.update({"http_version": "2", "scheme": "https" if entry == "alpn" else "http", "headers": [["host", "x"], ["x-entry", entry]]})
    else:
        up.update({"http_version": "1.0" if entry == "h10_cl" else "1.1", "scheme": "http",
                   "headers": [[n.lower(), v] for n, v in slow_h1_headers(entry, sum(len(p) for p in parts))]})
    if entry != "h2c":
        return [up]
    first = {"method": "GET", "raw_path": "/first", "query_string": "u=1", "path": "/first", "http_version": "2", "scheme": "http", "body": b"", "complete": True,
             "client": up["client"], "server": up["server"]}
    return [first, up]


def slow_corpus() -> List[dict]:
    """deterministic, first in every tier: every entry x both workers x
    A: four pieces 0.45 s apart (each pause shorter than the time-out, the upload longer), first bytes in one read / cut inside the preface or the
       request line / after the preface / after the request head (HTTP/2: after preface + SETTINGS);
    B: one pause longer than the time-out;  C: the upload is quick, the application starts to read after 2 s and its queue holds 2 messages;
    D: the client abandons the upload after a pause and closes later: no final message"""
    out = []
    k = 0
    for worker in ("asyncio", "trio"):
        for entry in SLOW_ENTRIES:
            k += 1
            base = {"family": "slow", "entry": entry, "worker": worker, "T": SLOW_T, "seed": 500 + k, "complete": True, "consumer": "eager"}
            out.append({**base, "sizes": [23, 12, 19, 500], "pauses": [0.45, 0.45, 0.45], "cuts": [None, 18, 24, "head"]})
            out.append({**base, "sizes": [10, 700], "pauses": [1.37], "cuts": [None, "head"]})
            out.append({**base, "sizes": [300, 300, 300, 300], "pauses": [0.29, 0.29, 0.29], "consumer": "lazy", "cfg": {"max_app_queue_size": 2}, "cuts": [None, 24]})
            out.append({**base, "sizes": [23, 12, 19], "pauses": [0.71], "complete": False, "linger": 2.37, "cuts": [None]})
    return out


def gen_slow(rng) -> dict:
    entry = rng.choice(SLOW_ENTRIES + ["prior", "prior", "h2c"])
    h2 = entry in ("prior", "h2c", "alpn")
    consumer = rng.choice(["eager", "eager", "slow", "lazy"])
    cut_gap = rng.choice([0, 0, 0.21])
    for _ in range(50):
        n = rng.choice([1, 2, 3, 4, 5])
        sizes = [rng.choice([1, 17, 300, 5000, 20000] + ([0] if h2 else [])) for _ in range(n)]
        pauses = [rng.choice([0.13, 0.29, 0.47, 0.53, 0.71, 1.37, 2.19]) for _ in range(n - 1)]
        complete = rng.random() < 0.8
        # no client action on the grid of the timers a session can have (time-out after the start of the connection / after the
        # preface, the consumers' delays 0.5 s and 2 s): which of two things due at the same instant comes first is no one's promise
        times, t = [], cut_gap
        for p in pauses[:(n - 1) if complete else max(n - 2, 0)]:
            t += p
            times.append(t)
        if not complete:
            times.append(t + 2.37)
        grid = [SLOW_T, SLOW_T + cut_gap, 0.5, 0.5 + cut_gap, 2.0, 2.0 + cut_gap, 2 * SLOW_T, 3 * SLOW_T]
        if all(abs(x - g) > 0.025 for x in times for g in grid) and sum(sizes) <= 60000:
            break
    cfg: Dict[str, Any] = {}
    if rng.random() < 0.35:
        cfg["max_app_queue_size"] = rng.choice([1, 2, 3])
    cuts: List[Any] = [None, rng.choice([18, 24, "head"]), rng.randint(1, 160)]
    return {"family": "slow", "entry": entry, "worker": rng.choice(["asyncio", "trio"]), "T": SLOW_T, "seed": rng.randrange(1 << 30), "complete": complete,
            "consumer": consumer, "sizes": sizes, "pauses": pauses, "cut_gap": cut_gap, "linger": 2.37, "cfg": cfg, "cuts": cuts}


def check_slow(ctx: Ctx, sessions: List[dict]) -> None:
    for case in sessions:
        want = slow_expected(case)
        sig = {"family": "slow", "entry": case["entry"], "worker": case["worker"]}
        ref = None
        span = sum(case["pauses"][:len(case["sizes"]) - (1 if case["complete"] else 2)]) if case["pauses"] else 0
        for cut in case["cuts"]:
            o = slow_observe(case, cut)
            ctx.evaluations += 1
            one = {**case, "cuts": [cut]}
            k = (o["first"] or [0, None])[1]
            ctx.count("slow.entry", case["entry"])
            ctx.count("slow.first_bytes", "one read" if k is None else ("cut at " + (str(cut) if cut in (18, 24, "head") else "k")))
            ctx.count("slow.timing", ("upload longer than the time-out" if span > case.get("T", SLOW_T) else "upload shorter") + f", consumer={case['consumer']}"
                      + ("" if case["complete"] else ", abandoned"))
            if o["stuck"] or o["error"] or o["loop_errors"] or o["client_error"] or (o["client"] or {}).get("error"):
                ctx.violation("handler_exception", one, {k2: o[k2] for k2 in ("error", "loop_errors", "client_error", "client", "stuck")}, {**sig, "kind": "internal"})
                continue
            detail = {"first_bytes": None if o["first"] is None else {"length": o["first"][0], "cut_at": o["first"][1]}, "server_closed_at_ms": o["closed_at"],
                      "client": o["client"]}
            if len(o["apps"]) != len(want):
                ctx.violation("instance_count", one, {"got": len(o["apps"]), "want": len(want), **detail}, sig)
            for i, (a, w) in enumerate(zip(o["apps"], want)):
                sc = a["scope"]
                diff = {f: [sc.get(f), w[f]] for f in w if f not in ("body", "complete") and sc.get(f) != w[f]}
                if diff:
                    ctx.violation("scope", one, {"k": i, "diff": diff}, {**sig, "fields": sorted(diff)})
                got = a["body"].encode("latin1")
                # the body the client sent, byte for byte; exactly one final message iff the client completed it; nothing after it
                if got != w["body"] or a["finals"] != (1 if w["complete"] else 0) or a["after_final"]:
                    ctx.violation("body", one, {"k": i, "got": len(got), "want": len(w["body"]), "prefix": w["body"].startswith(got), "finals": a["finals"],
                                                "client_completed": w["complete"], "last_messages": a["recv"], **detail}, {**sig, "complete": w["complete"]})
                ctx.distinct(["slow", case["entry"], case["worker"], "one" if k is None else "cut", case["consumer"], span > case.get("T", SLOW_T), w["complete"],
                              "big" if len(w["body"]) > 1000 else ("none" if not w["body"] else "small")])
            # segmentation independence: the same bytes, cut differently, are the same request
            view = [[a["scope"], a["body"], a["finals"]] for a in o["apps"]]
            if ref is None:
                ref = (cut, view)
            elif view != ref[1]:
                ctx.violation("segmentation_dependent", {**case, "cuts": [ref[0], cut]}, {"cuts": [ref[0], cut], **detail}, sig)
        ctx.sample({"family": "slow", "entry": case["entry"], "sizes": case["sizes"], "pauses": case["pauses"], "consumer": case["consumer"], "cuts": case["cuts"]}, cap=4)


def run(ctx: Ctx) -> None:
    # requests in progress for longer than the keep-alive time-out, every entry path, both workers (deterministic corpus)
    check_slow(ctx, slow_corpus())
    rng = ctx.rng
    cases = []
    for i in range(ctx.budget(500, 15000)):
        n = rng.choice([1, 1, 2, 3])
        opts = {"big": rng.random() < 0.3, "weights": [6, 5, 5, 1, 1, 1, 1, 0, 0, 0, 0], "targets": C01_TARGETS}
        reqs = [HS.gen_request(rng, j, opts) for j in range(n)]
        apps = [HS.gen_app(rng, r, {"no_crash": True}) for r in reqs]
        cfg = gen_cfg(rng)
        respell(rng, reqs, cfg)
        cases.append({"family": "direct", "requests": reqs, "apps": apps, "split": rng.choice(["one", "random", "random", "bytewise", "per_request"]),
                      "seed": rng.randrange(1 << 30), "cfg": cfg})
    corpus_direct, corpus_e2e = cfg_corpus()
    targets_direct, targets_e2e = target_corpus()
    check_direct(ctx, targets_direct + corpus_direct + cases)
    check_filter_pseudo(ctx, ctx.budget(400, 20000))
    sessions = [gen_e2e_session(ctx) for _ in range(ctx.budget(40, 1200))]
    # short sessions get every two-way split
    shorts = []
    for _ in range(ctx.budget(3, 40)):
        s = gen_e2e_session(ctx)
        s["requests"] = s["requests"][:1]
        r = s["requests"][0]
        r["body"], r["chunks"] = ("ab" if r["body"] or r["chunks"] else ""), None
        r["target"] = rng.choice(["/p?q=1", "/p?q=1", "//c/p;x?q=1#f?", "http://h/p?q=1"])
        r["headers"] = r["headers"][:2]
        shorts.append(s)
    # corpus: uploads larger than one 64 KiB read / than the HTTP/2 flow-control window, on both workers
    for worker in ("asyncio", "trio"):
        for proto, n in (("2", 70000), ("2", 200000), ("1.1", 70000), ("1.1", 200000)):
            sessions.append({"family": "e2e", "proto": proto, "worker": worker, "consumer": "slow", "seed": 7 + n,
                             "requests": [{"kind": "body_cl", "method": "POST", "target": "/up", "headers": [["Host", "x"]], "version": "1.1",
                                           "body": "u" * n, "chunks": None}]})
    check_e2e(ctx, targets_e2e + corpus_e2e + timing_corpus() + sessions, all_two_way=False)
    check_e2e(ctx, shorts, all_two_way=True)
    check_h2conn(ctx, h2conn_corpus() + [gen_h2conn(ctx) for _ in range(ctx.budget(30, 400))])
    check_h2glue(ctx, [gen_h2glue(rng, k) for k in range(ctx.budget(300, 6000))])
    # ... and random sampling around that corpus
    check_slow(ctx, [gen_slow(rng) for _ in range(ctx.budget(25, 600))])


def replay(ctx: Ctx, case: dict) -> None:
    if case.get("family") == "direct":
        check_direct(ctx, [case])
    elif case.get("family") == "h2conn":
        check_h2conn(ctx, [case])
    elif case.get("family") == "h2glue":
        check_h2glue(ctx, [{k: v for k, v in case.items() if k != "sid"}])
    elif case.get("family") == "filter_pseudo":
        check_filter_pseudo(ctx, 200)
    elif case.get("family") == "slow":
        check_slow(ctx, [case])
    else:
        reads_sizes = case.get("reads")
        check_e2e(ctx, [case], all_two_way=True)
