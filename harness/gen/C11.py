"""C11 — WebSocket handshake validation and lifecycle mapping.

(a) direct: the real `WSStream` gets a `Request` with every combination of the handshake headers (absent / valid /
    odd case / invalid / duplicated), then an application decision sequence, then a closing order; every step is compared
    with the Lean model run with the accept token computed by the Lean SHA-1/base64 (`c11.ws`).
(b) end to end: both workers, HTTP/1.1 upgrade and HTTP/2 extended CONNECT, independent `WsClient` (+ wsproto's own client
    handshake as oracle for the 101), scripted applications.
Monitors come from the property text: `spec_valid` is the statement's notion of a valid handshake (NOT the code's)."""
from __future__ import annotations

import itertools
import random
from typing import Any, Dict, List, Optional, Tuple

from ..core import clients as C
from ..core import streams as S
from ..core import wsrun as W
from ..core.framework import Ctx, b2s, s2b

SPEC = {
    "modules": ["HC.Props.C11", "HC.Pure.Sha1"],
    "extracted": ["Guards", "WsGuards", "AppExit"],
    "technique": "Lean 4: Handshake(headers) characterised as a function of the LAST occurrence of each header (scan = merge, by induction over arbitrary header lists), is_valid <-> a declarative validSpec over the header list for both carriers, onRequest 400/no-app vs connect-first, accept rendering = explicit header list with the token instantiated by an executable SHA-1/base64 (RFC 6455 sample checked by kernel evaluation), refused accept = no-op, 403, denial response by induction over body chunks, disconnect code per closing order; tied by differential runs of the real WSStream over the exhaustive header-presence lattice and by end-to-end runs on asyncio+trio over HTTP/1.1 and HTTP/2 with an independent wsproto client",
    "level_text": "Proved in Lean for ALL header lists (any length, duplicates, any case) and both carriers: Handshake(headers, v).is_valid() = True iff validSpec (last occurrence of each header, names case-insensitive; Connection a comma list with an `upgrade` token in any case; Upgrade = websocket in any case; Sec-WebSocket-Version exactly 13; key / Connection / Upgrade demanded for EVERY version string other than '2' / '3', i.e. whatever an HTTP/1 request line states - the tests over self.http_version are extracted from is_valid and accept (WsGuards.versionRefused / http1Handshake / http1Accept; version_refused_iff, http1_handshake_iff, http1_accept_iff, accept_test_is_valid_test); never below 1.1) and every token-list header ASCII; for every version h11 can hand over (d.d: h11_version_not_multiplexed) a handshake lacking key / Connection: upgrade / Upgrade: websocket is refused with 400 and no application (h1_incomplete_refused, h1_incomplete_400_no_app - the clause F102 broke for 1.2, 2.0, 9.9 ...), a complete one is valid iff the version is not below 1.1 (h1_complete_valid_iff) and its accept is a 101 with upgrade / connection (h1_accept_is_101); header names matched case-insensitively because Handshake.__init__ lower-cases them (handshake_names_lowercased over the extracted WsGuards.handshakeName) - is_valid_iff (no side condition) / is_valid_false_iff / non_ascii_is_400, with the one remaining raise-instead-of-400 boundary as a theorem (missing_upgrade_raises, unreachable through H11Protocol); invalid => 400 + closed + nothing put, ever (invalid_400_no_app, never_started_never_put); valid => exactly [websocket.connect] put and nothing written (valid_connect_first); accept => 101/200 with [subprotocol iff given (and then offered)] ++ [extensions] ++ [sec-websocket-accept = base64(sha1(key ++ GUID))] ++ [upgrade, connection on 1.1] ++ validated extra headers (accept_rendered, accept_ok_iff, accept_sent, accept_token_rfc6455), and this for EVERY container the application gives the extra headers in - ASGI says Iterable: the traversals Handshake.accept performs over additional_headers are extracted in order (WsGuards.acceptExtraPasses) and run on a model of an iterable that a one-shot form (generator / iterator / map object) lets be traversed once (HC/Stream/WsIter.lean): accept_extra_any_iterable / accept_any_iterable - the result is the one for the list of its items (check_then_emit, faithful_sound: one checking-and-emitting traversal, or a copy first); refused accept = state and wire untouched (accept_refused_is_noop); close => 403 (close_403); HTTP-response extension => exactly that status/headers/body chunks/end once (http_response_exact); disconnect code 1000 iff CLOSED/HTTPCLOSED else 1006 (disconnect_code), 1000 after the application's close (app_close_1000, simultaneous_close_1000) - also when the two closing sequences overlap: the CONNECTED-state websocket.close branch of app_send is read off the source statement by statement (AppExit.wsCloseBranch) and run on the stream model with the reader task handling the client's close frame + the protocol's StreamClosed, or the loss of the connection, while the p-th awaited send of the branch is suspended (HC/Stream/WsOverlap.lean): for every p and all codes the application is told 1000 exactly once after a completed closing handshake, never 1006 (app_close_overlapped_client_close_1000, app_close_overlapped_events), 1000 or 1006 exactly once when the connection is lost during the write (app_close_overlapped_lost), because the state is CLOSED before the first await once the frame exists (app_close_state_before_write; close_branch_is_appSend: without an overlap the statement-wise run is the model's atomic step); 1006 when lost (lost_1006).  disconnect_code_client_close: after a client-initiated close the application is told the client's code (1005 if none); non_ascii_is_400: a non-ASCII token-list header makes the handshake invalid instead of raising (F13 and F33 were repaired in the repository).",
    "level_note": "Trusted: Lean kernel; model HC/Stream/Ws.lean tied by differential runs; wsproto's extension negotiation result is a parameter of the model (taken from the run), its connection-state machine is modelled (connSend / connRecvClose) and sampled; H11Protocol's / H2Protocol's routing (which requests reach a WSStream) is exercised end to end only; HC.Pure.Sha1 is compared on every run with wsproto.utilities.generate_accept_token and with wsproto's own client handshake.",
    "rule": "direct: exhaustive lattice over {connection, upgrade, key, version} x 6 states x HTTP version {1.0, 1.1, 2}, {connection, upgrade, key} x 4 states x version header {ok, bad, absent} x request-line version {1.2, 1.9, 2.0, 3.0, 9.9, 0.9} on the HTTP/1 carrier, random subprotocol/extension offers, application decision sequences up to length 4 over the websocket send alphabet, the headers of accept / http.response.start given as list / tuple / list of lists / iterator / generator / generator expression / map object (every form x carrier x with / without subprotocol x accepted and refused header sets; every other header-bearing random decision in a non-list form; Handshake.accept against the extracted traversals per form: c11.extra), closing orders {client first (1000, 1001, 3000, no code), application first, simultaneous, abrupt, client first and gone, the application's close suspended in its first / second awaited send while the client's close frame + StreamClosed or the loss of the connection are handled (c11.wsx)}; e2e: handshake classes (incl. request-line versions 1.2 / 1.9 / 2.0 / 3.0 / 9.9 / 0.9 complete, key-less, bad version header, duplicated Connection / Upgrade; header names per header in lower / Capitalised / UPPER case with h11_pass_raw_headers on and off) x decisions x closing orders (incl. the application's close held up by a peer that does not read while the client's close frame arrives / the connection is reset) x carrier x worker, and the upgrade as the k-th request of its connection below / at keep_alive_max_requests (1, 2, 3) incl. wsproto's own client as oracle, and accept / denial response with headers in every container form x carrier x worker; distinct = distinct (layer, carrier, worker, header-state vector, decision classes, closing order); non-trivial = handshake invalid, or a decision other than a bare accept, or a closing order other than abrupt",
    "trusted": ["wsproto client handshake (WSConnection CLIENT) as oracle for an acceptable 101", "h11 / h2 client parsers"],
    "partial": ["duplicated handshake headers whose occurrences disagree and an HTTP/2 `:protocol` other than `websocket` are treated as unspecified by the monitor (the theorems state what the code does: last occurrence wins; `:protocol` is not looked at)"],
    "assumptions": ["requests are syntactically valid HTTP (h11 / h2 accept them); header names reach the stream lower-cased on HTTP/2, lower-cased or (h11_pass_raw_headers) as the client wrote them on HTTP/1"],
}

KEY = b"dGhlIHNhbXBsZSBub25jZQ=="
KEY2 = b"AQIDBAUGBwgJCgsMDQ4PEC=="

STATES = ["absent", "ok", "ok_case", "bad", "dup_ok_bad", "dup_bad_ok"]
HVALS = {
    "connection": {"ok": [b"Upgrade"], "ok_case": [b"keep-alive, uPgRaDe"], "bad": [b"keep-alive"], "dup_ok_bad": [b"upgrade", b"close"], "dup_bad_ok": [b"close", b"upgrade"]},
    # the bad value is not `h2c`: an h2c upgrade is C13's business (and its defect F23)
    "upgrade": {"ok": [b"websocket"], "ok_case": [b"WebSocket"], "bad": [b"websocket2"], "dup_ok_bad": [b"websocket", b"tls/1.0"], "dup_bad_ok": [b"tls/1.0", b"websocket"]},
    "sec-websocket-key": {"ok": [KEY], "ok_case": [KEY2], "bad": [b""], "dup_ok_bad": [KEY, b""], "dup_bad_ok": [KEY2, KEY]},
    "sec-websocket-version": {"ok": [b"13"], "ok_case": [b"13"], "bad": [b"12"], "dup_ok_bad": [b"13", b"8"], "dup_bad_ok": [b"8", b"13"]},
}
# Sec-WebSocket-Version values around the only valid one: values that merely CONTAIN "13" (as a substring, a list member,
# with a sign / leading zero / fraction), neighbours, empty.  Not part of the 6-state lattice (it would multiply it by 4);
# swept on otherwise perfect handshakes in both layers, both carriers, both workers.
VERSION_VALUES = [b"130", b"213", b"1.13", b"013", b"13.0", b"131", b"1313", b"13, 8", b"8, 13", b"13,13", b"+13", b"-13", b"0x13", b"13a", b"a13",
                  b"1 3", b"31", b"14", b"12", b"3", b"1", b""]
for _v in VERSION_VALUES:
    HVALS["sec-websocket-version"]["v=" + _v.decode()] = [_v]
VERSION_STATES = ["v=" + _v.decode() for _v in VERSION_VALUES]
# versions an HTTP/1 request line can state besides 1.1 / 1.0 (h11's pattern is `HTTP/[0-9]\.[0-9]`, it hands the two digits to the
# server as they are): the HTTP/1.1 handshake rules apply to every one of them that is not below 1.1 (F102: only `1.1` had its
# key / Connection / Upgrade headers checked, a key-less `HTTP/1.2` upgrade reached the application and was answered 200 + frames)
H1_VERSIONS = ["1.2", "1.9", "2.0", "3.0", "9.9", "0.9"]
MULTIPLEXED = ("2", "3")          # what H2Protocol / H3Protocol pass as http_version


def carrier_of(version: str) -> str:
    return "h2" if version in MULTIPLEXED else "h1"


def _h1_version_ok(version: str) -> bool:
    """the request line states HTTP/1.1 or later (numerically; h11 only lets `d.d` through)"""
    try:
        major, minor = version.split(".")
        return (int(major), int(minor)) >= (1, 1)
    except ValueError:
        return False


NAMES_CASE = {"connection": b"Connection", "upgrade": b"UPGRADE", "sec-websocket-key": b"Sec-WebSocket-Key", "sec-websocket-version": b"Sec-Websocket-VERSION"}


def build_headers(states: Dict[str, str], offers: Optional[bytes], exts: Optional[bytes], raw_case: bool) -> List[List[str]]:
    hs: List[List[str]] = [["host", "x"]]
    for name in ("sec-websocket-version", "connection", "sec-websocket-key", "upgrade"):
        st = states[name]
        if st == "absent":
            continue
        nm = NAMES_CASE[name] if (st == "ok_case" and raw_case) else name.encode()
        for v in HVALS[name][st]:
            hs.append([b2s(nm), b2s(v)])
    if offers is not None:
        hs.append(["sec-websocket-protocol", b2s(offers)])
    if exts is not None:
        hs.append(["sec-websocket-extensions", b2s(exts)])
    return hs


# --------------------------------------------------------------------------------------------------------------
# the statement's notion of validity (independent of code and model).  True / False / None (= occurrences disagree)
# --------------------------------------------------------------------------------------------------------------
def _occ(headers: List[List[str]], name: str) -> List[str]:
    return [v for n, v in headers if n.lower() == name]


def spec_valid(carrier: str, method: str, version: str, headers: List[List[str]], protocol: Optional[str] = "websocket") -> Optional[bool]:
    def choices(name):
        o = _occ(headers, name)
        return o if o else [None]

    def one(conn, upg, key, ver) -> bool:
        if ver is None or ver.strip() != "13":
            return False
        if carrier == "h2":
            return method == "CONNECT" and version == "2" and protocol is not None
        if method != "GET" or not _h1_version_ok(version):
            return False
        if key is None:
            return False
        if conn is None or not any(t.strip().lower() == "upgrade" for t in conn.split(",")):
            return False
        return upg is not None and upg.strip().lower() == "websocket"

    # a token-list header with non-ASCII bytes is not a well-formed handshake header: the statement does not say whether such a
    # handshake is "valid"; what it must not do is crash the server (checked separately)
    for nm in ("connection", "sec-websocket-protocol", "sec-websocket-extensions"):
        if any(ord(ch) > 127 for v in _occ(headers, nm) for ch in v):
            return None
    res = {one(c, u, k, v) for c in choices("connection") for u in choices("upgrade") for k in choices("sec-websocket-key") for v in choices("sec-websocket-version")}
    if carrier == "h2" and protocol not in (None, "websocket"):
        return None if True in res else False
    return res.pop() if len(res) == 1 else None


def ws_attempt(carrier: str, method: str, headers: List[List[str]]) -> Optional[bool]:
    """does the client ask for a WebSocket at all (RFC 7230 §6.7: an Upgrade not listed in Connection may be ignored)?"""
    if carrier == "h2":
        return method == "CONNECT"
    up, co = _occ(headers, "upgrade"), _occ(headers, "connection")
    a = {(u.strip().lower() == "websocket") for u in up} or {False}
    b = {any(t.strip().lower() == "upgrade" for t in c.split(",")) for c in co} or {False}
    r = {x and y and method == "GET" for x in a for y in b}
    return r.pop() if len(r) == 1 else None


def last(headers: List[List[str]], name: str) -> Optional[str]:
    o = _occ(headers, name)
    return o[-1] if o else None


# --------------------------------------------------------------------------------------------------------------
# application decisions
# --------------------------------------------------------------------------------------------------------------
OFFERS = [None, b"chat, superchat", b"chat", b"superchat,chat ,x"]
EXTS = [None, b"permessage-deflate", b"permessage-deflate; client_max_window_bits", b"x-unknown-ext"]

# the container an application gives its `headers` in.  ASGI (and hypercorn.typing) say `Iterable[[bytes, bytes]]`: a list or a
# tuple (of tuples or of lists) can be traversed again and again, an iterator / generator / generator expression / map object
# yields its pairs ONCE.  The decision is rendered faithfully whichever of them the application chose (C11-12: a second
# traversal of a one-shot iterable saw nothing - accepted, but without the extra headers).
FORMS = ["list", "tuple", "lists", "iter", "generator", "genexpr", "map"]
ONE_SHOT = ("iter", "generator", "genexpr", "map")


def _generator(pairs):
    for pair in pairs:
        yield pair


def as_form(pairs: List[Tuple[bytes, bytes]], form: Optional[str]) -> Any:
    if form == "tuple":
        return tuple(pairs)
    if form == "lists":
        return [list(p) for p in pairs]
    if form == "iter":
        return iter(list(pairs))
    if form == "generator":
        return _generator(list(pairs))
    if form == "genexpr":
        return ((n, v) for n, v in list(pairs))
    if form == "map":
        return map(tuple, list(pairs))
    return list(pairs)


def hform(d: list) -> str:
    """the container form of a decision's headers: ["accept", sub, headers, form?] / ["response", status, headers, chunks, form?]"""
    if d and d[0] == "accept" and len(d) > 3 and d[3]:
        return d[3]
    if d and d[0] == "response" and len(d) > 4 and d[4]:
        return d[4]
    return "list"


def dec_msgs(d: list, live: bool = True) -> List[Optional[dict]]:
    """the messages of a decision; `live=False`: the headers as a plain list whatever the form (what the model is asked about,
    and what can be looked at after the run - a one-shot iterable handed to the server is spent)"""
    k = d[0]
    form = hform(d) if live else "list"
    if k == "accept":
        m: Dict[str, Any] = {"type": "websocket.accept"}
        if d[1] is not None:
            m["subprotocol"] = d[1]
        if d[2]:
            m["headers"] = as_form([(s2b(n), s2b(v)) for n, v in d[2]], form)
        return [m]
    if k == "close":
        m = {"type": "websocket.close"}
        if d[1] is not None:
            m["code"] = d[1]
        return [m]
    if k == "response":
        out: List[Optional[dict]] = [{"type": "websocket.http.response.start", "status": d[1], "headers": as_form([(s2b(n), s2b(v)) for n, v in d[2]], form)}]
        chunks = d[3]
        if not chunks:
            out.append({"type": "websocket.http.response.body"})
        for i, c in enumerate(chunks):
            out.append({"type": "websocket.http.response.body", "body": s2b(c), "more_body": i < len(chunks) - 1})
        return out
    if k == "crash":
        return [None]
    if k == "send":
        return [{"type": "websocket.send", "text": d[1]}]
    return []


def gen_decisions(rng: random.Random) -> List[list]:
    fam = rng.choice(["accept", "accept", "accept_sub", "accept_sub_bad", "accept_hdr", "accept_hdr_bad", "close", "response", "response", "crash",
                      "none", "bad_then_close", "bad_then_accept", "random"])
    extra_ok = [["x-extra", " 1 "], ["set-cookie", "a=1"], ["set-cookie", "b=2"]]
    if fam == "accept":
        return [["accept", None, []]]
    if fam == "accept_sub":
        return [["accept", rng.choice(["chat", "superchat"]), rng.choice([[], extra_ok[:1]])]]
    if fam == "accept_sub_bad":
        return [["accept", rng.choice(["evil", "Chat", ""]), []]]
    if fam == "accept_hdr":
        return [["accept", None, extra_ok[:rng.choice([1, 3])]]]
    if fam == "accept_hdr_bad":
        return [["accept", None, rng.choice([[["sec-websocket-protocol", "chat"]], [[":status", "200"]], [["x-a", "1"], ["sec-websocket-protocol", "x"]]])]]
    if fam == "close":
        return [["close", rng.choice([None, 1000, 4000])]]
    if fam == "response":
        chunks = rng.choice([[], ["no"], ["n", "o", ""], ["x" * 300, "y"]])
        # (a 200 denial is indistinguishable from an acceptance on HTTP/2: not generated)
        return [["response", rng.choice([401, 403, 404, 204, 503]), rng.choice([[], [["www-authenticate", "Basic"]], [["x-a", " 1 "], ["x-a", "2"]]]), chunks]]
    if fam == "crash":
        return [["crash"]]
    if fam == "none":
        return []
    if fam == "bad_then_close":
        return [["accept", "evil", []], ["close", None]]
    if fam == "bad_then_accept":
        return [["accept", None, [[":status", "200"]]], ["accept", None, []]]
    alpha = [["accept", None, []], ["accept", "chat", []], ["accept", "evil", []], ["close", None], ["close", 3000], ["response", 401, [], ["no"]], ["crash"], ["send", "hi"]]
    return [rng.choice(alpha) for _ in range(rng.choice([2, 3, 4]))]


CLOSINGS = [["client_first", 1000], ["client_first", 1001], ["client_first", 3000], ["client_first", None], ["app_first", None], ["app_first", 4001],
            ["simultaneous", 1000, 3001], ["abrupt"], ["client_close_twice", 1000], ["bad_frame"],
            ["client_first_gone", 1000], ["client_first_gone", 3000], ["client_first_gone", None],
            ["app_close_overlap", None, 3001, 0], ["app_close_overlap", 4001, 1000, 0], ["app_close_overlap", 1000, None, 1], ["app_close_overlap", None, 4000, 1],
            ["app_close_lost", None, 0], ["app_close_lost", 4001, 1]]
# app_close_overlap [application's code, client's code, p]: the two closing sequences overlap - the application's websocket.close is
# suspended in its p-th awaited send (0: the close frame, 1: the end of the data; the write does not complete - transport
# back-pressure, HTTP/2 flow control) while the reader task handles the client's own close frame and the protocol, told
# StreamClosed by it, closes the stream; then the write completes.  Both close frames were sent: a completed closing handshake
# that the application started (1000; the client's code is tolerated as for `simultaneous`), never "connection lost".
# app_close_lost [application's code, p]: the connection is lost while that send is suspended: its own close and a lost
# connection both describe it (1000 or 1006).
# client_first_gone: the client sends its close frame and vanishes; the echo cannot be written, the failed write closes the
# connection from inside the await of the echo (StreamClosed is handled re-entrantly).  Still a client-initiated close.
# bad_frame: an unmasked frame with a reserved opcode: wsproto yields CloseConnection(1002) *without* changing its state
# (model event `failed`); the statement does not name this order, so only model and code are compared
# client_close_twice: a second close frame after the protocol has closed the stream (StreamClosed is delivered synchronously
# by both protocols, so the stream is closed before any further bytes can reach it)


def fsig(d: list) -> dict:
    """signature part: the decision's headers came as a one-shot iterable"""
    return {"one_shot_headers": True} if hform(d) in ONE_SHOT else {}


def dclass(ds: List[list]) -> List[str]:
    out = []
    for d in ds:
        if d[0] == "accept":
            out.append("accept" + (":sub=" + d[1] if d[1] is not None else "") + (":hdr=" + ",".join(n for n, _ in d[2]) if d[2] else "")
                       + (":as=" + hform(d) if hform(d) != "list" else ""))
        elif d[0] == "response":
            out.append(f"response:{d[1]}:{len(d[3])}" + (":as=" + hform(d) if hform(d) != "list" else ""))
        else:
            out.append(":".join(str(x) for x in d))
    return out


# --------------------------------------------------------------------------------------------------------------
# expectations from the statement
# --------------------------------------------------------------------------------------------------------------
def offered_tokens(headers: List[List[str]]) -> Optional[List[str]]:
    o = _occ(headers, "sec-websocket-protocol")
    if not o:
        return None
    if len(o) > 1:
        return None
    return [t.strip() for t in o[0].split(",")]


def accept_expect(version: str, headers: List[List[str]], d: list) -> dict:
    """what a (first) `websocket.accept` must produce per the statement"""
    offered = offered_tokens(headers)
    sp = d[1]
    bad_hdr = any(n.lower() == "sec-websocket-protocol" or n.startswith(":") for n, _ in d[2])
    if sp is not None and (offered is None or sp not in offered):
        return {"ok": False, "why": "unoffered_subprotocol"}
    if bad_hdr:
        return {"ok": False, "why": "forbidden_extra_header"}
    return {"ok": True, "status": 200 if version in MULTIPLEXED else 101, "subprotocol": sp, "extra": [[n.strip(), v.strip()] for n, v in d[2]]}


def check_accept_headers(got: List[List[str]], exp: dict, key: Optional[str], lean_token: Optional[str], version: str) -> Optional[str]:
    names = [n.lower() for n, _ in got]
    g = [[n.lower(), v] for n, v in got]
    sp = [v for n, v in g if n == "sec-websocket-protocol"]
    if exp["subprotocol"] is None and sp:
        return "subprotocol header without a subprotocol"
    if exp["subprotocol"] is not None and sp != [exp["subprotocol"]]:
        return f"subprotocol {sp} != {exp['subprotocol']}"
    tok = [v for n, v in g if n == "sec-websocket-accept"]
    if version not in MULTIPLEXED:
        from wsproto.utilities import generate_accept_token
        want = b2s(generate_accept_token(s2b(key))) if key is not None else None
        if tok != [want]:
            return f"accept token {tok} != {want}"
        if lean_token is not None and tok != [lean_token]:
            return f"accept token {tok} != Lean {lean_token}"
    if version not in MULTIPLEXED:
        # the 101 says `Connection: Upgrade` and nothing else about the connection (RFC 6455 4.2.2 / 4.1: a client fails the
        # handshake without an `upgrade` token; `close` contradicts the switch)
        conn = [[t.strip().lower() for t in v.split(",")] for n, v in g if n == "connection"]
        if len(conn) != 1 or conn[0] != ["upgrade"]:
            return f"connection header(s) of the 101: {[v for n, v in g if n == 'connection']}"
        if [v.lower() for n, v in g if n == "upgrade"] != ["websocket"]:
            return f"upgrade header(s) of the 101: {[v for n, v in g if n == 'upgrade']}"
    own = {"sec-websocket-protocol", "sec-websocket-extensions", "sec-websocket-accept", "upgrade", "connection", "date", "server", "alt-svc"}
    extra = [h for h in g if h[0] not in own or h in [[n.lower(), v] for n, v in exp["extra"]]]
    extra = [h for h in extra if h[0] not in ("date", "server", "alt-svc")]
    want_extra = [[n.lower(), v] for n, v in exp["extra"]]
    # the application's headers, in order, after the server's handshake headers
    tail = [h for h in g if h[0] not in ("date", "server", "alt-svc")]
    if want_extra and tail[-len(want_extra):] != want_extra:
        return f"extra headers {tail} do not end with {want_extra}"
    return None


def expected_code(closing: list) -> Optional[List[int]]:
    k = closing[0]
    if k in ("client_first", "client_close_twice", "client_first_gone"):
        return [closing[1] if closing[1] is not None else 1005]
    if k == "app_first":
        return [1000]
    if k == "simultaneous":
        return [1000, closing[2]]
    if k == "abrupt":
        return [1006]
    if k == "app_close_overlap":
        return [1000, closing[2] if closing[2] is not None else 1005]
    if k == "app_close_lost":
        return [1000, 1006]
    return None


# --------------------------------------------------------------------------------------------------------------
# (a) direct
# --------------------------------------------------------------------------------------------------------------
def close_frame(code: Optional[int], seed: int) -> bytes:
    ws = C.WsClient(random.Random(seed))
    ws._negotiated([])
    return ws.close(code)


def direct_ops(case: dict, live: bool = True) -> List[dict]:
    ops: List[dict] = []
    for d in case["decisions"]:
        for m in dec_msgs(d, live):
            ops.append({"send": m})
    cl = case["closing"]
    k = cl[0]
    if k == "client_first":
        ops.append({"in": "data", "data": close_frame(cl[1], 3)})
    elif k == "client_first_gone":
        ops.append({"in": "data", "data": close_frame(cl[1], 3), "echo_lost": True})
    elif k == "client_close_twice":
        ops.append({"in": "data", "data": close_frame(cl[1], 3)})
        ops.append({"in": "streamClosed"})
        ops.append({"in": "data", "data": close_frame(cl[1], 4)})
    elif k == "bad_frame":
        ops.append({"in": "data", "data": b"\x83\x00"})
    elif k == "app_first":
        ops.append({"send": dec_msgs(["close", cl[1]])[0]})
        ops.append({"in": "data", "data": close_frame(cl[1] if cl[1] is not None else 1000, 3)})
    elif k == "simultaneous":
        ops.append({"send": dec_msgs(["close", cl[1]])[0]})
        ops.append({"in": "data", "data": close_frame(cl[2], 3)})
    elif k == "app_close_overlap":
        # the reader handles the client's close frame, and the protocol's StreamClosed that follows from it, inside the
        # application's suspended send (H11Protocol / H2Protocol deliver StreamClosed to the stream synchronously)
        ops.append({"send": dec_msgs(["close", cl[1]])[0], "during": [{"in": "data", "data": close_frame(cl[2], 3)}, {"in": "streamClosed"}], "at": cl[3]})
    elif k == "app_close_lost":
        ops.append({"send": dec_msgs(["close", cl[1]])[0], "during": [{"in": "streamClosed"}], "at": cl[2]})
    ops.append({"in": "streamClosed"})
    ops.append({"in": "streamClosed"})
    return ops


def run_direct(ctx: Ctx, cases: List[dict]) -> None:
    prepared = []

    async def runall():
        out = []
        for case in cases:
            init = {"version": case["version"], "headers": [(s2b(n), s2b(v)) for n, v in case["headers"]]}
            steps, lib = await S.drive_ws(init, direct_ops(case), {})
            # (the same operations with every `headers` as a list: the iterables handed to the stream are spent)
            ops = direct_ops(case, live=False)
            prepared.append((init, ops, lib))
            out.append(steps)
        return out

    obs = S.run(runall())
    reqs = []
    for case, (init, ops, lib) in zip(cases, prepared):
        r = S.ws_model_req(init, ops, lib, {})
        # (sessions with a send suspended while the reader runs: the close branch statement by statement, HC/Stream/WsOverlap.lean)
        r["cmd"] = "c11.wsx" if any("during" in op for op in ops) else "c11.ws"
        reqs.append(r)
        reqs.append({"cmd": "c11.token", "key": last(case["headers"], "sec-websocket-key") or ""})
        reqs.append({"cmd": "c11.valid", "version": case["version"], "headers": case["headers"]})
    model = ctx.model(reqs)
    for i, (case, steps) in enumerate(zip(cases, obs)):
        ctx.evaluations += 1
        init, ops, lib = prepared[i]
        version, headers = case["version"], case["headers"]
        carrier = carrier_of(version)
        sv = spec_valid(carrier, "GET" if carrier == "h1" else "CONNECT", version, headers)
        att = ws_attempt(carrier, "GET" if carrier == "h1" else "CONNECT", headers)
        # a WSStream is only ever built by H11Protocol for requests that pass its own upgrade test
        reachable = carrier == "h2" or att is True
        sig0 = {"layer": "direct", "carrier": carrier, **({"request_version": version} if carrier == "h1" and version != "1.1" else {})}
        ctx.count("direct.version", version)
        ctx.count("direct.spec_valid", sv)
        ctx.count("direct.closing", case["closing"][0])
        for c in dclass(case["decisions"]):
            ctx.count("decision", c.split(":")[0])
        if sv is not True or dclass(case["decisions"]) != ["accept"] or case["closing"][0] != "abrupt":
            ctx.distinct(["direct", version, case.get("states"), dclass(case["decisions"]), case["closing"]])
        ctx.sample({"layer": "direct", "version": version, "headers": headers, "decisions": case["decisions"], "closing": case["closing"]}, cap=2)
        req = steps[0]
        lean_token = model[3 * i + 1].get("ok") if model is not None else None
        if model is not None:
            ctx.disagreements_checked += 1
            mo = model[3 * i].get("ok")
            impl: Any = steps
            if isinstance(mo, dict) and "request_error" in mo:
                # the model predicts a raise out of handle(Request): UnicodeDecodeError is a ValueError
                ok = req["error"] in (mo["request_error"], "UnicodeDecodeError" if mo["request_error"] == "ValueError" else None)
                if not ok:
                    ctx.disagree("c11.ws request_error", case, mo, req)
            elif mo is None or mo != impl:
                first = next((k for k, (a, b) in enumerate(zip(mo or [], impl)) if a != b), None)
                ctx.disagree("c11.ws", case, {"first_diff": first, "model": (mo[first] if mo and first is not None else model[3 * i])},
                             {"impl": impl[first] if first is not None else impl[-1]})
            else:
                ctx.traces_validated += 1
            mv = model[3 * i + 2].get("ok")
            # Lean `validSpec`-side answer against the statement-side answer of this file, where the statement is definite
            if reachable and sv is not None and mv in (True, False) and mv != sv:
                ctx.disagree("c11.valid vs statement", case, mv, sv)
        if not reachable:
            continue
        # ---------------- monitors ----------------
        started = lib.get("spawned_apps", 0) > 0
        if req["error"]:
            ctx.violation("handshake_raises", case, req, {**sig0, "error": req["error"]})
            continue
        if sv is True:
            if not started or req["puts"] != [["websocket.connect"]] or req["events"]:
                ctx.violation("valid_not_upgraded", case, req, sig0)
                continue
        elif sv is False:
            st = [e for e in req["events"] if e[0] == "response"]
            if started or req["puts"] or not st or st[0][1] != 400:
                ctx.violation("invalid_not_400_or_app_started", case, req, sig0)
            # nothing may ever be put to an application afterwards
            if any(o["puts"] for o in steps[1:]):
                ctx.violation("invalid_later_put", case, steps, sig0)
            continue
        else:
            continue
        _monitor_lifecycle(ctx, case, steps[1:], ops, version, headers, lean_token, sig0)


def _monitor_lifecycle(ctx: Ctx, case: dict, steps: List[dict], ops: List[dict], version: str, headers, lean_token, sig0: dict) -> None:
    """direct layer: decisions and closing orders after a valid handshake"""
    state = "HANDSHAKE"
    key = last(headers, "sec-websocket-key")
    k = 0
    resp_start = None
    body = ""
    for d in case["decisions"]:
        msgs = dec_msgs(d)
        outs = steps[k:k + len(msgs)]
        k += len(msgs)
        if state != "HANDSHAKE":
            state = outs[-1]["state"] if outs else state
            continue
        if d[0] == "accept":
            exp = accept_expect(version, headers, d)
            o = outs[0]
            heads = [e for e in o["events"] if e[0] == "response"]
            if exp["ok"]:
                if o["error"] or len(heads) != 1 or heads[0][1] != exp["status"]:
                    ctx.violation("accept_status", case, o, {**sig0, "decision": dclass([d])[0], **fsig(d)})
                else:
                    why = check_accept_headers(heads[0][2], exp, key, lean_token, version)
                    if why:
                        ctx.violation("accept_rendering", case, {"why": why, "headers": heads[0][2], "headers_given_as": hform(d)}, {**sig0, **fsig(d)})
                    state = "CONNECTED"
            else:
                if not o["error"] or o["events"] or o["state"] != "HANDSHAKE":
                    ctx.violation("bad_accept_not_refused_cleanly", case, o, {**sig0, "why": exp["why"], **fsig(d)})
                    state = o["state"]
        elif d[0] == "close":
            o = outs[0]
            heads = [e for e in o["events"] if e[0] == "response"]
            if o["error"] or len(heads) != 1 or heads[0][1] != 403:
                ctx.violation("close_403", case, o, sig0)
            state = "HTTPCLOSED"
        elif d[0] == "response":
            evs = [e for o in outs for e in o["events"]]
            heads = [e for e in evs if e[0] == "response"]
            want_h = [[n.strip(), v.strip()] for n, v in d[2]]
            want_b = "" if d[1] in (204, 304) else "".join(d[3])
            got_b = "".join(e[1] for e in evs if e[0] == "body")
            ends = sum(1 for e in evs if e[0] == "endBody")
            if any(o["error"] for o in outs) or len(heads) != 1 or heads[0][1] != d[1] or heads[0][2] != want_h or got_b != want_b or ends != 1:
                ctx.violation("denial_response_exact", case, {"events": evs, "want": [d[1], want_h, want_b], "headers_given_as": hform(d)}, {**sig0, "status": d[1], **fsig(d)})
            state = "HTTPCLOSED"
        elif d[0] == "crash":
            o = outs[0]
            heads = [e for e in o["events"] if e[0] == "response"]
            if len(heads) != 1 or heads[0][1] != 500:
                ctx.violation("crash_500", case, o, sig0)
            state = "CRASHED"
        elif d[0] == "send":
            if not outs[0]["error"]:
                ctx.violation("send_before_accept_accepted", case, outs[0], sig0)
    if state != "CONNECTED" or any(d[0] in ("crash", "close") for d in case["decisions"]) or sum(1 for d in case["decisions"] if d[0] == "accept") != 1 \
            or any(d[0] != "accept" for d in case["decisions"]):
        return
    want = expected_code(case["closing"])
    discs = [p[1] for o in steps[k:] for p in o["puts"] if p[0] == "websocket.disconnect"]
    if want is not None:
        if len(discs) != 1:
            ctx.violation("disconnect_exactly_once", case, discs, {**sig0, "order": case["closing"][0]})
        elif discs[0] not in want:
            ctx.violation("disconnect_code", case, {"got": discs[0], "want": want}, {**sig0, "order": case["closing"][0]})
    if case["closing"][0] in ("client_first", "client_close_twice"):
        # the close frame is answered with the client's code (an empty one for "no code")
        echoed = [e[1][1] for o in steps[k:] for e in o["events"] if e[0] == "data" and e[1][0] == "close"]
        wantc = case["closing"][1] if case["closing"][1] is not None else 1005
        if echoed[:1] != [wantc]:
            ctx.violation("close_echo", case, echoed, {**sig0, "order": case["closing"][0]})


# --------------------------------------------------------------------------------------------------------------
# (b) end to end
# --------------------------------------------------------------------------------------------------------------
def e2e_wsrun(case: dict) -> dict:
    carrier = case["carrier"]
    headers = case["headers"]
    app: List[list] = [["recv"]]
    for d in case["decisions"]:
        if d[0] == "crash":
            app.append(["raise"])
            break
        for m in dec_msgs(d):
            app.append(["send", m])
    cl = case["closing"]
    client: List[list] = []
    if cl[0] == "client_first":
        app.append(["recv_until_disconnect"])
        client = [["close", cl[1]], ["flush"], ["sleep", 0.1], ["eof"]]
    elif cl[0] == "client_first_gone":
        app.append(["recv_until_disconnect"])
        client = [["close", cl[1]], ["fail_writes"], ["flush"], ["sleep", 0.1], ["reset"]]
    elif cl[0] == "app_first":
        app += [["send", dec_msgs(["close", cl[1]])[0]], ["recv_until_disconnect"]]
        client = [["sleep", 0.1], ["reply_close"], ["sleep", 0.1], ["eof"]]
    elif cl[0] == "simultaneous":
        app += [["send", dec_msgs(["close", cl[1]])[0]], ["recv_until_disconnect"]]
        client = [["close", cl[2]], ["flush"], ["sleep", 0.1], ["eof"]]
    elif cl[0] == "app_close_overlap":
        # the peer stops taking what the server writes, then says "go": the application's websocket.close is suspended in the
        # transport write (drain() / send_all(); on HTTP/2 behind the connection's send task) while the client's own close frame
        # is read and handled; then the peer reads again
        app += [["recv"], ["send", dec_msgs(["close", cl[1]])[0]], ["recv_until_disconnect"]]
        client = [["stall"], ["msg", "text", ["go"]], ["flush"], ["sleep", 0.1], ["close", cl[2]], ["flush"], ["sleep", 0.1], ["unstall"], ["sleep", 0.1], ["eof"]]
        if case.get("h2_window"):
            # HTTP/2 flow control instead of the transport: the stream's window (`h2_window` bytes) is smaller than the close
            # frame, its end cannot be sent, the application waits in StreamBuffer.drain() - and the client never opens the window
            client = [a for a in client if a[0] not in ("stall", "unstall")]
    elif cl[0] == "app_close_lost":
        app += [["recv"], ["send", dec_msgs(["close", cl[1]])[0]], ["recv_until_disconnect"]]
        client = [["stall"], ["msg", "text", ["go"]], ["flush"], ["sleep", 0.1], ["reset"]]
    elif cl[0] == "abrupt":
        app.append(["recv_until_disconnect"])
        client = [["sleep", 0.1], [cl[1] if len(cl) > 1 else "eof"]]
    else:
        app.append(["recv_until_disconnect"])
        client = [["sleep", 0.1], ["eof"]]
    return {"worker": case["worker"], "carrier": carrier, "deflate": False, "mask_seed": case.get("mask_seed", 5), "cfg": dict(case.get("cfg") or {}),
            "before": case.get("before", 0), **({"h2_window": case["h2_window"], "h2_auto_window": "connection"} if case.get("h2_window") else {}),
            "headers": headers, "method": case["method"], "version": case["version"], "protocol": case.get("protocol", "websocket"),
            "app": app, "client": client, "seg": ["one"], "subprotocols": [], "tail": 30}


def run_e2e(ctx: Ctx, cases: List[dict]) -> None:
    outs = [W.run_session(e2e_wsrun(c)) for c in cases]
    keys = [last(c["headers"], "sec-websocket-key") or "" for c in cases]
    model = ctx.model([{"cmd": "c11.token", "key": k} for k in keys])
    for i, (case, o) in enumerate(zip(cases, outs)):
        ctx.evaluations += 1
        ctx.traces_validated += 1
        carrier, headers, version, method = case["carrier"], case["headers"], case["version"], case["method"]
        sv = spec_valid(carrier, method, version, headers, case.get("protocol", "websocket"))
        att = ws_attempt(carrier, method, headers)
        sig0 = {"layer": "e2e", "carrier": carrier, **({"request_version": version} if carrier == "h1" and version != "1.1" else {})}
        ctx.count("e2e.carrier", carrier)
        ctx.count("e2e.worker", case["worker"])
        ctx.count("e2e.spec_valid", sv)
        ctx.count("e2e.closing", case["closing"][0])
        ctx.count("e2e.handshake_class", case.get("hclass"))
        if sv is not True or dclass(case["decisions"]) != ["accept"] or case["closing"][0] != "abrupt":
            ctx.distinct(["e2e", carrier, case["worker"], case.get("hclass"), dclass(case["decisions"]), case["closing"]])
        ctx.sample({k: case[k] for k in ("carrier", "worker", "hclass", "method", "version", "headers", "decisions", "closing")}, cap=4)
        hs = o["client"]["handshake"]
        status = hs["status"] if hs else None
        wsapps = [a for a in o["apps"] if a["scope_type"] == "websocket"]
        errs = {k: o[k] for k in ("error", "loop_errors", "client_error") if o[k]}
        if o["client"]["error"]:
            errs["client_parse"] = o["client"]["error"]
        crash = any(d[0] == "crash" for d in case["decisions"])
        if errs and not (crash and list(errs) == ["error"]):
            ctx.violation("internal_error", case, errs, {**sig0, "error": str((o["error"] or ["client"])[0]), "hclass": case.get("hclass")})
        if sv is None:
            continue
        if sv is False:
            if wsapps or status in (101,) or (carrier == "h2" and status == 200):
                ctx.violation("upgrade_attempted_for_invalid_handshake", case, {"status": status, "apps": o["apps"]}, {**sig0, "hclass": case.get("hclass")})
            elif att is True and not (status == 400 and not o["apps"]) and not (carrier == "h2" and status is None and not o["apps"]):
                # h2 may refuse a malformed CONNECT at the connection level (GOAWAY / RST_STREAM) instead of a 400
                ctx.violation("invalid_not_400_or_app_started", case, {"status": status, "apps": o["apps"], "goaway": o["h2_goaway"]}, {**sig0, "hclass": case.get("hclass")})
            continue
        nb = case.get("before", 0) if carrier == "h1" else 0
        if nb or "keep_alive_max_requests" in (case.get("cfg") or {}):
            ctx.count("e2e.keep_alive_max/before", f"{(case.get('cfg') or {}).get('keep_alive_max_requests')}/{nb}")
        if nb and [(b or {}).get("status") for b in (o.get("before") or [])] != [200] * nb:
            ctx.violation("requests_before_upgrade_not_served", case, o.get("before"), {**sig0, "hclass": case.get("hclass")})
            continue
        if len(wsapps) != 1 or len(o["apps"]) != 1 + nb:
            ctx.violation("valid_not_upgraded", case, {"status": status, "apps": o["apps"]}, {**sig0, "hclass": case.get("hclass")})
            continue
        app = wsapps[0]
        if app["recv"][:1] != [["websocket.connect"]]:
            ctx.violation("connect_first", case, app["recv"], sig0)
        d0 = case["decisions"][0] if case["decisions"] else None
        if d0 is None:
            continue
        lean_token = model[i].get("ok") if model is not None else None
        if d0[0] == "accept":
            exp = accept_expect(version if carrier == "h1" else "2", headers, d0)
            if exp["ok"]:
                if status != exp["status"]:
                    ctx.violation("accept_status", case, hs, {**sig0, "decision": dclass([d0])[0], **fsig(d0)})
                    continue
                why = check_accept_headers(hs["headers"], exp, last(headers, "sec-websocket-key"), lean_token, "1.1" if carrier == "h1" else "2")
                if why:
                    ctx.violation("accept_rendering", case, {"why": why, "headers": hs["headers"], "headers_given_as": hform(d0)}, {**sig0, **fsig(d0)})
                if model is not None and carrier == "h1":
                    ctx.disagreements_checked += 1
                    tok = [v for n, v in hs["headers"] if n.lower() == "sec-websocket-accept"]
                    if tok != [lean_token]:
                        ctx.disagree("c11.token", case, lean_token, tok)
            else:
                first_send = app["send"][0] if app["send"] else None
                if first_send is None or first_send[1] == "ok" or status in (101, 200) and len(case["decisions"]) == 1:
                    ctx.violation("bad_accept_not_refused_cleanly", case, {"send": app["send"], "status": status}, {**sig0, "why": exp["why"], **fsig(d0)})
                if len(case["decisions"]) > 1 and case["decisions"][1][0] == "close" and status != 403:
                    ctx.violation("close_403", case, hs, {**sig0, "after": "refused_accept"})
                continue
        elif d0[0] == "close":
            if status != 403 or hs["body"]:
                ctx.violation("close_403", case, hs, sig0)
            continue
        elif d0[0] == "response":
            want_h = [[n.strip().lower(), v.strip()] for n, v in d0[2]]
            got_h = [[n.lower(), v] for n, v in hs["headers"] if n.lower() not in ("date", "server", "alt-svc", "connection", "transfer-encoding")]
            want_b = "" if d0[1] in (204, 304) else "".join(d0[3])
            if status != d0[1] or got_h[:len(want_h)] != want_h or len(got_h) != len(want_h) or hs["body"] != want_b or not hs["complete"]:
                ctx.violation("denial_response_exact", case, {"got": hs, "want": [d0[1], want_h, want_b], "headers_given_as": hform(d0)}, {**sig0, "status": d0[1], **fsig(d0)})
            continue
        elif d0[0] == "crash":
            if status != 500:
                ctx.violation("crash_500", case, hs, sig0)
            continue
        if len(case["decisions"]) != 1:
            continue
        # ---- closing orders after a plain accept ----
        want = expected_code(case["closing"])
        discs = [r[1] for r in app["recv"] if r[0] == "websocket.disconnect"]
        held = {"write_held_by": "h2_flow_control" if case.get("h2_window") else "transport"} if case["closing"][0] in ("app_close_overlap", "app_close_lost") else {}
        if want is not None:
            if len(discs) != 1:
                ctx.violation("disconnect_exactly_once", case, app["recv"], {**sig0, "order": case["closing"][0], **held})
            elif discs[0] not in want:
                ctx.violation("disconnect_code", case, {"got": discs[0], "want": want}, {**sig0, "order": case["closing"][0], **held})
        if case["closing"][0] == "client_first":
            wantc = case["closing"][1] if case["closing"][1] is not None else 1005
            if o["client"]["close_code"] != wantc:
                ctx.violation("close_echo", case, o["client"]["close_code"], {**sig0, "order": "client_first"})
        if case["closing"][0] == "app_first":
            wantc = case["closing"][1] if case["closing"][1] is not None else 1000
            if o["client"]["close_code"] != wantc:
                ctx.violation("app_close_code_on_wire", case, o["client"]["close_code"], {**sig0, "order": "app_first"})


def e2e_handshakes(rng: random.Random) -> List[dict]:
    """handshake classes end to end: (hclass, carrier, method, version, headers, protocol, own_key)"""
    out = []
    base = {n: "ok" for n in HVALS}
    def h1(states, **kw):
        return build_headers({**base, **states}, kw.get("offers"), kw.get("exts"), True)
    def h2(states, **kw):
        st = {**{n: "absent" for n in HVALS}, "sec-websocket-version": "ok", **states}
        return build_headers(st, kw.get("offers"), kw.get("exts"), False)
    for off in (None, b"chat, superchat"):
        out.append({"hclass": "h1:valid", "carrier": "h1", "method": "GET", "version": "1.1", "headers": h1({}, offers=off), "own_key": False})
        out.append({"hclass": "h2:valid", "carrier": "h2", "method": "CONNECT", "version": "2", "headers": h2({}, offers=off)})
    out.append({"hclass": "h1:valid_case", "carrier": "h1", "method": "GET", "version": "1.1", "headers": h1({n: "ok_case" for n in HVALS})})
    out.append({"hclass": "h1:valid_deflate_offer", "carrier": "h1", "method": "GET", "version": "1.1", "headers": h1({}, exts=b"permessage-deflate; client_max_window_bits")})
    for name in HVALS:
        for st in ("absent", "bad", "dup_ok_bad", "dup_bad_ok"):
            out.append({"hclass": f"h1:{name}={st}", "carrier": "h1", "method": "GET", "version": "1.1", "headers": h1({name: st})})
    for st in ("absent", "bad", "dup_ok_bad", "dup_bad_ok"):
        out.append({"hclass": f"h2:version={st}", "carrier": "h2", "method": "CONNECT", "version": "2", "headers": h2({"sec-websocket-version": st})})
    for st in VERSION_STATES:
        out.append({"hclass": f"h1:sec-websocket-version={st}", "carrier": "h1", "method": "GET", "version": "1.1", "headers": h1({"sec-websocket-version": st})})
        out.append({"hclass": f"h2:version={st}", "carrier": "h2", "method": "CONNECT", "version": "2", "headers": h2({"sec-websocket-version": st})})
    # the request line states another version (what h11 lets through): with and without key / version header, duplicated
    # Connection / Upgrade whose last occurrence counts
    for ver in H1_VERSIONS:
        out.append({"hclass": f"h1:http{ver}:complete", "carrier": "h1", "method": "GET", "version": ver, "headers": h1({})})
        out.append({"hclass": f"h1:http{ver}:complete_case", "carrier": "h1", "method": "GET", "version": ver, "headers": h1({n: "ok_case" for n in HVALS})})
        out.append({"hclass": f"h1:http{ver}:no_key", "carrier": "h1", "method": "GET", "version": ver, "headers": h1({"sec-websocket-key": "absent"})})
        out.append({"hclass": f"h1:http{ver}:no_key_no_version", "carrier": "h1", "method": "GET", "version": ver,
                    "headers": h1({"sec-websocket-key": "absent", "sec-websocket-version": "absent"})})
        out.append({"hclass": f"h1:http{ver}:version=bad", "carrier": "h1", "method": "GET", "version": ver, "headers": h1({"sec-websocket-version": "bad"})})
        out.append({"hclass": f"h1:http{ver}:upgrade=dup_bad_ok", "carrier": "h1", "method": "GET", "version": ver, "headers": h1({"upgrade": "dup_bad_ok"})})
        out.append({"hclass": f"h1:http{ver}:connection=dup_bad_ok,no_key", "carrier": "h1", "method": "GET", "version": ver,
                    "headers": h1({"connection": "dup_bad_ok", "sec-websocket-key": "absent"})})
    # header names as the client wrote them reach the stream (`h11_pass_raw_headers`): every header on its own in another case
    # than the rest, all of them capitalised / upper case; complete and key-less
    cased = {"lower": lambda n: n, "Cap": lambda n: "-".join(p.capitalize() for p in n.split("-")), "UPPER": lambda n: n.upper()}
    plain = h1({})
    hn = ["connection", "upgrade", "sec-websocket-key", "sec-websocket-version"]

    def recase(style: Dict[str, str], drop: Optional[str] = None) -> List[List[str]]:
        return [[cased[style.get(n, "lower")](n), v] for n, v in plain if n != drop]
    patterns: List[Tuple[str, Dict[str, str]]] = [("all_Cap", {n: "Cap" for n in hn + ["host"]}), ("all_UPPER", {n: "UPPER" for n in hn + ["host"]})]
    for n in hn:
        patterns.append((f"only_{n}_Cap", {n: "Cap"}))
        patterns.append((f"only_{n}_lower", {**{m: "Cap" for m in hn}, n: "lower"}))
        patterns.append((f"only_{n}_UPPER", {n: "UPPER"}))
    for raw in (True, False):
        for pname, style in patterns:
            if not raw and not pname.startswith(("all_", "only_upgrade")):
                continue
            cfgd = {"cfg": {"h11_pass_raw_headers": True}} if raw else {}
            tag = "raw" if raw else "normalised"
            out.append({"hclass": f"h1:names_{tag}:{pname}", "carrier": "h1", "method": "GET", "version": "1.1", "headers": recase(style), **cfgd})
            if pname.startswith(("all_", "only_upgrade", "only_connection")):
                out.append({"hclass": f"h1:names_{tag}:{pname}:no_key", "carrier": "h1", "method": "GET", "version": "1.1",
                            "headers": recase(style, drop="sec-websocket-key"), **cfgd})
    out.append({"hclass": "h1:POST", "carrier": "h1", "method": "POST", "version": "1.1", "headers": h1({})})
    out.append({"hclass": "h1:http1.0", "carrier": "h1", "method": "GET", "version": "1.0", "headers": h1({})})
    out.append({"hclass": "h2:GET", "carrier": "h2", "method": "GET", "version": "2", "headers": h2({}), "protocol": None})
    out.append({"hclass": "h2:protocol=foo", "carrier": "h2", "method": "CONNECT", "version": "2", "headers": h2({}), "protocol": "foo"})
    out.append({"hclass": "h2:no_protocol", "carrier": "h2", "method": "CONNECT", "version": "2", "headers": h2({}), "protocol": None})
    out.append({"hclass": "h1:connection_non_ascii", "carrier": "h1", "method": "GET", "version": "1.1", "headers": h1({}) + [["connection", "upgrade, caf\xe9"]]})
    out.append({"hclass": "h1:protocol_non_ascii", "carrier": "h1", "method": "GET", "version": "1.1", "headers": h1({}, offers="caf\xe9".encode("latin1"))})
    out.append({"hclass": "h2:protocol_non_ascii", "carrier": "h2", "method": "CONNECT", "version": "2", "headers": h2({}, offers="caf\xe9".encode("latin1"))})
    return out


# headers an application adds to its decision: one, several with a repeated name, and two sets that must be refused (a forbidden
# name last - only a complete traversal finds it - and first)
EXTRA_SETS = [[["x-extra", " 1 "]], [["x-session", "abc123"], ["set-cookie", "a=1; HttpOnly"], ["set-cookie", "b=2"]],
              [["x-a", "1"], ["sec-websocket-protocol", "x"]], [[":status", "200"], ["x-a", "1"]]]


def rotate_forms(cases: List[dict]) -> None:
    """every generated decision that carries headers gives them in a container form chosen by its position (no random draw is
    spent): every other one a list, the rest cycling through the other forms"""
    others = [f for f in FORMS if f != "list"]
    k = 0
    for case in cases:
        for d in case["decisions"]:
            if (d[0] == "accept" and len(d) == 3 or d[0] == "response" and len(d) == 4) and d[2]:
                d.append("list" if k % 2 == 0 else others[(k // 2) % len(others)])
                k += 1


def run_extra_tie(ctx: Ctx) -> None:
    """function mode: `Handshake.accept(subprotocol, <iterable>)` of the source against `c11.extra` = the traversals of
    `additional_headers` as extracted (`WsGuards.acceptExtraPasses`) run on the model of an iterable (HC/Stream/WsIter.lean);
    the theorems `accept_extra_any_iterable` / `accept_any_iterable` are about exactly these traversals"""
    try:
        from hypercorn.protocol.ws_stream import Handshake
        base = [(b"sec-websocket-key", KEY), (b"sec-websocket-version", b"13"), (b"sec-websocket-protocol", b"chat, superchat")]
        own = {v: len(Handshake(list(base), v).accept(None, [])[1]) for v in ("1.1", "2")}
    except Exception as e:      # the entry point has another shape: the tie of this one model function is not available
        ctx.count("extra_tie", "unavailable:" + type(e).__name__)
        return
    sets = EXTRA_SETS + [[], [["x-a", "1"], ["x-b", "bad\nvalue"]], [["bad name", "1"], ["sec-websocket-protocol", "x"]]]
    cases = [(v, form, hs) for v in ("1.1", "2") for form in FORMS for hs in sets]
    model = ctx.model([{"cmd": "c11.extra", "headers": hs, "one_shot": form in ONE_SHOT} for _, form, hs in cases])
    for i, (v, form, hs) in enumerate(cases):
        ctx.evaluations += 1
        ctx.count("extra_tie", form)
        try:
            got: Any = {"headers": [[b2s(n), b2s(x)] for n, x in Handshake(list(base), v).accept(None, as_form([(s2b(n), s2b(x)) for n, x in hs], form))[1][own[v]:]]}
        except Exception as e:
            got = {"error": type(e).__name__}
        if model is not None:
            ctx.disagreements_checked += 1
            mo = model[i].get("ok") or {}
            if {k: x for k, x in mo.items() if k != "passes"} != got:
                ctx.disagree("c11.extra", {"layer": "extra_tie", "version": v, "headers": hs, "form": form}, model[i], got)
            else:
                ctx.traces_validated += 1


def run(ctx: Ctx) -> None:
    rng = ctx.rng
    # ---------------- (a) direct: exhaustive lattice ----------------
    dcases: List[dict] = []
    names = list(HVALS)
    for version in ("1.1", "2", "1.0"):
        for combo in itertools.product(STATES, repeat=4):
            states = dict(zip(names, combo))
            hs = build_headers(states, rng.choice(OFFERS), rng.choice(EXTS), True)
            dcases.append({"layer": "direct", "version": version, "headers": hs, "states": list(combo), "decisions": gen_decisions(rng), "closing": rng.choice(CLOSINGS)})
    # every other version an HTTP/1 request line can state: {connection, upgrade, key} x {absent, ok, odd case, bad} x
    # Sec-WebSocket-Version {ok, bad, absent} (192 handshakes per version; deterministic, first decision sequence an accept so that
    # a handshake wrongly let through shows as an application started / a 200)
    for version in H1_VERSIONS:
        for combo in itertools.product(["absent", "ok", "ok_case", "bad"], repeat=3):
            for vst in ("ok", "bad", "absent"):
                states = {"connection": combo[0], "upgrade": combo[1], "sec-websocket-key": combo[2], "sec-websocket-version": vst}
                hs = build_headers(states, rng.choice(OFFERS), rng.choice(EXTS), True)
                complete = all(c in ("ok", "ok_case") for c in combo) and vst == "ok"
                dcases.append({"layer": "direct", "version": version, "headers": hs, "states": [states[n] for n in names],
                               "decisions": [["accept", None, []]] if not complete else gen_decisions(rng),
                               "closing": ["abrupt"] if not complete else rng.choice(CLOSINGS)})
    ctx.exhaustive = True
    ctx.extra["exhaustive_what"] = "direct layer: every combination of {connection, upgrade, sec-websocket-key, sec-websocket-version} x {absent, ok, odd case, bad, duplicated ok/bad, duplicated bad/ok} x HTTP version {1.1, 2, 1.0} (3888 handshakes); {connection, upgrade, key} x {absent, ok, odd case, bad} x version header {ok, bad, absent} x request-line version {1.2, 1.9, 2.0, 3.0, 9.9, 0.9} (1152); every closing order x both carriers after a plain accept"
    # decisions x closing orders on valid handshakes
    okh = {n: "ok" for n in names}
    for _ in range(ctx.budget(1500, 30000)):
        version = rng.choice(["1.1", "1.1", "2", "2", "2", rng.choice([v for v in H1_VERSIONS if _h1_version_ok(v)])])
        st = dict(okh) if carrier_of(version) == "h1" else {**{n: "absent" for n in names}, "sec-websocket-version": "ok"}
        if rng.random() < 0.2:
            st = {n: rng.choice(["ok", "ok_case"]) if st[n] != "absent" else "absent" for n in names}
        hs = build_headers(st, rng.choice(OFFERS), rng.choice(EXTS), True)
        if rng.random() < 0.03:
            hs.append(["sec-websocket-protocol", "caf\xe9"])
        dcases.append({"layer": "direct", "version": version, "headers": hs, "states": [st[n] for n in names], "decisions": gen_decisions(rng), "closing": rng.choice(CLOSINGS)})
    # version values around 13 on otherwise perfect handshakes (plain and with odd-case names / duplicated with a valid one)
    for version in ("1.1", "2"):
        for vst in VERSION_STATES:
            st = dict(okh) if version == "1.1" else {**{n: "absent" for n in names}, "sec-websocket-version": "ok"}
            st["sec-websocket-version"] = vst
            hs = build_headers(st, None, None, False)
            dcases.append({"layer": "direct", "version": version, "headers": hs, "states": [st[n] for n in names], "decisions": [["accept", None, []]], "closing": ["abrupt"]})
            # … and behind a valid occurrence (the last one counts)
            hs2 = [["host", "x"], ["sec-websocket-version", "13"]] + hs[1:]
            dcases.append({"layer": "direct", "version": version, "headers": hs2, "states": [st[n] for n in names] + ["after_13"], "decisions": [["accept", None, []]], "closing": ["abrupt"]})
    for version in ("1.1", "2", "1.2", "9.9"):
        st = dict(okh) if carrier_of(version) == "h1" else {**{n: "absent" for n in names}, "sec-websocket-version": "ok"}
        for cl in CLOSINGS:
            dcases.append({"layer": "direct", "version": version, "headers": build_headers(st, None, None, False), "states": [st[n] for n in names],
                           "decisions": [["accept", None, []]], "closing": cl})
    # the container form of the application's headers: every form x carrier (and a request-line version other than 1.1) x
    # with / without subprotocol x the header sets, and the HTTP-response extension with headers in every form
    offered = {n: "ok" for n in names}
    for version in ("1.1", "2", "1.2"):
        st = dict(offered) if carrier_of(version) == "h1" else {**{n: "absent" for n in names}, "sec-websocket-version": "ok"}
        hs = build_headers(st, b"chat, superchat", None, False)
        for form in FORMS:
            for sub in (None, "chat"):
                for extra in EXTRA_SETS:
                    dcases.append({"layer": "direct", "version": version, "headers": hs, "states": [st[n] for n in names] + ["forms"],
                                   "decisions": [["accept", sub, extra, form]], "closing": ["client_first", 1000]})
            for rh in ([["www-authenticate", "Basic"]], [["x-a", " 1 "], ["x-a", "2"]]):
                dcases.append({"layer": "direct", "version": version, "headers": hs, "states": [st[n] for n in names] + ["forms"],
                               "decisions": [["response", 401, rh, ["no"], form]], "closing": ["abrupt"]})
    rotate_forms(dcases)
    for j in range(0, len(dcases), 1000):
        run_direct(ctx, dcases[j:j + 1000])
    run_extra_tie(ctx)
    # ---------------- (b) end to end ----------------
    ecases: List[dict] = []
    hsk = e2e_handshakes(rng)
    k = 0
    for h in hsk:
        for worker in ("asyncio", "trio"):
            k += 1
            dec = [["accept", None, []]]
            ecases.append({"layer": "e2e", **h, "worker": worker, "decisions": dec, "closing": ["client_first", 1000] if k % 2 else ["abrupt"]})
    valid = [h for h in hsk if h["hclass"] in ("h1:valid", "h2:valid")]
    # closing orders, every order x carrier x worker
    for h in valid:
        if any(n == "sec-websocket-protocol" for n, _ in h["headers"]):
            continue
        for worker in ("asyncio", "trio"):
            for cl in [c for c in CLOSINGS if c[0] not in ("client_close_twice", "bad_frame")] + [["abrupt", "reset"]]:
                if cl[0] in ("app_close_overlap", "app_close_lost") and cl[-1] != 0:
                    continue        # (which of the branch's sends is suspended is the transport's business end to end)
                ecases.append({"layer": "e2e", **h, "worker": worker, "decisions": [["accept", None, []]], "closing": cl})
                if cl[0] == "app_close_overlap" and h["carrier"] == "h2":
                    # the same overlap with HTTP/2 flow control holding the close frame back (a 2-byte stream window that the
                    # client never opens) instead of the transport
                    ecases.append({"layer": "e2e", **h, "hclass": h["hclass"] + ":flow_control", "worker": worker, "decisions": [["accept", None, []]],
                                   "closing": cl, "h2_window": 2})
    # the upgrade as the k-th request of its connection, below / at the per-connection request maximum (the server's own
    # `connection: close` belongs on final responses; the 101 of an accept stays the faithful rendering of the accept)
    for h in valid:
        for worker in ("asyncio", "trio"):
            for kmax, nb in ([(1, 0), (2, 1), (3, 2), (3, 1), (2, 0)] if h["carrier"] == "h1" else [(1, 0), (2, 0)]):
                for dec, cl in (([["accept", None, []]], ["client_first", 1000]), ([["accept", None, [["x-extra", "1"]]]], ["app_first", 1000]),
                                ([["close", None]], ["abrupt"])):
                    ecases.append({"layer": "e2e", **h, "hclass": h["hclass"] + ":at_request_max", "worker": worker, "decisions": dec, "closing": cl,
                                   "cfg": {"keep_alive_max_requests": kmax}, "before": nb})
    # decisions
    for _ in range(ctx.budget(400, 3000)):
        h = rng.choice(valid)
        ecases.append({"layer": "e2e", **h, "worker": rng.choice(["asyncio", "trio"]), "decisions": gen_decisions(rng), "closing": rng.choice(CLOSINGS[:8])})
    # the container form of the application's headers, end to end: every form x carrier x worker
    for h in valid:
        has_offer = any(n == "sec-websocket-protocol" for n, _ in h["headers"])
        for worker in ("asyncio", "trio"):
            for form in FORMS:
                ecases.append({"layer": "e2e", **h, "hclass": h["hclass"] + ":headers_form", "worker": worker,
                               "decisions": [["accept", "superchat" if has_offer else None, EXTRA_SETS[1], form]], "closing": ["client_first", 1000]})
                if not has_offer:
                    ecases.append({"layer": "e2e", **h, "hclass": h["hclass"] + ":headers_form", "worker": worker,
                                   "decisions": [["response", 401, [["www-authenticate", "Basic"], ["x-a", "1"]], ["no"], form]], "closing": ["abrupt"]})
                elif form in ONE_SHOT[:2]:
                    ecases.append({"layer": "e2e", **h, "hclass": h["hclass"] + ":headers_form", "worker": worker,
                                   "decisions": [["accept", None, EXTRA_SETS[2], form], ["close", None]], "closing": ["abrupt"]})
    rotate_forms(ecases)
    run_e2e(ctx, ecases)
    # wsproto's own client handshake as oracle for the 101 (nonce generated by wsproto, so not reproducible byte for byte)
    oracle_cases = []
    for worker in ("asyncio", "trio"):
        for d in ([["accept", None, []]], [["accept", "chat", [["x-extra", "1"]]]]):
            for kmax, nb in ((None, 0), (1, 0), (3, 2), (3, 1)):
                oracle_cases.append((worker, d, kmax, nb))
    for worker, d, kmax, nb in oracle_cases:
        app = [["recv"]] + [["send", m] for m in dec_msgs(d[0])] + [["recv_until_disconnect"]]
        o = W.run_session({"worker": worker, "carrier": "h1", "app": app, "client": [["close", 1000], ["flush"], ["eof"]], "subprotocols": ["chat", "superchat"],
                           "headers": None, "seg": ["one"], "cfg": {} if kmax is None else {"keep_alive_max_requests": kmax}, "before": nb})
        ctx.evaluations += 1
        ctx.count("e2e.handshake_class", "h1:wsproto_client_oracle" + ("" if kmax is None else ":at_request_max"))
        if o["client"]["accept_oracle"] != "accepted":
            ctx.violation("accept_rejected_by_wsproto_client", {"layer": "e2e", "oracle": True, "worker": worker, "decisions": d, "keep_alive_max": kmax, "before": nb},
                          {"oracle": o["client"]["accept_oracle"], "handshake": o["client"]["handshake"], "before": o.get("before")},
                          {"layer": "e2e", "carrier": "h1", "at_request_max": kmax is not None and nb + 1 >= kmax})


def replay(ctx: Ctx, case: dict) -> None:
    if case.get("layer") == "direct":
        run_direct(ctx, [case])
    elif case.get("oracle"):
        run(ctx)
    else:
        run_e2e(ctx, [case])
