"""C17 — WSGI adapter conforms to PEP 3333.  Direct-call runner + end-to-end sessions.

The real `hypercorn.app_wrappers.WSGIWrapper` is driven exactly as the workers drive it
(asyncio: `partial(loop.run_in_executor, None)` + `run_coroutine_threadsafe(...).result()`, trio:
`trio.to_thread.run_sync` + `trio.from_thread.run`) around scripted WSGI applications, and `_build_environ` is called
directly for thousands of scopes.  Every observation is (a) compared with the Lean model (`c17.environ`,
`c17.collect`, `c17.run_app` of hcdriver) and (b) judged by monitors written from PEP 3333 / the property text,
independently of the model.  The `e2e` family serves the same scripted applications through the real `TCPServer` / `TaskGroup` of
both workers (so with the `sync_spawn` and `call_soon` the workers really provide) over harness-owned HTTP/1.1 transports whose
writes can be paused, and judges what an independent h11 client parses.
"""
from __future__ import annotations

import ast
import asyncio
import inspect
import sys
import threading
from functools import partial
from pathlib import Path
from typing import Any, Callable, Dict, List, Optional, Tuple

from ..core.framework import REPO, Ctx, b2s, s2b

SPEC = {
    "modules": ["HC.Props.C17"],
    "extracted": ["Guards", "WsgiSites"],
    "technique": "Lean 4 theorems over an executable model of WSGIWrapper (receive loop with the extracted body-limit comparator, "
                 "_build_environ as an insertion-ordered dictionary fold, run_app over abstract applications = call-phase / "
                 "iteration-phase action scripts with ghost counters for application calls, sync_spawn and close()) "
                 "+ differential execution of model and real code on the same requests x application shapes on both worker styles, "
                 "directly and end to end through each worker's TCPServer with free, paused and stuttering clients",
    "level_text": "Proved in Lean for all inputs: (environ) for every scope on which _build_environ succeeds the root path is a prefix "
                  "of the path, SCRIPT_NAME/PATH_INFO are the UTF-8 bytes of root path / remainder re-read as Latin-1, PATH_INFO is never "
                  "empty, SCRIPT_NAME ++ PATH_INFO re-assembles the path (PATH_INFO = '/' when the path is the root path), method, query "
                  "string, protocol, scheme, server name, wsgi.version and wsgi.input (= exactly the body) are functions of the request "
                  "alone - no header line can overwrite them because header variables are CONTENT_LENGTH, CONTENT_TYPE or start with "
                  "HTTP_ (headerKey_not_base) - only the header spelled content-length/content-type feeds the unprefixed variables, and "
                  "every header variable is the comma-join of its lines in arrival order (headers_comma_joined), each line decoded as latin-1 - the "
                  "codec, errors argument and absence of a fall-back of every .decode()/.encode() in _build_environ are read off the source "
                  "(header_value_latin1, environ_codecs) - so that value.encode('latin1') gives back the request's bytes for every byte string, "
                  "valid multi-byte UTF-8 included (header_value_roundtrip; utf8_first_breaks_roundtrip shows a UTF-8-first decode does not); the only failures are "
                  "InvalidPath (-> 404) and a non-ASCII query (UnicodeDecodeError); (limit) for every limit value and every chunking of "
                  "a terminated body the loop answers 400 + empty final body without spawning or calling anything iff the body is longer "
                  "than the limit (extracted comparator `>`), otherwise the application is called exactly once in exactly one spawned "
                  "thread with the whole body (limit_400_no_call, at_limit_called, chunking_irrelevant, unterminated_never_complete, "
                  "called_once, rejected_not_called, bad_root_path_404, websocket_refused); (output) an application that started the "
                  "response before returning gets start(status, lower-cased Latin-1 headers), one body message per chunk in order, then "
                  "exactly one final empty more_body=False message (output_fidelity); for ANY application the emitted messages are "
                  "nothing or one start followed by a prefix of its chunks, all of them when no exception leaves run_app, and the final "
                  "message is appended iff no exception (emitted_is_prefix, no_exception_complete, final_iff_no_exception); close() is "
                  "called at most once, never without an iterable, and - the name run_app iterates and closes being bound to the object "
                  "the application returned, which is read off the source on every run (body_binding_returned) - it is that object's "
                  "close() that is called, also when the object is not its own iterator (a container whose __iter__ hands out a "
                  "generator or another iterator) and when __iter__ itself raises (close_once, iter_raises_closed); (delivery) call_soon - the function run_app sends every message through from its thread - "
                  "returns only after the send completed on both workers (call_soon_synchronous, decided on what the extractor reads from "
                  "asyncio/task_group.py `_call_soon`, trio/task_group.py, and - for a WSGI application mounted through the middleware classes - "
                  "AsyncioWSGIMiddleware.__call__ / TrioWSGIMiddleware.__call__ of middleware/wsgi.py), hence for every pattern of suspending sends the stream accepts "
                  "exactly the messages run_app issued, in order (accepted_all, output_fidelity_delivered); a call_soon that does not wait "
                  "loses the body when the head's send suspends (fire_and_forget_loses_body). For the run_app shape of the pinned tree (check right after the call) "
                  "the lazy clause and close_once hold only as close_once_partial (start_response called before the callable returned) "
                  "and the negations are proved on concrete witnesses (lazy_start_rejected_as_is, close_once_fails_as_is); for the repaired "
                  "shape (check at the first chunk, inside try/finally) the full statements eager_lazy_same, lazy_output_fidelity and "
                  "close_once are proved. Which shape the current source has is read from its AST on every run and confirmed by the "
                  "correspondence run.",
    "level_note": "Trusted: Lean kernel; extractor (comparator of `len(body) > self.max_body_size`; what `response_body` is bound to, "
                  "iterated and closed in run_app); the run_app shape detector in "
                  "harness/gen/C17.py (an unrecognised shape breaks the tie; a wrong guess shows up as model/implementation "
                  "disagreement); hand-written model HC/Pure/Wsgi.lean tied by differential execution only; CPython str.upper/lower/"
                  "encode and int() are modelled for Latin-1 names and ASCII decimal status codes (int() accepts more spellings; the "
                  "generator stays within ASCII digits); applications are abstracted to scripts whose start_response errors propagate "
                  "(an application that catches them is outside the model); thread identity, executor and call_soon behaviour are "
                  "observed at run time, not modelled (the model counts sync_spawn invocations).",
    "rule": "direct calls: _build_environ on generated scopes (paths with %-escapes / non-ASCII / non-BMP, root_path matching, "
            "non-matching, trailing slash, equal to the path; repeated and case-variant headers, all 256 one-byte header names; header values "
            "and names that are valid 2-/3-/4-byte UTF-8, alone and next to bytes that are not (deterministic corpus, every tier); "
            "ASCII and non-ASCII queries; server/client/scheme present or absent) and WSGIWrapper.__call__ on asyncio and trio with "
            "scripted applications (list, generator, iterator with/without close, iterable containers with/without close whose "
            "__iter__ returns a separate generator / iterator with or without a close of its own / list iterator or raises, "
            "eager/lazy/late/no start_response, raising "
            "before/after start_response and during iteration, invalid status/header arguments, empty chunks, double start) x body "
            "sizes limit-1/limit/limit+1 in one or several messages; the shape x size grid is enumerated exhaustively, the rest is "
            "random; e2e: 15 named shapes x {free, paused, stuttering client} x {asyncio, trio} through the real TCPServer and "
            "TaskGroup (deterministic, every tier), 8 of them also mounted through AsyncioWSGIMiddleware / TrioWSGIMiddleware (same pacings, both workers), the body limit at/above the boundary (both mounts), then random applications / requests / pacing. distinct = (family, path/root class, header-repeat class | limit, relation, chunk count | application shape, "
            "iterable kind, fault, runner, body relation); non-trivial = a header or non-empty path remainder is present / the body "
            "is within one byte of the limit / the application returns an iterable",
    "trusted": ["asyncio.run_in_executor / run_coroutine_threadsafe and trio.to_thread / from_thread (observed, not modelled)",
                "CPython str.upper()/lower()/encode('latin-1')/int() (modelled for Latin-1 and ASCII digits; compared on every run)",
                "the stream's reaction to concurrent sends (HTTPStream.app_send sets RESPONSE after the awaited send) is modelled as "
                "'bodies issued while the start's send is suspended are rejected'; exercised by the paused e2e sessions"],
    "partial": ["pinned run_app shape (check_after_call): lazy start_response is rejected (lazy_start_rejected_as_is) and close() is "
                "skipped when start_response was not called before the callable returned (close_once_partial, close_once_fails_as_is) - F19",
                "a non-ASCII query string raises UnicodeDecodeError before the application is called (outside the quantifier: the "
                "protocol layer only hands on ASCII request targets on HTTP/1; recorded as an observation)"],
    "assumptions": ["scope strings hold Unicode scalar values (no lone surrogates)",
                    "status codes are spelled with ASCII decimal digits",
                    "an exception raised by start_response itself is not caught by the application"],
}

REQUIRED = ["REQUEST_METHOD", "SCRIPT_NAME", "PATH_INFO", "QUERY_STRING", "SERVER_NAME", "SERVER_PORT", "SERVER_PROTOCOL",
            "wsgi.version", "wsgi.url_scheme", "wsgi.input", "wsgi.errors", "wsgi.multithread", "wsgi.multiprocess", "wsgi.run_once"]


class AppError(Exception):
    """raised by scripted applications"""


class OnLoopError(Exception):
    """the harness's call_soon was entered on the event-loop thread (the real one would dead-lock)"""


class _Exhausted(Exception):
    """the wrapper asked `receive()` for a message the scenario does not contain (= it is still waiting)"""


# --------------------------------------------------------------------------------------------------------------
# which run_app shape does the current source have?  (selects the model variant; confirmed by the correspondence run)
# --------------------------------------------------------------------------------------------------------------
def detect_variant(repo: Path = REPO) -> Tuple[Optional[str], str]:
    src = Path(repo) / "src" / "hypercorn" / "app_wrappers.py"
    try:
        # calls to simple helpers / nested closures that did not exist at the pinned commit are expanded in place before the shape is
        # read (tools/inline_helpers.py, the tolerance layer of the extractor: "extract a helper" is a behaviour-preserving edit)
        tools = str(Path(__file__).resolve().parents[2] / "tools")
        if tools not in sys.path:
            sys.path.insert(0, tools)
        import inline_helpers
        tree = inline_helpers.parse_expanded(src)
    except Exception as e:  # noqa
        return None, f"cannot parse {src}: {e}"
    fn = None
    for node in ast.walk(tree):
        if isinstance(node, ast.ClassDef) and node.name == "WSGIWrapper":
            for ch in node.body:
                if isinstance(ch, ast.FunctionDef) and ch.name == "run_app":
                    fn = ch
    if fn is None:
        return None, "WSGIWrapper.run_app not found"

    def is_close_try(n: ast.AST) -> bool:
        return isinstance(n, ast.Try) and any(isinstance(c, ast.Call) and isinstance(c.func, ast.Attribute) and c.func.attr == "close"
                                              for f in n.finalbody for c in ast.walk(f))

    def is_check(n: ast.AST) -> bool:
        return (isinstance(n, ast.If) and "response_started" in ast.unparse(n.test) and isinstance(n.test, ast.UnaryOp)
                and any(isinstance(r, ast.Raise) for r in n.body))

    def is_start_send(n: ast.AST) -> bool:
        return isinstance(n, ast.Call) and "http.response.start" in ast.unparse(n)

    body = [s for s in fn.body if not isinstance(s, ast.FunctionDef)]
    call_idx = next((i for i, s in enumerate(body) if isinstance(s, ast.Assign) and "self.app(" in ast.unparse(s.value)), None)
    tries = [s for s in body if is_close_try(s)]
    if call_idx is None or len(tries) != 1:
        return None, "run_app: no `response_body = self.app(...)` followed by one try/finally calling close()"
    tr = tries[0]
    if body.index(tr) < call_idx:
        return None, "run_app: the application is called inside the try"
    top_checks = [s for s in body if is_check(s)]
    top_sends = [s for s in body if isinstance(s, ast.Expr) and is_start_send(s.value)]
    in_checks = [n for n in ast.walk(tr) if is_check(n)]
    in_sends = [n for n in ast.walk(tr) if is_start_send(n)]
    loops = [n for n in tr.body if isinstance(n, ast.For)]
    if not loops:
        return None, "run_app: no for-loop over the response body inside the try"
    if top_checks and top_sends and not in_checks and not in_sends:
        return "check_after_call", "response_started is checked and the start message sent right after the call, before the try"
    if in_checks and in_sends and not top_checks and not top_sends:
        return "check_at_first_chunk", "response_started is checked and the start message sent inside the try (first chunk / end of iteration)"
    return None, "run_app: unrecognised placement of the response_started check / start message"


# --------------------------------------------------------------------------------------------------------------
# canonical forms shared with the driver
# --------------------------------------------------------------------------------------------------------------
def canon_val(k: str, v: Any) -> Any:
    if k == "wsgi.input":
        return {"input": b2s(v if isinstance(v, (bytes, bytearray)) else v.read())}
    if k == "wsgi.errors":
        return {"stdout": v is sys.stdout}
    if k == "wsgi.version":
        return {"ver": list(v)}
    if isinstance(v, bool):
        return {"b": v}
    if isinstance(v, int):
        return {"i": v}
    if v is None:
        return {"none": True}
    if isinstance(v, str):
        return {"s": v}
    return {"other": repr(v)}


def canon_environ(e: dict) -> Dict[str, Any]:
    return {k: canon_val(k, v) for k, v in e.items()}


def canon_msg(m: Any) -> dict:
    if not isinstance(m, dict):
        return {"type": "?", "raw": repr(m)}
    t = m.get("type")
    if t == "http.response.start":
        return {"type": "start", "status": m.get("status"), "headers": [[b2s(n), b2s(v)] for n, v in m.get("headers", [])]}
    if t == "http.response.body":
        b = m.get("body", b"")
        return {"type": "body", "body": b2s(b) if isinstance(b, (bytes, bytearray)) else repr(b), "more": bool(m.get("more_body", False))}
    if t == "websocket.close":
        return {"type": "ws_close"}
    return {"type": "?", "raw": repr(m)}


def mk_scope(js: dict, kind: str = "http") -> dict:
    """JSON scope (as sent to the driver) → the dict handed to the real code."""
    sc: Dict[str, Any] = {"type": kind, "asgi": {}, "method": js["method"], "path": js["path"],
                          "raw_path": js["path"].encode("utf8", "surrogatepass"), "query_string": s2b(js["query_string"]),
                          "http_version": js["http_version"], "headers": [(s2b(n), s2b(v)) for n, v in js["headers"]],
                          "extensions": {}}
    if js.get("root_path") is not None:
        sc["root_path"] = js["root_path"]
    if js.get("scheme") is not None:
        sc["scheme"] = js["scheme"]
    sc["server"] = None if js.get("server") is None else tuple(js["server"])
    if js.get("client", "absent") != "absent":
        sc["client"] = None if js["client"] is None else tuple(js["client"])
    return sc


def driver_scope(js: dict) -> dict:
    d = dict(js)
    if d.get("client") == "absent":
        d["client"] = None
    return d


# --------------------------------------------------------------------------------------------------------------
# PEP 3333 monitor on an environ (independent of the model)
# --------------------------------------------------------------------------------------------------------------
def environ_problems(js: dict, body: bytes, env: Dict[str, Any]) -> List[str]:
    """`env` is the raw environ with `wsgi.input` already read out (bytes)."""
    bad: List[str] = []
    root = js.get("root_path") or ""
    path = js["path"]
    for k in REQUIRED:
        if k not in env:
            bad.append(f"missing_key: {k}")
    if bad:
        return bad
    for k in ("REQUEST_METHOD", "SCRIPT_NAME", "PATH_INFO", "QUERY_STRING", "SERVER_NAME", "SERVER_PROTOCOL", "wsgi.url_scheme"):
        if type(env[k]) is not str:
            bad.append(f"native_string: {k} is not a native string")
    if bad:
        return bad
    if env["REQUEST_METHOD"] != js["method"]:
        bad.append("request_method: REQUEST_METHOD is not the method")
    try:
        script = env["SCRIPT_NAME"].encode("latin1").decode("utf8")
        info = env["PATH_INFO"].encode("latin1").decode("utf8")
    except UnicodeError:
        bad.append("transcoding: SCRIPT_NAME/PATH_INFO are not UTF-8 bytes read as latin-1")
        script = info = None
    if script is not None:
        if script != root:
            bad.append("script_name: SCRIPT_NAME is not the root path")
        if env["PATH_INFO"] == "":
            bad.append("path_info_empty: PATH_INFO empty")
        rest = path[len(root):]
        if info != (rest if rest != "" else "/"):
            bad.append("path_info: PATH_INFO is not the path after the root path")
        if not (script + info == path or (path == root and info == "/")):
            bad.append("reassemble: SCRIPT_NAME + PATH_INFO does not re-assemble the path")
    if env["QUERY_STRING"] != s2b(js["query_string"]).decode("ascii"):
        bad.append("query_string: QUERY_STRING is not the query")
    if env["SERVER_PROTOCOL"] != "HTTP/" + js["http_version"]:
        bad.append("server_protocol: SERVER_PROTOCOL")
    if env["wsgi.url_scheme"] != (js.get("scheme") or "http"):
        bad.append("url_scheme: wsgi.url_scheme")
    if tuple(env["wsgi.version"]) != (1, 0):
        bad.append("wsgi_version: wsgi.version")
    if env["wsgi.input"] != body:
        bad.append("wsgi_input: wsgi.input is not the request body")
    # header variables
    want: Dict[str, List[str]] = {}
    for n, v in js["headers"]:
        if n == "content-length":
            key = "CONTENT_LENGTH"
        elif n == "content-type":
            key = "CONTENT_TYPE"
        else:
            key = "HTTP_" + n.upper().replace("-", "_")
        want.setdefault(key, []).append(v)
    for key, vals in want.items():
        if env.get(key) != ",".join(vals):
            bad.append(f"header_join: {key} is not the comma-join of its header lines in arrival order")
    extra = [k for k in env if (k.startswith("HTTP_") or k in ("CONTENT_LENGTH", "CONTENT_TYPE")) and k not in want]
    if extra:
        bad.append(f"header_extra: variables without a header line: {extra}")
    unknown = [k for k in env if not (k in REQUIRED or k == "REMOTE_ADDR" or k.startswith("HTTP_") or k in ("CONTENT_LENGTH", "CONTENT_TYPE"))]
    if unknown:
        bad.append(f"unknown_key: unexpected keys {unknown}")
    return bad


# --------------------------------------------------------------------------------------------------------------
# generators: scopes
# --------------------------------------------------------------------------------------------------------------
ROOTS = ["", "", "/app", "/app/", "/中", "/a b", "/%41", "/é", "/😀", "/", None]
SUFFIXES = ["", "/", "/x", "/café/x%20y", "/中/文", "le", "/a%2Fb", "//", "/😀", "/\x7f", "/%C3%A9", "/index.html", "/Ā߿ࠀ￿\U00010000"]
METHODS = ["GET", "GET", "POST", "PUT", "DELETE", "PATCH", "HEAD", "OPTIONS", "M-SEARCH", "é"]
QUERIES = ["", "", "a=b", "a=%C3%A9&b", "x=1&x=2", "?", "a=b c", "%", "\x7f"]
BAD_QUERIES = ["a=\xc3\xa9", "\x80", "ok&\xff", "\xe4\xb8\xad", "e=\xf0\x9f\x98\x80&x=\xff"]
HNAMES = ["content-length", "content-type", "x-a", "x-a", "x-a", "X-A", "x_a", "x-b", "cookie", "accept", "host", "content_length",
          "Content-Length", "Content-Type", "proxy", "x-\xe9", "\xdf", "\xb5-\xff", "a-b-c", "-", "", "x--y", "set-cookie", "via"]
HVALUES = ["1", "2", "a, b", "", " ", "v\xe9", "text/plain; charset=utf-8", "0", "\xff\x00", "x,y", ","]
# header values (as bytes, spelled in latin-1) that ARE valid multi-byte UTF-8 - 2-, 3- and 4-byte sequences, alone, inside ASCII and
# next to bytes that are not UTF-8 (a stray 0xFF, a truncated sequence, an overlong form, an encoded surrogate): PEP 3333 wants every
# one of them handed on as the latin-1 native string of exactly these bytes
UTF8_VALUES = ["caf\xc3\xa9", "\xc3\xa9", "\xe4\xb8\xad\xe6\x96\x87", "\xf0\x9f\x98\x80", "n=\xc3\xa9; m=\xe4\xb8\xad; e=\xf0\x9f\x98\x80",
               "\xc3\xa9\xff", "\xff\xc3\xa9", "\xe4\xb8", "\xc0\xaf", "\xed\xa0\x80", "\xf4\x90\x80\x80", "\xc2\xa0x", "attachment; filename=\xe2\x82\xac.txt"]
HVALUES += UTF8_VALUES
UTF8_NAMES = ["x-\xc3\xa9", "\xe4\xb8\xad", "x-\xf0\x9f\x98\x80-y", "\xc3"]
SERVERS = [None, ["localhost", 80], ["h", 8080], ["/tmp/sock", None], ["::1", 443], ["é.example", 0]]
CLIENTS = [None, ["1.2.3.4", 5], ["::1", 0], "absent", ["c", None]]


def gen_scope(rng, match: Optional[bool] = None, ascii_query: bool = True) -> dict:
    root = rng.choice(ROOTS)
    r = root or ""
    if match is None:
        match = rng.random() < 0.85
    if match:
        path = r + rng.choice(SUFFIXES)
    else:
        path = rng.choice(["/other", r[:-1] if len(r) > 1 else "x", "", r[:-1] + "国" if r else "nomatch", "/APP/x", r.upper() + "/x" if r.upper() != r else "zz"])
        if path.startswith(r):
            path = "\x00" + path if r else path  # r == "": everything matches
    query = rng.choice(QUERIES) if ascii_query else rng.choice(BAD_QUERIES)
    k = rng.choice([0, 0, 1, 2, 3, 4, 6, 9])
    headers = []
    for _ in range(k):
        n = rng.choice(HNAMES) if rng.random() < 0.9 else "".join(chr(rng.randint(0, 255)) for _ in range(rng.randint(1, 4)))
        headers.append([n, rng.choice(HVALUES)])
    return {"method": rng.choice(METHODS), "path": path, "root_path": root, "query_string": query,
            "http_version": rng.choice(["1.0", "1.1", "1.1", "2", "3"]), "scheme": rng.choice(["http", "https", None]),
            "server": rng.choice(SERVERS), "client": rng.choice(CLIENTS), "headers": headers}


def path_class(js: dict) -> str:
    root, path = js.get("root_path") or "", js["path"]
    if not path.startswith(root):
        return "outside-root"
    rest = path[len(root):]
    cls = "equal-root" if rest == "" else ("no-slash-remainder" if not rest.startswith("/") else "remainder")
    if any(ord(c) > 127 for c in path):
        cls += "+non-ascii"
    if "%" in path:
        cls += "+escape"
    return cls


def header_class(js: dict) -> str:
    keys: Dict[str, int] = {}
    for n, _ in js["headers"]:
        key = n if n in ("content-length", "content-type") else "HTTP_" + n.upper().replace("-", "_")
        keys[key] = keys.get(key, 0) + 1
    if not keys:
        return "none"
    rep = max(keys.values())

    def is_utf8_multibyte(v: str) -> bool:
        try:
            return v.encode("latin1").decode("utf8") != v
        except UnicodeError:
            return False
    return (("repeated" if rep > 1 else "single") + ("+content" if any(k in keys for k in ("content-length", "content-type")) else "")
            + ("+utf8-value" if any(is_utf8_multibyte(v) for _, v in js["headers"]) else "")
            + ("+high-byte-value" if any(any(ord(ch) > 127 for ch in v) and not is_utf8_multibyte(v) for _, v in js["headers"]) else ""))


# --------------------------------------------------------------------------------------------------------------
# family: environ (direct calls of _build_environ)
# --------------------------------------------------------------------------------------------------------------
def gen_environ(ctx: Ctx, n: int) -> List[dict]:
    rng = ctx.rng
    cases = []
    for i in range(n):
        sc = gen_scope(rng, ascii_query=rng.random() < 0.97)
        body = bytes(rng.randint(0, 255) for _ in range(rng.choice([0, 0, 1, 5, 20])))
        cases.append({"family": "environ", "scope": sc, "body": b2s(body)})
    # every one-byte header name (str.upper on Latin-1), alone and doubled with a dash
    base = {"method": "GET", "path": "/", "root_path": "", "query_string": "", "http_version": "1.1", "scheme": "http",
            "server": None, "client": None}
    for b in range(256):
        cases.append({"family": "environ", "scope": dict(base, headers=[[chr(b), "v"], [chr(b) + "-" + chr(b), "w"], [chr(b), "x"]]), "body": ""})
    # header values / names that are valid multi-byte UTF-8 (and near misses): alone, repeated next to a latin-1-only value in both
    # orders (the comma-join must be of the raw bytes of both), under the unprefixed variables, under a name that is UTF-8 itself
    for v in UTF8_VALUES:
        for hs in ([["x-a", v]], [["x-a", v], ["x-a", "v\xe9"]], [["x-a", "\xff\x00"], ["X-A", "1"], ["x-a", v]], [["cookie", v], ["content-type", v]],
                   [["content-length", v], ["content-length", v]], [[UTF8_NAMES[0], v], [UTF8_NAMES[1], v]]):
            cases.append({"family": "environ", "scope": dict(base, headers=hs), "body": ""})
    for n in UTF8_NAMES:
        cases.append({"family": "environ", "scope": dict(base, headers=[[n, "1"], [n, UTF8_VALUES[0]], [n.upper(), "3"]]), "body": ""})
    for sfx in ("/caf\u00e9", "/\u4e2d/\u6587", "/\U0001f600", "/\u00e9\u4e2d\U0001f600%C3%A9"):
        cases.append({"family": "environ", "scope": dict(base, path="/r\u00e9" + sfx, root_path="/r\u00e9", headers=[["x-p", UTF8_VALUES[2]]]), "body": ""})
    for qs in BAD_QUERIES:
        cases.append({"family": "environ", "scope": dict(base, query_string=qs, headers=[]), "body": ""})
    # the pinned tests' scopes
    cases.append({"family": "environ", "scope": dict(base, path="/中/文", root_path="/中", query_string="bar=baz", http_version="1.0",
                                                      client=["localhost", 80], headers=[]), "body": ""})
    cases.append({"family": "environ", "scope": dict(base, path="/中文", root_path="/中国", query_string="bar=baz", headers=[]), "body": ""})
    return cases


def check_environ(ctx: Ctx, cases: List[dict]) -> None:
    from hypercorn.app_wrappers import InvalidPathError, _build_environ
    model = ctx.model([{"cmd": "c17.environ", "scope": driver_scope(c["scope"]), "body": c["body"]} for c in cases])
    for i, c in enumerate(cases):
        js, body = c["scope"], s2b(c["body"])
        ctx.evaluations += 1
        try:
            env = _build_environ(mk_scope(js), body)  # type: ignore
            env["wsgi.input"] = env["wsgi.input"].read()
            impl: Dict[str, Any] = {"environ": canon_environ(env)}
        except InvalidPathError:
            env, impl = None, {"raises": "InvalidPathError"}
        except Exception as e:  # noqa
            env, impl = None, {"raises": type(e).__name__}
        pc, hc = path_class(js), header_class(js)
        ascii_q = all(ord(ch) < 128 for ch in js["query_string"])
        ctx.count("environ.path", pc)
        ctx.count("environ.headers", hc)
        ctx.count("environ.outcome", "environ" if env is not None else impl["raises"])
        if js["headers"] or pc.startswith("remainder"):
            ctx.distinct(["environ", pc, hc, js.get("root_path") is None, ascii_q, js.get("server") is None, js.get("client") in (None, "absent")])
        ctx.sample(c, cap=2)
        # monitor
        if pc == "outside-root":
            if impl.get("raises") != "InvalidPathError":
                ctx.violation("bad_root_path", c, impl.get("raises", "environ built"), {"family": "environ"})
        elif not ascii_q:
            ctx.count("environ.observation", "non-ascii query → " + str(impl.get("raises")))
        elif env is None:
            ctx.violation("environ_raises", c, impl, {"family": "environ", "error": impl.get("raises")})
        else:
            probs = environ_problems(js, body, env)
            if probs:
                ctx.violation("environ_spec", c, probs, {"family": "environ", "problem": probs[0].split(":")[0]})
            if not isinstance(env.get("SERVER_PORT"), str):
                ctx.count("environ.observation", f"SERVER_PORT is {type(env.get('SERVER_PORT')).__name__}, not a native string")
        # correspondence
        if model is not None:
            ctx.disagreements_checked += 1
            m = model[i].get("ok")
            if isinstance(m, dict) and "environ" in m:
                m = {"environ": {k: v for k, v in m["environ"]}, "order": [k for k, _ in m["environ"]]}
                ok = m["environ"] == impl.get("environ")
            else:
                ok = m == impl
            if not ok:
                ctx.disagree("c17.environ", c, model[i], impl)


# --------------------------------------------------------------------------------------------------------------
# scripted WSGI applications
# --------------------------------------------------------------------------------------------------------------
class Rec:
    def __init__(self) -> None:
        self.calls = 0
        self.call_threads: List[int] = []
        self.iter_threads: List[int] = []
        self.close_calls = 0          # close() of the object the application returned
        self.inner_close_calls = 0    # close() of a separate iterator handed out by that object's __iter__
        self.iter_calls = 0           # __iter__ invocations on an iterable container
        self.close_threads: List[int] = []
        self.environ: Optional[dict] = None
        self.raw_environ: Optional[dict] = None
        self.gen: Any = None
        self.returned = False


def build_app(script: dict, rec: Rec) -> Callable:
    call, acts, kind = script["call"], script["iter"], script["kind"]

    def run_iter(start_response):
        for act in acts:
            rec.iter_threads.append(threading.get_ident())
            if act[0] == "start":
                start_response(act[1], [tuple(h) for h in act[2]])
            elif act[0] == "yield":
                yield s2b(act[1])
            else:
                raise AppError("scripted failure during iteration")

    class It:
        def __init__(self, sr):
            self.g = run_iter(sr)

        def __iter__(self):
            return self

        def __next__(self):
            return next(self.g)

    class ItClose(It):
        def close(self):
            rec.close_calls += 1
            rec.close_threads.append(threading.get_ident())

    class InnerIt(It):
        """a separate iterator (not the object the application returned)"""

    class InnerItClose(InnerIt):
        def close(self):
            rec.inner_close_calls += 1

    class Container:
        """an iterable that is not its own iterator: PEP 3333 asks for close() of *this* object"""

        def __init__(self, sr):
            self.sr = sr

        def __iter__(self):
            rec.iter_calls += 1
            rec.iter_threads.append(threading.get_ident())
            if script.get("iter_raises"):
                raise AppError("scripted failure in __iter__")
            inner = script.get("inner", "gen")
            if inner == "gen":
                return run_iter(self.sr)
            if inner == "list":
                return iter([s2b(a[1]) for a in acts])
            return (InnerItClose if inner == "iter_close" else InnerIt)(self.sr)

    class ContainerClose(Container):
        def close(self):
            rec.close_calls += 1
            rec.close_threads.append(threading.get_ident())

    def app(environ, start_response):
        rec.calls += 1
        rec.call_threads.append(threading.get_ident())
        raw = dict(environ)
        raw["wsgi.input"] = environ["wsgi.input"].read()
        rec.raw_environ = raw
        rec.environ = canon_environ(raw)
        for st, hs in call:
            start_response(st, [tuple(h) for h in hs])
        if script["call_raises"]:
            raise AppError("scripted failure in the callable")
        if kind == "list":
            out: Any = [s2b(a[1]) for a in acts]
        elif kind == "gen":
            out = rec.gen = run_iter(start_response)
        elif kind == "iterable":
            out = (ContainerClose if script["has_close"] else Container)(start_response)
        elif script["has_close"]:
            out = ItClose(start_response)
        else:
            out = It(start_response)
        rec.returned = True
        return out

    return app


def model_app(script: dict) -> dict:
    kind = script["kind"]
    return {"call": script["call"], "call_raises": script["call_raises"], "iter": script["iter"], "has_close": script["has_close"],
            "self_iter": kind in ("gen", "iter"),                 # iter(list) and iter(container) are other objects
            "iter_raises": kind == "iterable" and bool(script.get("iter_raises")),
            "iter_has_close": kind == "iterable" and script.get("inner", "gen") in ("gen", "iter_close")}


def _valid_start(st: str, hs: List[List[str]]) -> bool:
    raw = st.split(" ", 1)
    if len(raw) != 2 or not raw[0] or not all("0" <= ch <= "9" for ch in raw[0]):
        return False
    try:
        for n, v in hs:
            n.lower().encode("latin-1"), v.encode("latin-1")
    except UnicodeError:
        return False
    return True


def classify(script: dict) -> dict:
    """Start position class, fault flags and (for well-behaved applications) the PEP 3333 expectation."""
    call_ok = all(_valid_start(st, hs) for st, hs in script["call"])
    call_fault = (not call_ok) or script["call_raises"]
    acts = script["iter"]
    first_yield = next((i for i, a in enumerate(acts) if a[0] == "yield"), len(acts))
    starts_before = [a for a in acts[:first_yield] if a[0] == "start"]
    starts_after = [a for a in acts[first_yield:] if a[0] == "start"]
    iter_raises = script["kind"] == "iterable" and bool(script.get("iter_raises"))
    iter_fault = iter_raises or any(a[0] == "raise" or (a[0] == "start" and not _valid_start(a[1], a[2])) for a in acts)
    if call_fault:
        shape = "call_raises"
    elif script["call"]:
        shape = "eager"
    elif starts_before:
        shape = "lazy_start"
    elif starts_after:
        shape = "late_start"
    else:
        shape = "no_start"
    nstarts = len(script["call"]) + len(starts_before)
    expected = None
    if shape in ("eager", "lazy_start") and not iter_fault and nstarts == 1 and not starts_after:
        st, hs = (script["call"] + [[a[1], a[2]] for a in starts_before])[0]
        expected = ([{"type": "start", "status": int(st.split(" ", 1)[0]),
                      "headers": [[b2s(n.lower().encode("latin-1")), b2s(v.encode("latin-1"))] for n, v in hs]}]
                    + [{"type": "body", "body": a[1], "more": True} for a in acts if a[0] == "yield"]
                    + [{"type": "body", "body": "", "more": False}])
    return {"shape": shape, "iter_fault": iter_fault, "iterable_returned": not call_fault, "expected": expected}


# --------------------------------------------------------------------------------------------------------------
# running the real wrapper
# --------------------------------------------------------------------------------------------------------------
def _messages(case: dict) -> List[dict]:
    out = []
    for m in case["msgs"]:
        d: Dict[str, Any] = {"type": m.get("type", "http.request")}
        if m.get("body") is not None:
            d["body"] = s2b(m["body"])
        if m.get("more") is not None:
            d["more_body"] = m["more"]
        out.append(d)
    return out


def model_msgs(case: dict) -> List[list]:
    return [[m.get("body") or "", bool(m.get("more"))] for m in case["msgs"]]


async def _drive(case: dict, sync_spawn: Callable, call_soon: Callable, loop_thread: int) -> dict:
    from hypercorn.app_wrappers import WSGIWrapper
    rec = Rec()
    app = build_app(case["app"], rec)
    wrapper = WSGIWrapper(app, case["max"])
    queue = _messages(case)
    sent: List[Any] = []
    send_threads: List[int] = []

    async def receive():
        if not queue:
            raise _Exhausted()
        return queue.pop(0)

    async def send(m):
        sent.append(m)
        send_threads.append(threading.get_ident())

    spawns = [0]

    def counted_spawn(fn, *args):
        spawns[0] += 1
        return sync_spawn(fn, *args)

    exc = None
    try:
        await wrapper(mk_scope(case["scope"], case.get("kind", "http")), receive, send, counted_spawn, call_soon)  # type: ignore
    except _Exhausted:
        exc = "_Exhausted"
    except Exception as e:  # noqa
        exc = type(e).__name__
    gen_state = None if rec.gen is None else inspect.getgeneratorstate(rec.gen)
    return {"sent": [canon_msg(m) for m in sent], "exc": exc, "app_calls": rec.calls, "close_calls": rec.close_calls,
            "inner_close_calls": rec.inner_close_calls, "iter_calls": rec.iter_calls,
            "spawns": spawns[0], "gen_state": gen_state, "environ": rec.environ, "raw_environ": rec.raw_environ, "returned": rec.returned,
            "off_loop": all(t != loop_thread for t in rec.call_threads + rec.iter_threads + rec.close_threads),
            "sends_on_loop": all(t == loop_thread for t in send_threads), "unread": len(queue)}


def run_asyncio(cases: List[dict]) -> List[dict]:
    async def main():
        loop = asyncio.get_running_loop()
        loop_thread = threading.get_ident()

        def _call_soon(func: Callable, *args: Any) -> Any:
            if threading.get_ident() == loop_thread:
                # the worker's `_call_soon` would dead-lock here (it waits for the loop it is blocking); fail instead
                raise OnLoopError("call_soon invoked on the event-loop thread: run_app is not running in a spawned thread")
            future = asyncio.run_coroutine_threadsafe(func(*args), loop)
            return future.result()

        out = []
        for c in cases:
            out.append(await _drive(c, partial(loop.run_in_executor, None), _call_soon, loop_thread))
        return out

    return asyncio.run(main())


def run_trio(cases: List[dict]) -> List[dict]:
    import trio

    async def main():
        loop_thread = threading.get_ident()
        out = []
        for c in cases:
            out.append(await _drive(c, trio.to_thread.run_sync, trio.from_thread.run, loop_thread))
        return out

    return trio.run(main)


# --------------------------------------------------------------------------------------------------------------
# generators: applications and wrapper scenarios
# --------------------------------------------------------------------------------------------------------------
OK_STATUS = ["200 OK", "200 OK", "404 Not Found", "201 Created", "500 Internal Server Error", "204 No Content", "299 ", "200  two", "0200 OK", "99999 Big"]
BAD_STATUS = ["200", "abc OK", "", " 200 OK", "200\tOK", "2x0 OK"]
OK_HEADERS = [[], [["Content-Type", "text/plain"]], [["X-A", "b"], ["x-a", "c"]], [["Set-Cookie", "a=1"], ["Set-Cookie", "b=2"]],
              [["X-\xc9", "\xe9"]], [["Content-Length", "3"], ["CONTENT-TYPE", "a/b"]], [["K", "v"], ["ẞŸÅ", "w"]]]
BAD_HEADERS = [[["x-中", "v"]], [["x", "中"]], [["ok", "v"], ["İ", "v"]]]
CHUNKS = ["", "a", "chunk1", "chunk2", "\x00\xff", "x" * 70]


def _start(rng, ok: bool = True) -> List[Any]:
    if ok:
        return [rng.choice(OK_STATUS), rng.choice(OK_HEADERS)]
    return rng.choice([[rng.choice(BAD_STATUS), rng.choice(OK_HEADERS)], [rng.choice(OK_STATUS), rng.choice(BAD_HEADERS)]])


def _ys(chunks: List[str]) -> List[list]:
    return [["yield", c] for c in chunks]


def shape_grid() -> List[Tuple[str, dict]]:
    """The named application shapes of the property's quantifier (deterministic)."""
    s200, hs = "200 OK", [["Content-Type", "text/plain"], ["X-A", "b"]]
    st = ["start", s200, hs]
    two = _ys(["chunk1", "chunk2"])

    def app(call, iter_, kind, has_close, call_raises=False, inner=None, iter_raises=False):
        d = {"call": call, "call_raises": call_raises, "iter": iter_, "kind": kind, "has_close": has_close}
        if kind == "iterable":
            d.update(inner=inner or "gen", iter_raises=iter_raises)
        return d

    return [
        # iterables that are not their own iterator (a resource-holding response object with a generator __iter__ ...)
        ("container_close_generator_eager", app([[s200, hs]], two, "iterable", True, inner="gen")),
        ("container_close_generator_lazy", app([], [st] + two, "iterable", True, inner="gen")),
        ("container_close_iterator", app([[s200, hs]], two, "iterable", True, inner="iter")),
        ("container_close_iterator_with_close", app([[s200, hs]], two, "iterable", True, inner="iter_close")),
        ("container_close_list_iterator", app([[s200, hs]], two, "iterable", True, inner="list")),
        ("container_noclose_iterator_with_close", app([[s200, hs]], two, "iterable", False, inner="iter_close")),
        ("container_close_no_chunks", app([[s200, hs]], [], "iterable", True, inner="gen")),
        ("container_close_raise_mid", app([[s200, hs]], _ys(["chunk1"]) + [["raise"]] + _ys(["chunk2"]), "iterable", True, inner="gen")),
        ("container_close_raise_mid_iterator", app([[s200, hs]], _ys(["chunk1"]) + [["raise"]], "iterable", True, inner="iter_close")),
        ("container_close_no_start", app([], _ys(["result"]), "iterable", True, inner="gen")),
        ("container_close_iter_raises", app([[s200, hs]], two, "iterable", True, inner="gen", iter_raises=True)),
        ("container_close_iter_raises_no_start", app([], two, "iterable", True, inner="iter", iter_raises=True)),
        ("container_noclose_iter_raises", app([[s200, hs]], two, "iterable", False, inner="gen", iter_raises=True)),
        ("list", app([[s200, hs]], two, "list", False)),
        ("list_empty_chunks", app([[s200, hs]], _ys(["", "a", "", ""]), "list", False)),
        ("list_no_chunks", app([[s200, hs]], [], "list", False)),
        ("generator_eager", app([[s200, hs]], two, "gen", True)),
        ("generator_lazy", app([], [st] + two, "gen", True)),
        ("generator_lazy_no_chunks", app([], [st], "gen", True)),
        ("iterator_close_eager", app([[s200, hs]], two, "iter", True)),
        ("iterator_noclose_eager", app([[s200, hs]], two, "iter", False)),
        ("iterator_close_lazy", app([], [st] + two, "iter", True)),
        ("iterator_noclose_lazy", app([], [st] + two, "iter", False)),
        ("raise_before_start", app([], two, "iter", True, call_raises=True)),
        ("raise_after_start", app([[s200, hs]], two, "iter", True, call_raises=True)),
        ("raise_in_iteration_first", app([[s200, hs]], [["raise"]] + two, "iter", True)),
        ("raise_in_iteration_mid", app([[s200, hs]], _ys(["chunk1"]) + [["raise"]] + _ys(["chunk2"]), "iter", True)),
        ("raise_in_generator_mid", app([[s200, hs]], _ys(["chunk1"]) + [["raise"]], "gen", True)),
        ("raise_in_lazy_iteration", app([], [st] + _ys(["chunk1"]) + [["raise"]], "iter", True)),
        ("no_start_list", app([], _ys(["result"]), "list", False)),
        ("no_start_iterator_close", app([], _ys(["result"]), "iter", True)),
        ("no_start_generator", app([], _ys(["result"]), "gen", True)),
        ("no_start_no_chunks", app([], [], "iter", True)),
        ("late_start", app([], _ys(["chunk1"]) + [st] + _ys(["chunk2"]), "iter", True)),
        ("double_start_call", app([["500 X", []], [s200, hs]], two, "iter", True)),
        ("restart_during_iteration", app([[s200, hs]], _ys(["chunk1"]) + [["start", "500 X", []]] + _ys(["chunk2"]), "iter", True)),
        ("bad_status_call", app([["200", hs]], two, "iter", True)),
        ("bad_header_call", app([[s200, [["x", "中"]]]], two, "iter", True)),
        ("bad_status_lazy", app([], [["start", "abc OK", hs]] + two, "iter", True)),
    ]


def gen_app(rng) -> dict:
    r = rng.random()
    chunks = [rng.choice(CHUNKS) for _ in range(rng.choice([0, 1, 2, 2, 3, 5]))]
    kind = rng.choice(["list", "gen", "iter", "iter", "iterable", "iterable"])
    has_close = True if kind == "gen" else (False if kind == "list" else rng.random() < 0.7)
    call: List[Any] = []
    acts: List[Any] = _ys(chunks)
    call_raises = False
    if r < 0.30:                                   # eager
        call = [_start(rng)]
    elif r < 0.50:                                 # lazy
        acts = [["start"] + _start(rng)] + acts
    elif r < 0.58:                                 # no start at all
        pass
    elif r < 0.64:                                 # late start
        k = rng.randint(1, max(1, len(acts)))
        acts = acts[:k] + [["start"] + _start(rng)] + acts[k:]
        if not any(a[0] == "yield" for a in acts[:k]):
            acts = _ys(["early"]) + acts
    elif r < 0.72:                                 # callable raises before / after start_response
        call = [_start(rng)] if rng.random() < 0.5 else []
        call_raises = True
    elif r < 0.82:                                 # raise during iteration
        call = [_start(rng)] if rng.random() < 0.6 else []
        if not call:
            acts = [["start"] + _start(rng)] + acts
        k = rng.randint(0, len(acts))
        acts = acts[:k] + [["raise"]] + acts[k:]
    elif r < 0.90:                                 # invalid start_response arguments
        if rng.random() < 0.5:
            call = [_start(rng, ok=False)]
        else:
            call = [_start(rng)] if rng.random() < 0.5 else []
            k = rng.randint(0, len(acts))
            acts = acts[:k] + [["start"] + _start(rng, ok=False)] + acts[k:]
    else:                                          # several start_response calls
        call = [_start(rng) for _ in range(rng.randint(0, 2))]
        for _ in range(rng.randint(1, 2)):
            k = rng.randint(0, len(acts))
            acts = acts[:k] + [["start"] + _start(rng)] + acts[k:]
    if kind == "list" and any(a[0] != "yield" for a in acts):
        kind, has_close = "iter", rng.random() < 0.7
    app = {"call": call, "call_raises": call_raises, "iter": acts, "kind": kind, "has_close": has_close}
    if kind == "iterable":
        inners = ["gen", "gen", "iter", "iter_close"] + (["list"] if all(a[0] == "yield" for a in acts) else [])
        app.update(inner=rng.choice(inners), iter_raises=rng.random() < 0.15)
    return app


def split_body(rng, body: bytes, parts: int) -> List[dict]:
    cuts = sorted(rng.randint(0, len(body)) for _ in range(parts - 1))
    pieces = [body[a:b] for a, b in zip([0] + cuts, cuts + [len(body)])]
    msgs = []
    for i, p in enumerate(pieces):
        last = i == len(pieces) - 1
        m: Dict[str, Any] = {"body": b2s(p), "more": not last}
        if last and rng.random() < 0.3:
            m["more"] = None               # key absent, like the pinned tests
        if p == b"" and rng.random() < 0.3:
            m["body"] = None               # key absent
        msgs.append(m)
    return msgs


SIMPLE_SCOPE = {"method": "GET", "path": "/", "root_path": "", "query_string": "a=b", "http_version": "1.1", "scheme": "http",
                "server": None, "client": ["localhost", 80], "headers": []}
ECHO_APP = {"call": [["200 OK", []]], "call_raises": False, "iter": [], "kind": "list", "has_close": False}


def gen_limit(ctx: Ctx) -> List[dict]:
    """body size x limit x chunking; exhaustive for small limits (all compositions into <= 3 messages)."""
    rng = ctx.rng
    cases = []

    def compositions(n: int, k: int):
        if k == 1:
            yield [n]
            return
        for first in range(n + 1):
            for rest in compositions(n - first, k - 1):
                yield [first] + rest

    for mx in range(0, ctx.budget(3, 5)):
        for total in range(0, mx + 3):
            body = bytes((65 + i) % 256 for i in range(total))
            for k in (1, 2, 3):
                for comp in compositions(total, k):
                    msgs, pos = [], 0
                    for i, n in enumerate(comp):
                        msgs.append({"body": b2s(body[pos:pos + n]), "more": i < len(comp) - 1})
                        pos += n
                    cases.append({"family": "limit", "max": mx, "scope": SIMPLE_SCOPE, "msgs": msgs, "app": ECHO_APP, "runner": "asyncio"})
    for mx in (4, 16, 1000, 65536):
        for delta in (-1, 0, 1, 7):
            total = mx + delta
            body = bytes(rng.randint(0, 255) for _ in range(total))
            for parts in (1, 2, rng.randint(3, 6)):
                cases.append({"family": "limit", "max": mx, "scope": SIMPLE_SCOPE, "msgs": split_body(rng, body, parts), "app": ECHO_APP,
                              "runner": rng.choice(["asyncio", "asyncio", "trio"])})
    # messages after the end of the body are not read; a disconnect ends the body; an unterminated body keeps waiting
    cases.append({"family": "limit", "max": 4, "scope": SIMPLE_SCOPE, "app": ECHO_APP, "runner": "asyncio",
                  "msgs": [{"body": "ab", "more": False}, {"body": "cdefgh", "more": False}]})
    cases.append({"family": "limit", "max": 4, "scope": SIMPLE_SCOPE, "app": ECHO_APP, "runner": "asyncio",
                  "msgs": [{"body": "ab", "more": True}, {"type": "http.disconnect", "body": None, "more": None}]})
    cases.append({"family": "limit", "max": 4, "scope": SIMPLE_SCOPE, "app": ECHO_APP, "runner": "asyncio",
                  "msgs": [{"body": "ab", "more": True}, {"body": "c", "more": True}]})
    cases.append({"family": "limit", "max": 4, "scope": SIMPLE_SCOPE, "app": ECHO_APP, "runner": "asyncio",
                  "msgs": [{"body": "abc", "more": True}, {"body": "de", "more": True}]})
    cases.append({"family": "limit", "max": 4, "scope": SIMPLE_SCOPE, "app": ECHO_APP, "runner": "asyncio", "msgs": []})
    return cases


def gen_run(ctx: Ctx, n: int) -> List[dict]:
    rng = ctx.rng
    cases = []
    # the shape x body-size grid, exhaustively, on asyncio; every shape once on trio
    for name, app in shape_grid():
        for mx, total in ((8, 7), (8, 8), (8, 9), (0, 0)):
            body = bytes(rng.randint(0, 255) for _ in range(total))
            cases.append({"family": "run_app", "name": name, "max": mx, "scope": SIMPLE_SCOPE, "kind": "http",
                          "msgs": split_body(rng, body, rng.choice([1, 2, 3])), "app": app, "runner": "asyncio"})
        cases.append({"family": "run_app", "name": name, "max": 8, "scope": SIMPLE_SCOPE, "kind": "http",
                      "msgs": split_body(rng, b"12345678", 2), "app": app, "runner": "trio"})
    for _ in range(n):
        mx = rng.choice([0, 1, 5, 16, 100])
        total = max(0, mx + rng.choice([-1, 0, 0, 1, -mx, 3]))
        body = bytes(rng.randint(0, 255) for _ in range(total))
        r = rng.random()
        sc = gen_scope(rng, match=rng.random() < 0.9) if r < 0.6 else SIMPLE_SCOPE
        cases.append({"family": "run_app", "max": mx, "scope": sc, "kind": "http", "msgs": split_body(rng, body, rng.choice([1, 1, 2, 3])),
                      "app": gen_app(rng), "runner": "trio" if rng.random() < 0.12 else "asyncio"})
    # other scope types
    for kind in ("websocket", "lifespan", "bogus"):
        for runner in ("asyncio", "trio"):
            cases.append({"family": "run_app", "max": 8, "scope": SIMPLE_SCOPE, "kind": kind, "msgs": [{"body": "x", "more": False}],
                          "app": ECHO_APP, "runner": runner})
    return cases


# --------------------------------------------------------------------------------------------------------------
# family: limit + run_app (the real wrapper on both worker styles)
# --------------------------------------------------------------------------------------------------------------
def _request_body(case: dict) -> Tuple[bytes, bool]:
    """(bytes up to the first message without more_body, whether such a message exists)"""
    body = b""
    for m in case["msgs"]:
        body += s2b(m.get("body") or "")
        if not m.get("more"):
            return body, True
    return body, False


def check_wrapper(ctx: Ctx, cases: List[dict]) -> None:
    variant = ctx.extra.get("run_app_variant")
    by_runner: Dict[str, List[int]] = {"asyncio": [], "trio": []}
    for i, c in enumerate(cases):
        by_runner[c.get("runner", "asyncio")].append(i)
    obs: List[Optional[dict]] = [None] * len(cases)
    for runner, idx in by_runner.items():
        if not idx:
            continue
        res = (run_asyncio if runner == "asyncio" else run_trio)([cases[i] for i in idx])
        for i, r in zip(idx, res):
            obs[i] = r
    model = None
    if variant is not None:
        reqs = []
        for c in cases:
            reqs.append({"cmd": "c17.run_app", "variant": variant, "kind": c.get("kind", "http"), "max": c["max"],
                         "scope": driver_scope(c["scope"]), "msgs": model_msgs(c), "app": model_app(c["app"])})
            reqs.append({"cmd": "c17.collect", "max": c["max"], "msgs": model_msgs(c)})
        model = ctx.model(reqs)
    for i, (c, o) in enumerate(zip(cases, obs)):
        assert o is not None
        ctx.evaluations += 1
        kind = c.get("kind", "http")
        js = c["scope"]
        body, terminated = _request_body(c)
        root = js.get("root_path") or ""
        in_root = js["path"].startswith(root)
        ascii_q = all(ord(ch) < 128 for ch in js["query_string"])
        too_large = len(body) > c["max"] if terminated else any(
            len(b"".join(s2b(m.get("body") or "") for m in c["msgs"][:k + 1])) > c["max"] for k in range(len(c["msgs"])))
        cl = classify(c["app"])
        rel = "over" if len(body) > c["max"] else ("at" if len(body) == c["max"] else ("one-below" if len(body) == c["max"] - 1 else "below"))
        fam = c["family"]
        sig_base = {"family": fam}
        if fam == "limit":
            ctx.count("limit.relation", rel if terminated else "unterminated")
            ctx.count("limit.messages", len(c["msgs"]))
            if terminated and abs(len(body) - c["max"]) <= 1:
                ctx.distinct(["limit", c["max"], rel, len(c["msgs"]), c.get("runner")])
        else:
            ctx.count("run.shape", cl["shape"] if kind == "http" else kind)
            ctx.count("run.kind", c["app"]["kind"] + (f":{c['app'].get('inner')}" + ("+iter_raises" if c["app"].get("iter_raises") else "")
                                                      if c["app"]["kind"] == "iterable" else ""))
            ctx.count("run.runner", c.get("runner"))
            ctx.count("run.body", rel)
            if kind == "http" and cl["iterable_returned"]:
                ctx.distinct(["run", cl["shape"], c["app"]["kind"], c["app"].get("inner"), bool(c["app"].get("iter_raises")),
                              c["app"]["has_close"], cl["iter_fault"], c.get("runner"), rel, in_root])
        ctx.sample({k: v for k, v in c.items()}, cap=4 if fam == "run_app" else 3)
        # ---------------- monitors (independent of the model) ----------------
        final = {"type": "body", "body": "", "more": False}
        if kind == "websocket":
            if o["sent"] != [{"type": "ws_close"}] or o["app_calls"] != 0 or o["exc"] is not None:
                ctx.violation("websocket_refused", c, o, sig_base)
        elif kind == "lifespan":
            if o["sent"] or o["app_calls"] or o["exc"] is not None:
                ctx.violation("lifespan_ignored", c, o, sig_base)
        elif kind == "http" and (terminated or too_large):
            expect_call = (not too_large) and in_root and ascii_q
            if too_large:
                if o["sent"] != [{"type": "start", "status": 400, "headers": []}, final] or o["app_calls"] != 0:
                    ctx.violation("limit_400_no_call", c, _brief(o), dict(sig_base, relation=rel))
            elif not in_root:
                if o["sent"] != [{"type": "start", "status": 404, "headers": []}, final] or o["app_calls"] != 0:
                    ctx.violation("bad_root_path_404", c, _brief(o), sig_base)
            elif not ascii_q:
                ctx.count("run.observation", f"non-ascii query → {o['exc']}, app calls {o['app_calls']}")
            if expect_call:
                if o["app_calls"] != 1:
                    ctx.violation("called_once", c, _brief(o), dict(sig_base, calls=o["app_calls"], **({"relation": rel} if o["app_calls"] == 0 else {})))
                elif not o["off_loop"]:
                    ctx.violation("off_event_loop", c, _brief(o), dict(sig_base, runner=c.get("runner")))
                if o["app_calls"] >= 1 and o["raw_environ"] is not None:
                    probs = environ_problems(js, body, o["raw_environ"])
                    if probs:
                        ctx.violation("environ_spec", c, probs, dict(sig_base, problem=probs[0].split(":")[0]))
                if cl["expected"] is not None and o["sent"] != cl["expected"]:
                    ctx.violation("output_fidelity", c, {"sent": o["sent"], "expected": cl["expected"], "exc": o["exc"]},
                                  dict(sig_base, shape=cl["shape"]))
                # close(): exactly once on every path on which the callable returned an iterable
                if o["returned"]:
                    # (the object the application returned: an iterator, or a container that is not its own iterator)
                    if c["app"]["kind"] in ("iter", "iterable") and c["app"]["has_close"] and o["close_calls"] != 1:
                        ctx.violation("close_once", c, {"close_calls": o["close_calls"], "exc": o["exc"], "sent": o["sent"],
                                                        "iterator_close_calls": o["inner_close_calls"], "iter_calls": o["iter_calls"]},
                                      dict(sig_base, shape=cl["shape"], kind=c["app"]["kind"]))
                    if c["app"]["kind"] == "gen" and o["gen_state"] != inspect.GEN_CLOSED:
                        ctx.violation("close_once", c, {"generator_state": o["gen_state"], "exc": o["exc"], "sent": o["sent"]},
                                      dict(sig_base, shape=cl["shape"]))
                elif o["close_calls"] != 0:
                    ctx.violation("close_once", c, {"close_calls": o["close_calls"], "note": "no iterable was returned"},
                                  dict(sig_base, shape=cl["shape"]))
                if o["close_calls"] > 1:
                    ctx.violation("close_once", c, {"close_calls": o["close_calls"]}, dict(sig_base, shape=cl["shape"], many=True))
            elif o["app_calls"] != 0 and (too_large or not in_root):
                ctx.violation("called_once", c, _brief(o), dict(sig_base, rejected=True))
        # ---------------- correspondence with the model ----------------
        if model is not None:
            ctx.disagreements_checked += 2
            ctx.traces_validated += 1
            m = model[2 * i].get("ok")
            mc = model[2 * i + 1].get("ok")
            if m is None or mc is None:
                ctx.disagree("c17.run_app", c, [model[2 * i], model[2 * i + 1]], _brief(o))
                continue
            impl_exc = None if o["exc"] is None else ("waiting" if o["exc"] == "_Exhausted" else o["exc"])
            mod_exc = "waiting" if m["waiting"] else m["exc"]
            impl_env = o["environ"]
            mod_env = None if m["environ"] is None else {k: v for k, v in m["environ"]}
            diffs = []
            if m["sent"] != o["sent"]:
                diffs.append("sent")
            if mod_exc != impl_exc:
                diffs.append("exc")
            if m["app_calls"] != o["app_calls"]:
                diffs.append("app_calls")
            if o["app_calls"] and mod_env != impl_env:
                diffs.append("environ")
            if m["iter_obtained"] != o["returned"]:
                diffs.append("iter_obtained")
            if c["app"]["kind"] in ("iter", "iterable") and m["close_calls"] != o["close_calls"]:
                diffs.append("close_calls")
            if c["app"]["kind"] == "iterable" and c["app"].get("inner") == "iter_close" and m["iter_close_calls"] != o["inner_close_calls"]:
                diffs.append("iter_close_calls")
            if c["app"]["kind"] == "gen" and o["returned"] and (m["close_calls"] == 1) != (o["gen_state"] == inspect.GEN_CLOSED):
                diffs.append("generator closed")
            if m["spawns"] != o["spawns"]:
                diffs.append("spawns")
            if diffs:
                ctx.disagree("c17.run_app", c, {k: m[k] for k in ("sent", "exc", "app_calls", "close_calls", "iter_close_calls", "iter_obtained", "waiting")},
                             dict(_brief(o), differs=diffs))
            # the receive loop alone
            if kind == "http":
                if mc["result"] == "too_large":
                    okc = o["sent"][:1] == [{"type": "start", "status": 400, "headers": []}] and o["app_calls"] == 0
                elif mc["result"] == "pending":
                    okc = o["exc"] == "_Exhausted"
                else:
                    okc = o["exc"] != "_Exhausted" and (o["raw_environ"] is None or b2s(o["raw_environ"]["wsgi.input"]) == mc["body"])
                if not okc:
                    ctx.disagree("c17.collect", c, mc, _brief(o))


# --------------------------------------------------------------------------------------------------------------
# family: e2e — the WSGI application behind the real TCPServer / TaskGroup of BOTH workers (the `sync_spawn` and `call_soon`
# the workers really hand to WSGIWrapper), HTTP/1.1 over harness-owned transports whose writes can be paused (a slow client)
# --------------------------------------------------------------------------------------------------------------
GRACE = 0.02          # real seconds a paused client leaves the server alone before it reads on
E2E_STATUS = ["200 OK", "203 Non-Authoritative Information", "404 Not Found", "500 Internal Server Error", "201 Created", "299 "]
E2E_HEADERS = [[], [["Content-Type", "text/plain"]], [["X-A", "b"], ["x-a", "c"]], [["Set-Cookie", "a=1"], ["Set-Cookie", "b=2"]],
               [["X-V", "caf\xe9"]]]
E2E_PACES = [{"mode": "free"}, {"mode": "paused"}, {"mode": "stutter", "cycles": 2}]
# shapes of the deterministic grid that are also served through the WSGI middleware classes
MW_NAMED = ["list", "list_empty_chunks", "generator_eager", "generator_lazy", "iterator_close_lazy", "container_close_generator_lazy",
            "raise_in_iteration_mid", "no_start_iterator_close"]


def _reset_thread_caches() -> None:
    """in a forked child trio's cache of idle worker threads names threads that do not exist here"""
    try:
        from trio._core import _thread_cache
        _thread_cache.THREAD_CACHE._idle_workers.clear()
    except Exception:  # noqa
        pass


def _e2e_request(case: dict) -> Tuple[List[bytes], dict]:
    """the bytes the client sends (head, then the body in pieces) and the scope the server should derive from them"""
    from urllib.parse import unquote
    from ..core.clients import h1_request
    r = case["request"]
    body = s2b(r["body"])
    headers = [(s2b(n), s2b(v)) for n, v in r["headers"]]
    raw = h1_request(r["method"], r["target"], headers, body)
    head_len = len(raw) - len(body)
    cuts = sorted(set(min(len(body), c) for c in r.get("cuts", [])))
    pieces = [raw[:head_len]] + [body[a:b] for a, b in zip([0] + cuts, cuts + [len(body)]) if b > a]
    path, _, query = r["target"].partition("?")
    hs = [[b2s(n.lower()), b2s(v)] for n, v in headers]
    if (body or r["method"] in ("POST", "PUT", "PATCH")) and not any(n == "content-length" for n, _ in hs):
        hs.append(["content-length", str(len(body))])
    js = {"method": r["method"], "path": unquote(path), "root_path": case.get("root_path", ""), "query_string": query, "http_version": "1.1",
          "scheme": "http", "headers": hs}
    return pieces, js


def _e2e_session(case: dict) -> dict:
    from ..core.clients import parse_h1
    from ..core.runner import RUNNERS
    holder: Dict[str, Any] = {}
    pieces, _ = _e2e_request(case)
    method = case["request"]["method"]

    def wrap(rec, worker):
        _reset_thread_caches()
        from hypercorn.app_wrappers import WSGIWrapper
        wrec = Rec()
        obs: Dict[str, Any] = {"wsgi": True, "runs": 0, "runs_done": 0, "run_threads_off_loop": True}
        rec.apps.append(obs)
        loop_thread = threading.get_ident()
        done = holder["done"] = threading.Event()
        app = build_app(case["app"], wrec)

        class Served(WSGIWrapper):
            def run_app(self, environ, send):          # observation only: when the application's thread starts and ends
                obs["runs"] += 1
                if threading.get_ident() == loop_thread:
                    obs["run_threads_off_loop"] = False
                try:
                    super().run_app(environ, send)
                finally:
                    gen_state = None if wrec.gen is None else inspect.getgeneratorstate(wrec.gen)
                    obs.update(app_calls=wrec.calls, close_calls=wrec.close_calls, inner_close_calls=wrec.inner_close_calls,
                               returned=wrec.returned, environ=wrec.environ, raw_input=None if wrec.raw_environ is None else b2s(wrec.raw_environ["wsgi.input"]),
                               gen_state=gen_state,
                               off_loop=all(t != loop_thread for t in wrec.call_threads + wrec.iter_threads + wrec.close_threads))
                    obs["raw_environ"] = None if wrec.raw_environ is None else {k: (v if isinstance(v, (str, int, bool, type(None), bytes, tuple)) else repr(v))
                                                                                 for k, v in wrec.raw_environ.items() if k != "wsgi.errors"}
                    obs["runs_done"] += 1
                    done.set()

        if case.get("mount", "builtin") == "middleware":
            # the application mounted through hypercorn.middleware.{Asyncio,Trio}WSGIMiddleware inside an ASGI application: the
            # middleware, not the worker's TaskGroup, builds the `sync_spawn` / `call_soon` pair WSGIWrapper runs the application with
            from hypercorn.app_wrappers import ASGIWrapper
            from hypercorn.middleware import AsyncioWSGIMiddleware, TrioWSGIMiddleware
            mw = (AsyncioWSGIMiddleware if worker == "asyncio" else TrioWSGIMiddleware)(app, case["max"])
            inner = [k for k, v in vars(mw).items() if isinstance(v, WSGIWrapper)]
            if len(inner) != 1:
                raise RuntimeError(f"harness: {type(mw).__name__} holds {len(inner)} WSGIWrapper objects")
            getattr(mw, inner[0]).__class__ = Served       # observation only (see above); the object and its state are the middleware's own
            return ASGIWrapper(mw)
        return Served(app, case["max"])

    async def client(io):
        async def real_wait(ev: threading.Event, timeout: float) -> None:
            if hasattr(io, "loop"):
                await io.loop.run_in_executor(None, ev.wait, timeout)
            else:
                import trio
                await trio.to_thread.run_sync(ev.wait, timeout)

        done = holder["done"]
        pace = case["pace"]
        if pace["mode"] != "free":
            io.pause_writes()                       # the client is not reading: the server's first write already blocks
        for piece in pieces:
            await io.send(piece)
        if pace["mode"] == "paused":
            await real_wait(done, GRACE)            # … until the application's thread has finished, or for GRACE
            await io.settle()
            await io.resume_writes()
        elif pace["mode"] == "stutter":
            for _ in range(pace["cycles"]):
                await real_wait(done, GRACE)
                await io.settle()
                await io.resume_writes()            # whatever was blocked goes through …
                io.pause_writes()                   # … and the next write blocks again
            await real_wait(done, GRACE)
            await io.settle()
            await io.resume_writes()
        tick = threading.Event()
        for _ in range(1500):                       # up to ~3 s of real time for the response to be complete
            await io.settle()
            r = parse_h1(bytes(io.out), [method], server_closed=io.closed_at is not None)
            if (r["responses"] and r["responses"][-1].get("complete")) or io.closed_at is not None or r["error"]:
                break
            await real_wait(tick, 0.002)
        await real_wait(done, 0.0)
        return {"waited_out": not ((r["responses"] and r["responses"][-1].get("complete")) or io.closed_at is not None or r["error"])}

    cfg = {"include_date_header": False, "include_server_header": False, "root_path": case.get("root_path", ""), "keep_alive_timeout": 2.0}
    res = RUNNERS[case["worker"]](cfg, None, client, [], tail=3.0, wrap=wrap)
    parsed = parse_h1(res["out"], [method], server_closed=res.get("closed_at") is not None)
    wsgi = next((a for a in res.get("apps", []) if isinstance(a, dict) and a.get("wsgi")), None)
    return {"parsed": parsed, "wsgi": wsgi, "error": res.get("error"), "exceptions": res.get("exceptions"), "loop_errors": res.get("loop_errors"),
            "client_error": res.get("client_error"), "client_result": res.get("client_result"), "stuck": res.get("stuck_session"),
            "closed": res.get("closed_at") is not None, "out_len": len(res["out"])}


def _e2e_app(rng, well_behaved: bool) -> dict:
    """applications whose status / headers HTTP/1.1 can carry as they are"""
    for _ in range(50):
        app = gen_app(rng)
        ok = True
        for c in app["call"]:
            if _valid_start(c[0], c[1]):
                c[0], c[1] = rng.choice(E2E_STATUS), rng.choice(E2E_HEADERS)
        for a in app["iter"]:
            if a[0] == "start" and _valid_start(a[1], a[2]):
                a[1], a[2] = rng.choice(E2E_STATUS), rng.choice(E2E_HEADERS)
        cl = classify(app)
        if well_behaved and cl["expected"] is None:
            ok = False
        if ok:
            return app
    return shape_grid()[0][1]


def gen_e2e(ctx: Ctx, n: int) -> List[dict]:
    rng = ctx.rng
    cases = []
    get = {"method": "GET", "target": "/app/x?a=b", "headers": [["Host", "h.example"], ["X-A", "1"], ["X-A", "2"]], "body": ""}
    post = {"method": "POST", "target": "/app/p%20q", "headers": [["Host", "h.example"], ["Content-Type", "a/b"]], "body": "12345678", "cuts": [3]}
    grid = dict(shape_grid())
    # deterministic: shapes x pacing x worker (the response must arrive unchanged however slowly the client reads)
    named = ["list", "list_empty_chunks", "list_no_chunks", "generator_eager", "generator_lazy", "generator_lazy_no_chunks",
             "iterator_close_eager", "iterator_close_lazy", "container_close_generator_eager", "container_close_generator_lazy",
             "container_close_list_iterator", "raise_in_iteration_mid", "raise_before_start", "no_start_iterator_close",
             "container_close_iter_raises"]
    for name in named:
        for worker in ("asyncio", "trio"):
            for k, pace in enumerate(E2E_PACES):
                req = post if (len(cases) + k) % 3 == 0 else get
                cases.append({"family": "e2e", "name": name, "worker": worker, "pace": pace, "max": 8, "root_path": "/app", "request": req,
                              "app": grid[name]})
    # the same through the WSGI middleware classes (a WSGI application mounted inside an ASGI one): they hand WSGIWrapper their own
    # sync_spawn / call_soon, so every clause is checked for them as for the built-in mode
    for name in MW_NAMED:
        for worker in ("asyncio", "trio"):
            for k, pace in enumerate(E2E_PACES):
                req = post if (len(cases) + k) % 3 == 0 else get
                cases.append({"family": "e2e", "name": name, "worker": worker, "mount": "middleware", "pace": pace, "max": 8, "root_path": "/app",
                              "request": req, "app": grid[name]})
    # the body limit through the whole server: at the limit → served, above → 400 without calling the application
    for worker in ("asyncio", "trio"):
        for mount in ("builtin", "middleware"):
            for size in (8, 9):
                cases.append({"family": "e2e", "name": "limit", "worker": worker, "mount": mount, "pace": {"mode": "free"}, "max": 8, "root_path": "",
                              "request": dict(post, target="/", body="x" * size, cuts=[4, 8]), "app": grid["list"]})
    # request header values that are valid multi-byte UTF-8 next to ones that are not, and a target with escaped UTF-8, through the whole
    # server (h11 hands obs-text in field values on as it is): the environ still holds the bytes as latin-1 native strings
    utf8_req = {"method": "GET", "target": "/app/caf%C3%A9/%E4%B8%AD/%F0%9F%98%80?q=%C3%A9",
                "headers": [["Host", "h.example"], ["X-A", UTF8_VALUES[0]], ["X-A", "v\xe9"], ["Cookie", UTF8_VALUES[4]], ["X-B", UTF8_VALUES[5]],
                            ["Content-Disposition", UTF8_VALUES[-1]]], "body": ""}
    for worker in ("asyncio", "trio"):
        for mount in ("builtin", "middleware"):
            cases.append({"family": "e2e", "name": "utf8_headers", "worker": worker, "mount": mount, "pace": {"mode": "free"}, "max": 8, "root_path": "/app",
                          "request": utf8_req, "app": grid["list"]})
    for _ in range(n):
        body = "".join(chr(rng.randint(0, 255)) for _ in range(rng.choice([0, 0, 3, 8])))
        req = {"method": "POST" if body else rng.choice(["GET", "POST"]), "target": rng.choice(["/", "/x?q=1", "/a/b", "/p%20q", "/%E4%B8%AD"]),
               "headers": [["Host", "h"]] + rng.sample([["X-A", "1"], ["x-a", "2"], ["Accept", "*/*"], ["x-a", rng.choice(UTF8_VALUES)],
                                                        ["Cookie", rng.choice(UTF8_VALUES)]], rng.randint(0, 4)), "body": body,
               "cuts": [rng.randint(0, 8)]}
        pace = rng.choice(E2E_PACES + [{"mode": "stutter", "cycles": rng.randint(1, 4)}])
        cases.append({"family": "e2e", "worker": rng.choice(["asyncio", "trio"]), "mount": rng.choice(["builtin", "middleware"]), "pace": pace, "max": 8,
                      "root_path": "", "request": req, "app": _e2e_app(rng, well_behaved=rng.random() < 0.8)})
    return cases


def check_e2e(ctx: Ctx, cases: List[dict]) -> None:
    variant = ctx.extra.get("run_app_variant")
    obs = [_e2e_session(c) for c in cases]
    model = None
    if variant is not None:
        reqs = []
        for c in cases:
            pieces, js = _e2e_request(c)
            body = s2b(c["request"]["body"])
            reqs.append({"cmd": "c17.run_app", "variant": variant, "kind": "http", "max": c["max"], "scope": dict(driver_scope(js), server=None, client=None),
                         "msgs": [[b2s(body), False]], "app": model_app(c["app"]),
                         "worker": c["worker"] + ("_middleware" if c.get("mount") == "middleware" else ""),
                         "susp": [c["pace"]["mode"] != "free"]})
        model = ctx.model(reqs)
    final = {"type": "body", "body": "", "more": False}
    for i, (c, o) in enumerate(zip(cases, obs)):
        ctx.evaluations += 1
        pieces, js = _e2e_request(c)
        body = s2b(c["request"]["body"])
        cl = classify(c["app"])
        too_large = len(body) > c["max"]
        sig = {"family": "e2e", "worker": c["worker"], "pace": c["pace"]["mode"]}
        mount = c.get("mount", "builtin")
        if mount != "builtin":
            sig["mount"] = mount
        ctx.count("e2e.mount", f"{mount}:{c['worker']}:{c['pace']['mode']}")
        ctx.count("e2e.worker", c["worker"])
        ctx.count("e2e.pace", c["pace"]["mode"])
        ctx.count("e2e.shape", "too_large" if too_large else cl["shape"] + ("+fault" if cl["iter_fault"] else ""))
        ctx.distinct(["e2e", c["worker"], mount, c["pace"]["mode"], cl["shape"], c["app"]["kind"], c["app"].get("inner"), cl["iter_fault"], too_large,
                      c["request"]["method"]])
        ctx.sample(c, cap=3)
        brief = {"responses": o["parsed"]["responses"], "parse_error": o["parsed"]["error"], "handler_error": o["error"], "logged": o["exceptions"],
                 "loop_errors": o["loop_errors"], "wsgi": None if o["wsgi"] is None else {k: o["wsgi"].get(k) for k in
                                                                                           ("runs", "runs_done", "app_calls", "close_calls", "returned", "off_loop")},
                 "connection_closed": o["closed"], "client": o["client_error"] or o["client_result"]}
        if o["stuck"] or o["client_error"]:
            ctx.violation("e2e_session_stuck", c, brief, dict(sig, stuck=True))
            continue
        resp = o["parsed"]["responses"]
        w = o["wsgi"] or {}
        if too_large:
            if not (len(resp) == 1 and resp[0]["status"] == 400 and resp[0]["complete"]) or w.get("app_calls"):
                ctx.violation("limit_400_no_call", c, brief, sig)
            continue
        # exactly one call, in a thread that is not the event loop's
        if w.get("app_calls") != 1 or w.get("runs") != 1:
            ctx.violation("called_once", c, brief, dict(sig, calls=w.get("app_calls")))
            continue
        if not (w.get("off_loop") and w.get("run_threads_off_loop")):
            ctx.violation("off_event_loop", c, brief, sig)
        if w.get("raw_input") != b2s(body):
            ctx.violation("environ_spec", c, {"wsgi.input": w.get("raw_input"), "body": b2s(body)}, dict(sig, problem="wsgi_input"))
        if w.get("raw_environ") is not None:
            env = dict(w["raw_environ"], **{"wsgi.input": body, "wsgi.errors": sys.stdout})
            probs = environ_problems(js, body, env)
            if probs:
                ctx.violation("environ_spec", c, probs, dict(sig, problem=probs[0].split(":")[0]))
        # the status, headers and iterated body reach the client unchanged — also when the client reads slowly
        if cl["expected"] is not None:
            exp = cl["expected"]
            want_headers = [[n, v] for n, v in exp[0]["headers"]]
            want_body = "".join(m["body"] for m in exp[1:])
            ok = len(resp) == 1 and resp[0].get("complete") and resp[0]["status"] == exp[0]["status"] and resp[0]["body"] == want_body
            if ok:
                it = iter(resp[0]["headers"])
                ok = all(any(h == wh for h in it) for wh in want_headers)          # the application's headers, in order
            if not ok:
                ctx.violation("output_fidelity", c, dict(brief, expected={"status": exp[0]["status"], "headers": want_headers, "body": want_body}),
                              dict(sig, shape=cl["shape"]))
            if o["error"] or o["exceptions"] or o["loop_errors"]:
                ctx.violation("server_error_on_valid_app", c, brief, dict(sig, shape=cl["shape"]))
        # close(): exactly once whenever the callable returned an iterable
        if w.get("returned"):
            if c["app"]["kind"] in ("iter", "iterable") and c["app"]["has_close"] and w.get("close_calls") != 1:
                ctx.violation("close_once", c, brief, dict(sig, shape=cl["shape"], kind=c["app"]["kind"]))
            if c["app"]["kind"] == "gen" and w.get("gen_state") != inspect.GEN_CLOSED:
                ctx.violation("close_once", c, brief, dict(sig, shape=cl["shape"], kind="gen"))
        # correspondence: what the model says the stream accepts, against what the client parsed
        if model is not None:
            ctx.disagreements_checked += 1
            ctx.traces_validated += 1
            m = model[i].get("ok")
            if m is None or m.get("accepted") is None:
                ctx.disagree("c17.e2e", c, model[i], brief)
                continue
            if m["exc"] is None and not m["waiting"]:
                acc = m["accepted"]
                st = acc[0] if acc and acc[0]["type"] == "start" else None
                mb = "".join(x["body"] for x in acc if x["type"] == "body")
                mod = {"status": None if st is None else st["status"], "body": mb, "complete": bool(acc) and acc[-1] == final}
                impl = {"status": resp[0]["status"] if resp else None, "body": resp[0]["body"] if resp else "", "complete": bool(resp) and bool(resp[0].get("complete"))}
                if mod != impl or m["app_calls"] != w.get("app_calls"):
                    ctx.disagree("c17.e2e", c, mod, dict(impl, app_calls=w.get("app_calls")))



def _brief(o: dict) -> dict:
    return {k: o[k] for k in ("sent", "exc", "app_calls", "spawns", "close_calls", "inner_close_calls", "iter_calls", "gen_state", "returned",
                              "off_loop", "unread")}


def _setup(ctx: Ctx) -> None:
    variant, why = detect_variant()
    ctx.extra["run_app_variant"] = variant
    ctx.extra["run_app_variant_evidence"] = why
    if variant is None and not any(t.get("item") == "run_app shape" for t in ctx.tie_broken):
        ctx.tie_broken.append({"kind": "extractor", "item": "run_app shape", "what": why})
    if variant == "check_after_call":
        ctx.notes.append("run_app has the pinned shape (check_after_call): theorems close_once_partial / lazy_start_rejected_as_is / "
                         "close_once_fails_as_is describe it; close_once, eager_lazy_same, lazy_output_fidelity describe the repaired shape")
    elif variant == "check_at_first_chunk":
        ctx.notes.append("run_app has the repaired shape (check_at_first_chunk): the full statements close_once, eager_lazy_same and "
                         "lazy_output_fidelity describe it")


def run(ctx: Ctx) -> None:
    _setup(ctx)
    check_environ(ctx, gen_environ(ctx, ctx.budget(15000, 150000)))
    lim = gen_limit(ctx)
    check_wrapper(ctx, lim)
    ctx.extra["limit_grid_exhaustive"] = f"limits 0..{ctx.budget(3, 5) - 1} x body sizes 0..limit+2 x all compositions into <= 3 messages"
    check_wrapper(ctx, gen_run(ctx, ctx.budget(5000, 60000)))
    ctx.extra["shape_grid_exhaustive"] = [n for n, _ in shape_grid()]
    check_e2e(ctx, gen_e2e(ctx, ctx.budget(40, 1500)))


def replay(ctx: Ctx, case: dict) -> None:
    _setup(ctx)
    if case.get("family") == "environ":
        check_environ(ctx, [case])
    elif case.get("family") == "e2e":
        check_e2e(ctx, [case])
    else:
        check_wrapper(ctx, [case])
